(* C10 — importAttributes on SIGNALS, exactly: the user attribute assignments of an imported signal are the
   BA_ SG_ lines that name its message's CAN-ID and its name (attribute not a well-known one), in file order, each
   read with `attr_value` under the imported definition and kept when it conforms, a later line of the same
   attribute replacing the earlier one.  Uses the completeness of the importer's signals map (ProofsSigMap), its
   soundness (ProofsAttrsSig), and the uniqueness of CAN-IDs, signal names and signal ids. *)
From Coq Require Import String Ascii ZArith List Bool Lia.
From Coq Require Import ZifyBool.
From Acme.C10 Require Import DbcDoc BusModel Import Proofs ProofsEnum ProofsLayout ProofsFaithful ProofsMux ProofsExtMux ProofsIds
  ProofsAttrs ProofsAttrsAll ProofsAttrsSig.
From Acme.C10 Require Import ProofsAttrsExact ProofsSigMap.
Import ListNotations.
Open Scope Z_scope.

Definition isigs_of (dm : dmessage) : list (Z * dsignal) := index_from 0 (sorted_signals dm).

(* ---------------- every signal of every message is registered; every entry comes from a signal of the file ---------------- *)
Lemma import_messages_reg : forall env nodes dms st msgs st' msgs',
  fold_left (fun acc dm => do a <- acc; import_message env a nodes dm) dms (Ok (st, msgs)) = Ok (st', msgs') ->
  ext st st' /\
  (forall i dm, nth_error dms i = Some dm -> forall p, In p (isigs_of dm) ->
     In ((dm_id dm, ds_name (snd p)), ((length msgs + i)%nat, fst p)) (is_sigmap st')) /\
  (forall k v, In (k, v) (is_sigmap st') -> In (k, v) (is_sigmap st) \/
     exists i dm p, nth_error dms i = Some dm /\ In p (isigs_of dm) /\ k = (dm_id dm, ds_name (snd p)) /\ v = ((length msgs + i)%nat, fst p)).
Proof.
  intros env nodes dms. induction dms as [|dm r IH]; intros st msgs st' msgs' H; cbn [fold_left] in H.
  - inversion H; subst. split; [apply ext_refl|]. split; [intros i dm Hn; destruct i; discriminate|intros k v Hin; left; assumption].
  - cbn [bind] in H. destruct (import_message env (st, msgs) nodes dm) as [[st1 msgs1]|w] eqn:E.
    2:{ rewrite fold_result_err in H by reflexivity. discriminate. }
    apply import_message_inv in E. destruct E as [m [sigs [Hm [_ [_ [Hi _]]]]]]. subst msgs1.
    destruct (import_message_signals_reg _ _ _ _ _ _ Hi) as [R1 R2].
    destruct (import_message_signals_fresh _ _ _ _ _ _ Hi) as [_ F2].
    destruct (IH _ _ _ _ H) as [I1 [I2 I3]]. rewrite app_length in I2, I3. cbn [length] in I2, I3.
    split; [eapply ext_trans; eauto|]. split.
    + intros [|i] dm' Hn p Hp; cbn [nth_error] in Hn.
      * inversion Hn; subst dm'. apply I1. rewrite Nat.add_0_r. apply (R2 p Hp).
      * replace (length msgs + S i)%nat with (length msgs + 1 + i)%nat by lia. apply (I2 i dm' Hn p Hp).
    + intros k v Hin. destruct (I3 k v Hin) as [Hold|[i [dm' [p [Hn [Hp [Hk Hv]]]]]]].
      * destruct (F2 k v Hold) as [Ho|[id [ds [Hin' [Hk Hv]]]]]; [left; assumption|].
        right. exists 0%nat, dm, (id, ds). cbn [nth_error fst snd]. rewrite Nat.add_0_r. auto.
      * right. exists (S i), dm', p. cbn [nth_error]. replace (length msgs + S i)%nat with (length msgs + 1 + i)%nat by lia. auto.
Qed.

(* ---------------- every signal of the file is present in the imported message, under its index and name ---------------- *)
Lemma Forall2_conj2 : forall {A B} (P Q : A -> B -> Prop) l l',
  Forall2 P l l' -> Forall2 Q l l' -> Forall2 (fun a b => P a b /\ Q a b) l l'.
Proof. intros A B P Q l l' H. induction H; intros HQ; inversion HQ; subst; constructor; auto. Qed.
Lemma Forall2_imp2 : forall {A B} (P Q : A -> B -> Prop) l l', (forall a b, P a b -> Q a b) -> Forall2 P l l' -> Forall2 Q l l'.
Proof. intros A B P Q l l' Hi H. induction H; constructor; auto. Qed.

Lemma Forall2_len : forall {A B} (P : A -> B -> Prop) l l', Forall2 P l l' -> length l = length l'.
Proof. intros A B P l l' H. induction H; cbn; congruence. Qed.

Lemma isigs_fst_inj : forall dm i x y, In (i, x) (isigs_of dm) -> In (i, y) (isigs_of dm) -> x = y.
Proof.
  intros dm i x y Hx Hy.
  assert (E : (i, x) = (i, y)) by (apply (NoDup_map_inj_l fst (isigs_of dm)); [apply index_from_fst_nodup|assumption|assumption|reflexivity]).
  inversion E. reflexivity.
Qed.

Lemma filter_nil_no_muxor : forall dm, filter (fun p : Z * dsignal => ds_muxor (snd p)) (isigs_of dm) = [] -> no_muxor dm.
Proof.
  intros dm H. unfold no_muxor. apply forallb_forall. intros ds Hds.
  assert (Hs : In ds (sorted_signals dm)) by (unfold sorted_signals; rewrite In_sort_by; assumption).
  rewrite <- (index_from_snd (sorted_signals dm) 0) in Hs. apply in_map_iff in Hs. destruct Hs as [p [<- Hp]].
  destruct (ds_muxor (snd p)) eqn:E; [|reflexivity]. exfalso.
  assert (Hin : In p (filter (fun p : Z * dsignal => ds_muxor (snd p)) (isigs_of dm))) by (apply filter_In; split; assumption).
  rewrite H in Hin. destruct Hin.
Qed.

Definition represented (dm : dmessage) (m : message) : Prop :=
  forall id ds, In (id, ds) (isigs_of dm) -> exists s, In s (m_signals m) /\ s_id s = id /\ s_name s = ds_name ds.

Lemma base_name : forall env msgid ds s, base_faithful env msgid ds s -> s_name s = ds_name ds.
Proof. intros env msgid ds s H. unfold base_faithful, sig_faithful in H. destruct H as [H _]. exact H. Qed.

Lemma import_represented : forall d b, import d = Ok b ->
  Forall2 represented (d_messages d) (b_messages b).
Proof.
  intros d b H.
  destruct (import_signal_faithful d b H) as [se0 [_ HA]].
  destruct (ProofsMux.import_simple_mux_faithful d b H) as [se1 [_ HC]].
  destruct (ProofsExtMux.import_ext_mux_faithful d b H) as [se2 [_ HD]].
  pose proof (import_names_ids_unique d b H) as HN.
  pose proof (Forall2_conj2 _ _ _ _ HA (Forall2_conj2 _ _ _ _ HC (Forall2_conj2 _ _ _ _ HD HN))) as HAll.
  eapply Forall2_imp2; [|exact HAll]. clear. intros dm m [HA [HC [HD HN]]] id ds Hin.
  unfold isigs_of in *. set (isigs := index_from 0 (sorted_signals dm)) in *.
  destruct HN as [Hnames [Hids Hsrc]].
  destruct (filter (fun p : Z * dsignal => ds_muxor (snd p)) isigs) as [|[mid dmx] [|q2 qr]] eqn:Emux.
  - (* no switch: as many signals as the file has, distinct indexes among the file's *)
    destruct HA as [_ [_ HA]]. specialize (HA (filter_nil_no_muxor dm Emux)).
    assert (Hlen : length (m_signals m) = length isigs).
    { rewrite <- (Forall2_len _ _ _ HA). unfold isigs. rewrite <- (map_length snd (index_from 0 (sorted_signals dm))), index_from_snd. reflexivity. }
    assert (Hincl : incl (map s_id (m_signals m)) (map fst isigs)).
    { intros x Hx. apply in_map_iff in Hx. destruct Hx as [s [<- Hs]]. destruct (Hsrc s Hs) as [ds' [Hd _]]. apply in_map_iff. exists (s_id s, ds'). auto. }
    assert (Hrev : incl (map fst isigs) (map s_id (m_signals m))).
    { apply NoDup_length_incl; [assumption|rewrite !map_length; lia|assumption]. }
    assert (Hid : In id (map s_id (m_signals m))) by (apply Hrev; apply in_map_iff; exists (id, ds); auto).
    apply in_map_iff in Hid. destruct Hid as [s [Hsid Hs]]. exists s. split; [assumption|]. split; [assumption|].
    destruct (Hsrc s Hs) as [ds' [Hd Hn]]. rewrite Hsid in Hd. rewrite Hn. f_equal. apply (isigs_fst_inj dm id ds' ds); assumption.
  - (* one switch *)
    assert (Hone : one_muxor dm mid dmx) by exact Emux.
    destruct (HC mid dmx Hone) as [[mx [M1 [M2 [M3 _]]]] Hall].
    destruct (Z.eq_dec id mid) as [->|Hne].
    + assert (Hmx : In (mid, dmx) isigs) by (assert (Hx : In (mid, dmx) (filter (fun p : Z * dsignal => ds_muxor (snd p)) isigs)) by (rewrite Emux; left; reflexivity); apply filter_In in Hx; tauto).
      rewrite (isigs_fst_inj dm mid ds dmx Hin Hmx). exists mx. auto.
    + destruct (Hall id ds Hin Hne) as [s [T1 [T2 [T3 _]]]]. exists s. split; [assumption|]. split; [assumption|]. eapply base_name; eauto.
  - (* several switches *)
    assert (Hn : (2 <= length (filter (fun p : Z * dsignal => ds_muxor (snd p)) isigs))%nat) by (rewrite Emux; cbn; lia).
    unfold ext_mux_faithful in HD. cbv zeta in HD. fold isigs in HD. destruct (HD Hn) as [Hall Hmux].
    destruct (ds_muxor ds) eqn:Em.
    + assert (Hm : In (id, ds) (filter (fun p : Z * dsignal => ds_muxor (snd p)) isigs)) by (apply filter_In; split; assumption).
      apply (In_nth _ _ (0, mkdsignal EmptyString false false 0 0 0 LittleEndian false fl_one fl_zero fl_zero fl_zero EmptyString [])) in Hm.
      destruct Hm as [j [Hj Hnth]]. specialize (Hmux j Hj). unfold mux_placed in Hmux. rewrite Hnth in Hmux.
      destruct Hmux as [mx [M1 [[R1 [R2 _]] _]]]. exists mx. auto.
    + destruct (Hall id ds Hin Em) as [s [T1 [T2 [T3 _]]]]. exists s. split; [assumption|]. split; [assumption|]. eapply base_name; eauto.
Qed.

(* ---------------- the lookup of a signal in the final map ---------------- *)
Lemma lookup_unique : forall {V} (l : list (key * V)) k v,
  In (k, v) l -> (forall v', In (k, v') l -> v' = v) -> lookup key_eqb k l = Some v.
Proof.
  intros V l. induction l as [|[k0 v0] r IH]; intros k v Hin Hu; [destruct Hin|]. cbn [lookup].
  destruct (key_eqb k k0) eqn:E.
  - apply key_eqb_eq in E. subst k0. f_equal. apply Hu. left. reflexivity.
  - destruct Hin as [Hin|Hin]; [inversion Hin; subst; rewrite (proj2 (key_eqb_eq k k) eq_refl) in E; discriminate|].
    apply IH; [assumption|]. intros v' Hv'. apply Hu. right. assumption.
Qed.
Lemma lookup_in : forall {V} (l : list (key * V)) k v, lookup key_eqb k l = Some v -> In (k, v) l.
Proof.
  intros V l. induction l as [|[k0 v0] r IH]; intros k v H; cbn [lookup] in H; [discriminate|].
  destruct (key_eqb k k0) eqn:E; [apply key_eqb_eq in E; inversion H; subst; left; reflexivity|right; apply IH; assumption].
Qed.

Lemma Forall2_nth_r : forall {A B} (R : A -> B -> Prop) l l' i y, Forall2 R l l' -> nth_error l' i = Some y -> exists x, nth_error l i = Some x /\ R x y.
Proof.
  intros A B R l l' i y H. revert i. induction H as [|x0 y0 r r' Hxy Hr IH]; intros i Hy; [destruct i; discriminate|].
  destruct i; cbn [nth_error] in *; [inversion Hy; subst; eauto|apply IH; assumption].
Qed.
Lemma NoDup_nth_error_map : forall {A B} (f : A -> B) l i j x y, NoDup (map f l) -> nth_error l i = Some x -> nth_error l j = Some y -> f x = f y -> i = j.
Proof.
  intros A B f l i j x y Hnd Hi Hj Hf. apply (proj1 (NoDup_nth_error (map f l)) Hnd).
  - apply nth_error_Some. rewrite nth_error_map, Hi. discriminate.
  - rewrite !nth_error_map, Hi, Hj. cbn. congruence.
Qed.

Definition sm_complete (msgs : list message) (sm : list (key * (nat * Z))) : Prop :=
  forall i m s, nth_error msgs i = Some m -> In s (m_signals m) -> lookup key_eqb (m_canid m, s_name s) sm = Some (i, s_id s).

Lemma import_sigmap_complete : forall d b st4 msgs env nodes es,
  import d = Ok b ->
  fold_left (fun acc dm => do a <- acc; import_message env a nodes dm) (d_messages d) (Ok (mkistate es [] [], [])) = Ok (st4, msgs) ->
  sm_complete (b_messages b) (is_sigmap st4).
Proof.
  intros d b st4 msgs env nodes es H Hm.
  destruct (import_messages_reg _ _ _ _ _ _ _ Hm) as [_ [R1 R2]]. cbn [length is_sigmap Nat.add] in R1, R2.
  pose proof (import_represented d b H) as HR.
  pose proof (import_names_ids_unique d b H) as HN.
  pose proof (import_messages_heads d b H) as Hheads.
  destruct (import_valid d b H) as [_ [Hcan _]].
  assert (Hcid : map m_canid (b_messages b) = map dm_id (d_messages d)).
  { transitivity (map (fun h : Z * string * Z * string * list string * byte_order => fst (fst (fst (fst (fst h))))) (map msg_head (b_messages b))); [rewrite map_map; reflexivity|].
    rewrite Hheads, map_map. reflexivity. }
  assert (HF : Forall2 (fun dm m => m_canid m = dm_id dm) (d_messages d) (b_messages b)).
  { clear - Hcid. revert Hcid. generalize (b_messages b) as ms. induction (d_messages d) as [|dm r IH]; intros [|m mr] Hc; cbn [map] in Hc; try discriminate; constructor.
    - inversion Hc; reflexivity.
    - apply IH. inversion Hc; reflexivity. }
  pose proof (Forall2_conj2 _ _ _ _ HF (Forall2_conj2 _ _ _ _ HR HN)) as HAll.
  intros i m s Hi Hs.
  destruct (Forall2_nth_r _ _ _ _ _ HAll Hi) as [dm [Hdm [Hc [Hrep [Hnames [Hids Hsrc]]]]]].
  destruct (Hsrc s Hs) as [ds [Hd Hn]].
  pose proof (R1 i dm Hdm (s_id s, ds) Hd) as Hreg. cbn [fst snd] in Hreg. rewrite <- Hc, <- Hn in Hreg.
  apply lookup_unique; [exact Hreg|].
  intros v' Hv'. destruct (R2 _ _ Hv') as [[]|[i' [dm' [[id' ds'] [Hdm' [Hp' [Hk Hv]]]]]]]. cbn [fst snd] in Hk, Hv. subst v'. inversion Hk as [[K1 K2]].
  assert (i' = i).
  { apply (NoDup_nth_error_map dm_id (d_messages d) i' i dm' dm); [rewrite <- Hcid; exact Hcan|assumption|assumption|congruence]. }
  subst i'. assert (dm' = dm) by congruence. subst dm'.
  destruct (Hrep id' ds' Hp') as [s' [S1 [S2 S3]]].
  assert (s' = s) by (apply (NoDup_map_inj_l s_name (m_signals m)); try assumption; congruence). subst s'. rewrite S2. reflexivity.
Qed.

(* ---------------- the attribute fold, signal by signal ---------------- *)
Definition user_step (amap : list (string * attr_def)) (l : list attr_asg) (av : dattrval) : list attr_asg :=
  match special_of (av_name av) with Some _ => l | None => val_step amap l av end.
(* the two dedicated fields of a signal: start value and send type *)
Definition sfields (s : signal) : fl * Z := (s_startval s, s_sendtype s).
Definition sfld_user (amap : list (string * attr_def)) (f : fl * Z) (av : dattrval) : fl * Z :=
  match lookup String.eqb (av_name av) amap with
  | Some ad =>
      match attr_value ad av with
      | Ok v =>
          match special_of (av_name av), v with
          | Some SpSigStart, ValFloat x => (x, snd f)
          | Some SpSigStart, ValInt z => (fl_of_Z z, snd f)
          | Some SpSigSend, ValString t => (fst f, sig_send_type_from_dbc t)
          | _, _ => f
          end
      | Err _ => f
      end
  | None => f
  end.
(* routed by the importer's signals map ... *)
Definition rstepG {T} (u : T -> dattrval -> T) (sm : list (key * (nat * Z))) (i : nat) (id : Z) (l : T) (av : dattrval) : T :=
  match av_kind av with
  | OSignal => match lookup key_eqb (av_msg av, av_sig av) sm with
               | Some (p, sid) => if Nat.eqb p i && (sid =? id) then u l av else l
               | None => l
               end
  | _ => l
  end.
(* ... which is: addressed by CAN-ID and signal name *)
Definition sig_stepG {T} (u : T -> dattrval -> T) (cid : Z) (nm : string) (l : T) (av : dattrval) : T :=
  match av_kind av with
  | OSignal => if (cid =? av_msg av) && String.eqb nm (av_sig av) then u l av else l
  | _ => l
  end.
Definition rstep (amap : list (string * attr_def)) := rstepG (user_step amap).
Definition sig_step (amap : list (string * attr_def)) := sig_stepG (user_step amap).
Definition rfld (amap : list (string * attr_def)) := rstepG (sfld_user amap).
Definition sfld_step (amap : list (string * attr_def)) := sig_stepG (sfld_user amap).

Lemma update_first_any : forall {A} (p : A -> bool) (f : A -> result A) l l',
  update_first p f l = Ok l' -> Forall2 (fun x y => y = x \/ f x = Ok y) l l'.
Proof.
  intros A p f l. induction l as [|x r IH]; intros l' H; cbn [update_first] in H; [inversion H; constructor|].
  destruct (p x).
  - apply bind_ok in H. destruct H as [y [Hy H]]. inversion H; subst. constructor; [right; exact Hy|]. apply Forall2_same. intros z _. left. reflexivity.
  - apply bind_ok in H. destruct H as [r' [Hr' H]]. inversion H; subst. constructor; [left; reflexivity|apply IH; assumption].
Qed.
Lemma Forall2_nth_both : forall {A B} (R : A -> B -> Prop) l l' i x y, Forall2 R l l' -> nth_error l i = Some x -> nth_error l' i = Some y -> R x y.
Proof.
  intros A B R l l' i x y H. revert i. induction H as [|x0 y0 r r' Hxy Hr IH]; intros i Hx Hy; [destruct i; discriminate|].
  destruct i; cbn [nth_error] in *; [inversion Hx; inversion Hy; subst; assumption|eapply IH; eauto].
Qed.
Lemma Forall2_in_right : forall {A B} (R : A -> B -> Prop) l l' y, Forall2 R l l' -> In y l' -> exists x, In x l /\ R x y.
Proof.
  intros A B R l l' y H. induction H as [|x0 y0 r r' Hxy Hr IH]; intros Hy; [destruct Hy|].
  destruct Hy as [<-|Hy]; [exists x0; split; [left; reflexivity|assumption]|]. destruct (IH Hy) as [x [Hx HR]]. exists x. split; [right; assumption|assumption].
Qed.
Lemma fold_left_ext_all : forall {A B} (f g : A -> B -> A) l a, (forall a x, f a x = g a x) -> fold_left f l a = fold_left g l a.
Proof. intros A B f g l. induction l as [|x r IH]; intros a H; [reflexivity|]. cbn [fold_left]. rewrite H. apply IH. assumption. Qed.

Lemma assign_signal_attrs : forall amap name ad v s s' av,
  av_name av = name -> lookup String.eqb name amap = Some ad -> attr_value ad av = Ok v ->
  assign_signal name ad v s = Ok s' -> s_attrs s' = user_step amap (s_attrs s) av.
Proof.
  intros amap name ad v s s' av Hn Hl Hv H. unfold assign_signal in H. unfold user_step. rewrite Hn.
  destruct (special_of name) as [[]|].
  1-4: inversion H; reflexivity.
  - destruct v; inversion H; reflexivity.
  - destruct v; try discriminate. inversion H; reflexivity.
  - apply bind_ok in H. destruct H as [a [Ht H]]. inversion H; subst s'. cbn [s_attrs set_s_attrs].
    unfold val_step. rewrite Hn, Hl, Hv. unfold try_assign in Ht. destruct (check_value ad v); [inversion Ht; reflexivity|discriminate].
Qed.

Lemma assign_signal_fields : forall amap name ad v s s' av,
  av_name av = name -> lookup String.eqb name amap = Some ad -> attr_value ad av = Ok v ->
  assign_signal name ad v s = Ok s' -> sfields s' = sfld_user amap (sfields s) av.
Proof.
  intros amap name ad v s s' av Hn Hl Hv H. unfold assign_signal in H. unfold sfld_user, sfields. rewrite Hn, Hl, Hv.
  destruct (special_of name) as [[]|].
  1-4: inversion H; subst; destruct v; reflexivity.
  - destruct v; inversion H; reflexivity.
  - destruct v; try discriminate. inversion H; reflexivity.
  - apply bind_ok in H. destruct H as [a [Ht H]]. inversion H; subst s'. destruct v; reflexivity.
Qed.

Section SigExact.
  Variables (amap : list (string * attr_def)) (sm : list (key * (nat * Z))).

  Definition SRel (i : nat) (av : dattrval) (s0 s1 : signal) : Prop :=
    s_id s1 = s_id s0 /\ s_name s1 = s_name s0 /\ s_attrs s1 = rstep amap sm i (s_id s0) (s_attrs s0) av /\
    sfields s1 = rfld amap sm i (s_id s0) (sfields s0) av.
  Definition MRel (av : dattrval) (l0 l1 : list message) : Prop :=
    length l1 = length l0 /\
    forall i m0 m1, nth_error l0 i = Some m0 -> nth_error l1 i = Some m1 -> Forall2 (SRel i av) (m_signals m0) (m_signals m1).
  Definition ids_ok (l : list message) : Prop := forall m, In m l -> NoDup (map s_id (m_signals m)).

  Lemma SRel_same : forall i av s, (av_kind av <> OSignal \/ lookup key_eqb (av_msg av, av_sig av) sm = None) -> SRel i av s s.
  Proof.
    intros i av s H. split; [reflexivity|]. split; [reflexivity|]. unfold rstep, rfld, rstepG. destruct H as [H|H].
    - destruct (av_kind av); try (split; reflexivity). exfalso. apply H. reflexivity.
    - rewrite H. destruct (av_kind av); split; reflexivity.
  Qed.
  Lemma MRel_same : forall av l, (av_kind av <> OSignal \/ lookup key_eqb (av_msg av, av_sig av) sm = None) -> MRel av l l.
  Proof.
    intros av l H. split; [reflexivity|]. intros i m0 m1 H0 H1. assert (m1 = m0) by congruence. subst.
    apply Forall2_same. intros s _. apply SRel_same. assumption.
  Qed.

  Lemma astep_sig : forall b0 av b1, ids_ok (b_messages b0) -> astep amap sm (Ok b0) av = Ok b1 -> MRel av (b_messages b0) (b_messages b1).
  Proof.
    intros b0 av b1 Hids H. unfold astep in H. cbn [bind] in H.
    destruct (lookup String.eqb (av_name av) amap) as [ad|] eqn:El.
    2:{ inversion H; subst. split; [reflexivity|]. intros i m0 m1 H0 H1. assert (m1 = m0) by congruence. subst.
        apply Forall2_same. intros s _. split; [reflexivity|]. split; [reflexivity|]. unfold rstep, rfld, rstepG, user_step, val_step, sfld_user. rewrite El.
        destruct (av_kind av); try (split; reflexivity). destruct (lookup key_eqb _ sm) as [[p sid]|]; [|split; reflexivity].
        destruct (Nat.eqb p i && (sid =? s_id s)); [|split; reflexivity]. destruct (special_of _); split; reflexivity. }
    destruct (attr_value ad av) as [v|w] eqn:Ev; cbn [bind] in H; [|discriminate].
    destruct (av_kind av) eqn:Ek.
    - apply bind_ok in H. destruct H as [a [_ H]]. inversion H; subst. cbn [b_messages set_b_attrs]. apply MRel_same. left. rewrite Ek. discriminate.
    - assert (b_messages b1 = b_messages b0).
      { destruct (String.eqb (av_node av) dummy_node); [inversion H; reflexivity|]. apply bind_ok in H. destruct H as [ns [_ H]]. inversion H; reflexivity. }
      rewrite H0. apply MRel_same. left. rewrite Ek. discriminate.
    - apply bind_ok in H. destruct H as [ms [Hu H]]. inversion H; subst. cbn [b_messages set_b_messages].
      pose proof (update_first_any _ _ _ _ Hu) as HF. split; [symmetry; eapply Forall2_len; exact HF|].
      intros i m0 m1 H0 H1. pose proof (Forall2_nth_both _ _ _ _ _ _ HF H0 H1) as Hm.
      assert (Hs : m_signals m1 = m_signals m0) by (destruct Hm as [->|Hm]; [reflexivity|eapply assign_message_signals; exact Hm]).
      rewrite Hs. apply Forall2_same. intros s _. apply SRel_same. left. rewrite Ek. discriminate.
    - destruct (lookup key_eqb (av_msg av, av_sig av) sm) as [[mpos sid]|] eqn:Elk.
      2:{ inversion H; subst. apply MRel_same. right. assumption. }
      apply bind_ok in H. destruct H as [ms [Hu H]]. inversion H; subst. cbn [b_messages set_b_messages].
      split; [symmetry; eapply Forall2_len; eapply (update_nth_F2 _ (fun _ _ => True)); [exact Hu|auto|auto]|].
      intros i m0 m1 H0 H1.
      destruct (update_nth_nth _ _ _ _ Hu i m1 H1) as [[Hne Hsame]|[-> [x [Hx Hf]]]].
      + assert (m1 = m0) by congruence. subst. apply Forall2_same. intros s _. split; [reflexivity|]. split; [reflexivity|].
        unfold rstep, rfld, rstepG. rewrite Ek, Elk. replace (Nat.eqb mpos i) with false by (symmetry; apply Nat.eqb_neq; lia). split; reflexivity.
      + assert (x = m0) by congruence. subst x.
        apply bind_ok in Hf. destruct Hf as [ss [Hss Hf]]. inversion Hf; subst m1. cbn [m_signals set_m_signals].
        pose proof (update_first_key s_id sid _ _ _ _ (fun x => Z.eqb_eq (s_id x) sid) (Hids m0 (nth_error_In _ _ H0)) Hss) as HF.
        eapply Forall2_impl'; [|exact HF]. intros s s' Hxy. cbn beta in Hxy. unfold SRel, rstep, rfld, rstepG. rewrite Ek, Elk, Nat.eqb_refl. cbn [andb].
        destruct (s_id s =? sid) eqn:Es.
        * apply Z.eqb_eq in Es. replace (sid =? s_id s) with true by (symmetry; apply Z.eqb_eq; congruence).
          pose proof (assign_signal_idname _ _ _ _ _ Hxy) as Hidn. pose proof (f_equal fst Hidn) as I1. pose proof (f_equal snd Hidn) as I2. cbn [fst snd] in I1, I2.
          split; [exact I1|]. split; [exact I2|]. split; [eapply (assign_signal_attrs amap (av_name av) ad v s s' av); eauto|eapply (assign_signal_fields amap (av_name av) ad v s s' av); eauto].
        * subst s'. replace (sid =? s_id s) with false by (symmetry; apply Z.eqb_neq; intros E; rewrite E, Z.eqb_refl in Es; discriminate). auto 6.
    - inversion H; subst. apply MRel_same. left. rewrite Ek. discriminate.
  Qed.

  Definition MRelF (avs : list dattrval) (l0 l1 : list message) : Prop :=
    length l1 = length l0 /\
    forall i m0 m1, nth_error l0 i = Some m0 -> nth_error l1 i = Some m1 ->
      Forall2 (fun s0 s1 => s_id s1 = s_id s0 /\ s_name s1 = s_name s0 /\ s_attrs s1 = fold_left (rstep amap sm i (s_id s0)) avs (s_attrs s0) /\
                            sfields s1 = fold_left (rfld amap sm i (s_id s0)) avs (sfields s0))
              (m_signals m0) (m_signals m1).

  Lemma astep_fold_sig : forall avs b0 b1, ids_ok (b_messages b0) -> fold_left (astep amap sm) avs (Ok b0) = Ok b1 -> MRelF avs (b_messages b0) (b_messages b1).
  Proof.
    induction avs as [|av r IH]; intros b0 b1 Hids H; cbn [fold_left] in H.
    - inversion H; subst. split; [reflexivity|]. intros i m0 m1 H0 H1. assert (m1 = m0) by congruence. subst. apply Forall2_same. intros s _. auto 6.
    - destruct (astep amap sm (Ok b0) av) as [b0'|w] eqn:E.
      2:{ rewrite fold_result_err in H; [discriminate|intros x w'; reflexivity]. }
      destruct (astep_sig _ _ _ Hids E) as [L1 A1].
      assert (Hids' : ids_ok (b_messages b0')).
      { intros m' Hm'. apply In_nth_error in Hm'. destruct Hm' as [i Hi].
        assert (Hlt : (i < length (b_messages b0))%nat) by (rewrite <- L1; apply nth_error_Some; rewrite Hi; discriminate).
        apply nth_error_Some in Hlt. destruct (nth_error (b_messages b0) i) as [m0|] eqn:E0; [|contradiction].
        pose proof (A1 i m0 m' E0 Hi) as HF.
        assert (Hmap : map s_id (m_signals m') = map s_id (m_signals m0)) by (eapply Forall2_names; [exact HF|intros x y [K _]; exact K]).
        rewrite Hmap. apply Hids. eapply nth_error_In; eauto. }
      destruct (IH _ _ Hids' H) as [L2 A2]. split; [congruence|]. intros i m0 m1 H0 H1. cbn [fold_left].
      assert (Hlt : (i < length (b_messages b0'))%nat) by (rewrite L1; apply nth_error_Some; rewrite H0; discriminate).
      apply nth_error_Some in Hlt. destruct (nth_error (b_messages b0') i) as [m'|] eqn:E'; [|contradiction].
      eapply Forall2_comp; [exact (A1 i m0 m' H0 E')|exact (A2 i m' m1 E' H1)|].
      intros x y z [N1 [N2 [N3 N4]]] [K1 [K2 [K3 K4]]]. split; [congruence|]. split; [congruence|]. rewrite K3, K4, N1, N3, N4. split; reflexivity.
  Qed.
End SigExact.

(* ---------------- routing by the map = addressing by CAN-ID and name ---------------- *)
Lemma rstep_sig_step : forall {T} (u : T -> dattrval -> T) msgs sm i m s l av,
  sm_ok msgs sm -> sm_complete msgs sm -> nth_error msgs i = Some m -> In s (m_signals m) ->
  rstepG u sm i (s_id s) l av = sig_stepG u (m_canid m) (s_name s) l av.
Proof.
  intros T u msgs sm i m s l av Hok Hcomp Hi Hs. unfold rstepG, sig_stepG. destruct (av_kind av); try reflexivity.
  pose proof (Hcomp i m s Hi Hs) as Hl.
  destruct ((m_canid m =? av_msg av) && String.eqb (s_name s) (av_sig av)) eqn:Ec.
  - apply andb_true_iff in Ec. destruct Ec as [E1 E2]. apply Z.eqb_eq in E1. apply String.eqb_eq in E2.
    rewrite <- E1, <- E2, Hl, Nat.eqb_refl, Z.eqb_refl. reflexivity.
  - destruct (lookup key_eqb (av_msg av, av_sig av) sm) as [[p sid]|] eqn:Elk; [|reflexivity].
    destruct (Nat.eqb p i && (sid =? s_id s)) eqn:Ep; [|reflexivity]. exfalso.
    apply andb_true_iff in Ep. destruct Ep as [P1 P2]. apply Nat.eqb_eq in P1. apply Z.eqb_eq in P2. subst p sid.
    apply lookup_in in Elk. unfold sm_ok in Hok. rewrite Forall_forall in Hok. destruct (Hok _ Elk) as [m' [M1 [M2 M3]]]. cbn [fst snd] in *.
    assert (m' = m) by congruence. subst m'. rewrite (M3 s Hs eq_refl), M2, Z.eqb_refl, String.eqb_refl in Ec. discriminate.
Qed.

Lemma shape_nth : forall msgs msgs' i m', map shape msgs' = map shape msgs -> nth_error msgs' i = Some m' ->
  exists m, nth_error msgs i = Some m /\ shape m = shape m'.
Proof.
  intros msgs msgs' i m' Hsh Hi.
  assert (Hn : nth_error (map shape msgs') i = Some (shape m')) by (rewrite nth_error_map, Hi; reflexivity).
  rewrite Hsh, nth_error_map in Hn. destruct (nth_error msgs i) as [m|]; [|discriminate]. cbn [option_map] in Hn. exists m. split; [reflexivity|]. congruence.
Qed.

Theorem import_signal_attributes_exact : forall d b, import d = Ok b ->
  exists amap, def_map d = Ok amap /\
    Forall (fun m => Forall (fun s => s_attrs s = fold_left (sig_step amap (m_canid m) (s_name s)) (d_attrvals d) [] /\
                                      sfields s = fold_left (sfld_step amap (m_canid m) (s_name s)) (d_attrvals d) (fl_zero, 0)) (m_signals m)) (b_messages b).
Proof.
  intros d b H. pose proof H as H0. apply import_inv in H0.
  destruct H0 as [reg [es [se [nodes [st4 [msgs [b1 [_ [_ [_ [Hm [Hb Hbb]]]]]]]]]]]].
  pose proof (import_sigmap_complete d b st4 msgs _ _ _ H Hm) as Hcomp.
  pose proof (import_names_ids_unique d b H) as HN.
  rewrite import_attributes_unfold in Hb. apply bind_ok in Hb. destruct Hb as [amap [Hd Hf]].
  exists amap. split; [assumption|].
  destruct (import_messages_sm _ _ _ _ _ _ _ Hm) as [S1 S2]; [split; constructor|].
  assert (Hbm : b_messages b = b_messages b1) by (subst b; destruct (existsb _ _); reflexivity).
  destruct (astep_fold_SAs d amap (is_sigmap st4) _ _ _ (incl_refl _) Hf) as [_ A2].
  { cbn [b_messages]. intros i m Hi. unfold SA. apply nth_error_In in Hi. rewrite Forall_forall in S2.
    eapply Forall_impl; [|apply (S2 m Hi)]. intros s Hs. apply ZP_SG. assumption. }
  cbn [b_messages] in A2.
  assert (Hok : sm_ok (b_messages b) (is_sigmap st4)) by (rewrite Hbm; eapply sm_ok_shape; [exact A2|exact S1]).
  (* the ids of every message of the intermediate list are distinct *)
  assert (Hids : ids_ok msgs).
  { intros m0 Hm0. apply In_nth_error in Hm0. destruct Hm0 as [i Hi].
    assert (Hsh : map shape msgs = map shape (b_messages b)) by (rewrite Hbm; symmetry; exact A2).
    destruct (shape_nth _ _ i m0 Hsh Hi) as [mb [Hmb Hs]].
    destruct (Forall2_nth_r _ _ _ _ _ HN Hmb) as [dm [_ [_ [Hidb _]]]].
    assert (Hmapid : map s_id (m_signals mb) = map s_id (m_signals m0)).
    { pose proof (f_equal (fun sh : Z * list (Z * string) => map fst (snd sh)) Hs) as E. unfold shape in E. cbn [snd] in E. rewrite !map_map in E. cbn [fst] in E. exact E. }
    rewrite <- Hmapid. assumption. }
  destruct (astep_fold_sig amap (is_sigmap st4) (d_attrvals d) (mkbus (d_filename d) (fst (import_comments (d_comments d))) [] nodes (is_enums st4) msgs) b1 Hids Hf) as [L1 A1].
  cbn [b_messages] in L1, A1.
  apply Forall_forall. intros m Hmin. apply Forall_forall. intros s Hs.
  apply In_nth_error in Hmin. destruct Hmin as [i Hi].
  assert (Hi1 : nth_error (b_messages b1) i = Some m) by (rewrite <- Hbm; exact Hi).
  assert (Hlt : (i < length msgs)%nat) by (rewrite <- L1; apply nth_error_Some; rewrite Hi1; discriminate).
  apply nth_error_Some in Hlt. destruct (nth_error msgs i) as [m0|] eqn:E0; [|contradiction].
  destruct (Forall2_in_right _ _ _ _ (A1 i m0 m E0 Hi1) Hs) as [s0 [Hs0 [K1 [K2 [K3 K4]]]]].
  rewrite Forall_forall in S2. pose proof (S2 m0 (nth_error_In _ _ E0)) as HZ. rewrite Forall_forall in HZ. destruct (HZ s0 Hs0) as [Z1 [Z2 Z3]].
  split.
  - rewrite K3, Z1, <- K1. apply fold_left_ext_all. intros l av. apply (rstep_sig_step (user_step amap) (b_messages b) (is_sigmap st4) i m s l av Hok Hcomp Hi Hs).
  - rewrite K4. replace (sfields s0) with (fl_zero, 0) by (unfold sfields; rewrite Z2, Z3; reflexivity). rewrite <- K1. apply fold_left_ext_all. intros l av. apply (rstep_sig_step (sfld_user amap) (b_messages b) (is_sigmap st4) i m s l av Hok Hcomp Hi Hs).
Qed.
