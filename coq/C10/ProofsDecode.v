(* C10 — the decode clause restated over the IMPORTED signal: for a message without multiplexor
   switch, the raw value the library's filters assemble for the imported signal (its position, its
   size in the final enum table, the message's byte order) is the value the DBC rule prescribes for
   the file's start bit, size and byte order. *)
From Coq Require Import String Ascii ZArith List Bool Lia.
From Coq Require Import ZifyBool.
From Acme.C10 Require Import DbcDoc BusModel Import Bits BitsProofs Proofs ProofsEnum ProofsLayout ProofsFaithful.
Import ListNotations.
Open Scope Z_scope.

Definition order_uniform (dm : dmessage) : Prop :=
  forall ds, In ds (dm_signals dm) -> ds_order ds = order_of dm.

Lemma import_messages_orders : forall env nodes dms st msgs st' msgs',
  fold_left (fun acc dm => do a <- acc; import_message env a nodes dm) dms (Ok (st, msgs)) = Ok (st', msgs') ->
  Forall order_uniform dms.
Proof.
  intros env nodes dms. induction dms as [|dm r IH]; intros st msgs st' msgs' H; cbn [fold_left] in H; [constructor|].
  cbn [bind] in H. destruct (import_message env (st, msgs) nodes dm) as [[st1 msgs1]|w] eqn:E.
  2:{ rewrite fold_result_err in H by reflexivity. discriminate. }
  constructor; [|eapply IH; eauto].
  apply import_message_inv in E. destruct E as [m [sigs [_ [_ [_ [_ [_ [_ [_ [_ [_ [_ [_ [_ [_ [_ Ho]]]]]]]]]]]]]]]].
  intros ds Hin. rewrite forallb_forall in Ho.
  assert (Hs : In ds (sorted_signals dm)) by (unfold sorted_signals; rewrite In_sort_by; assumption).
  specialize (Ho ds Hs). destruct (ds_order ds), (order_of dm); cbn in Ho; congruence.
Qed.

Theorem import_decode_dbc_imported : forall d b, import d = Ok b ->
  Forall2 (fun dm m => no_muxor dm ->
    Forall2 (fun ds s => forall data,
      0 <= ds_start ds -> 1 <= ds_size ds -> get_start_bit ds + ds_size ds <= 64 ->
      d08_excluded (ds_order ds) (get_start_bit ds) (ds_size ds) = false ->
      go_raw (m_order m) (s_rel s) (sig_size (b_enums b) s) data
      = dbc_raw (ds_order ds) (ds_start ds) (ds_size ds) data)
      (sorted_signals dm) (m_signals m))
    (d_messages d) (b_messages b).
Proof.
  intros d b H.
  pose proof (import_messages_heads d b H) as Hheads.
  destruct (import_enum_faithful d b H) as [se [Hkeys Henum]].
  pose proof H as H0. apply import_inv in H0.
  destruct H0 as [reg [es [se' [nodes [st4 [msgs [b1 [_ [Hv [_ [Hm [Hb Hbb]]]]]]]]]]]].
  pose proof (import_messages_orders _ _ _ _ _ _ _ Hm) as Hord.
  (* the faithful part, for the same message lists *)
  destruct (import_signal_faithful d b H) as [se0 [Hkeys0 Hfaith]].
  clear Hm Hb Hbb Hv. revert Hheads Henum Hfaith Hord.
  generalize (b_messages b) as ms. generalize (d_messages d) as dms.
  induction dms as [|dm r IH]; intros ms Hh He Hf Ho; inversion He as [|? m ? mr He1 Her]; subst; [constructor|].
  inversion Hf as [|? ? ? ? Hf1 Hfr]; subst. inversion Ho as [|? ? Ho1 Hor]; subst.
  cbn [map] in Hh. apply cons_inj in Hh. destruct Hh as [Hh1 Hhr].
  constructor; [|apply IH; assumption].
  intros Hno. specialize (He1 Hno). destruct Hf1 as [_ [_ Hf1]]. specialize (Hf1 Hno).
  assert (Hmo : m_order m = order_of dm) by (unfold msg_head, dmsg_head in Hh1; congruence).
  assert (Hin : forall ds, In ds (sorted_signals dm) -> ds_order ds = m_order m).
  { intros ds Hds. rewrite Hmo. apply Ho1. unfold sorted_signals in Hds. rewrite In_sort_by in Hds. assumption. }
  clear - He1 Hf1 Hin Hkeys Hkeys0. revert He1 Hf1 Hin. generalize (m_signals m) as sl. generalize (sorted_signals dm) as dl.
  induction dl as [|ds q IHq]; intros sl He Hf Hin; inversion He as [|? s ? sr Hes Her]; subst; [constructor|].
  inversion Hf as [|? ? ? ? Hfs Hfr]; subst.
  constructor; [|apply IHq; [assumption|assumption|intros x Hx; apply Hin; right; assumption]].
  intros data Hst Hsz Hb Hd.
  destruct Hfs as [_ [Hrel [_ [_ [_ Hkind]]]]].
  assert (Hsize : sig_size (b_enums b) s = ds_size ds).
  { destruct (lookup key_eqb (dm_id dm, ds_name ds) se) as [ei0|] eqn:El.
    - destruct (Hes ei0 eq_refl) as [vals [_ [_ [_ Hs]]]]. exact Hs.
    - assert (Hnone : lookup key_eqb (dm_id dm, ds_name ds) (ie_sig_enums (doc_env d se0)) = None).
      { rewrite doc_env_sig_enums. destruct (lookup key_eqb (dm_id dm, ds_name ds) se0) as [e0|] eqn:E0; [|reflexivity].
        exfalso. assert (Hex : exists e, lookup key_eqb (dm_id dm, ds_name ds) se = Some e)
          by (apply Hkeys; apply Hkeys0; eauto). destruct Hex as [e He']. congruence. }
      rewrite Hnone in Hkind. destruct Hkind as [Hk [Hs _]]. unfold sig_size. rewrite Hk. exact Hs. }
  rewrite Hsize, Hrel, <- (Hin ds (or_introl eq_refl)).
  apply import_decode_dbc; assumption.
Qed.
