(* C10 — the decode clause over the IMPORTED signal for messages WITH multiplexor switches (one or several, any
   nesting depth): the raw value the library's filters assemble at the imported signal's ABSOLUTE position (the
   relative positions summed up along the chain of multiplexers), with its size in the final enum table (the selector
   width for a multiplexer) and the message's byte order, is the value the DBC rule prescribes for the file's start
   bit, size and byte order.  Composition of the absolute-position theorems, the faithfulness theorems (sizes), the
   enum theorem at every depth and the bit-level kernel. *)
From Coq Require Import String Ascii ZArith List Bool Lia.
From Coq Require Import ZifyBool.
From Acme.C10 Require Import DbcDoc BusModel Import Bits BitsProofs Proofs ProofsEnum ProofsLayout ProofsFaithful
  ProofsMux ProofsExtMux ProofsIds ProofsEnumMux ProofsExtAbs ProofsDecode.
Import ListNotations.
Open Scope Z_scope.

Definition decode_mux_ok (es : list enum_def) (dm : dmessage) (m : message) : Prop :=
  let isigs := index_from 0 (sorted_signals dm) in
  let muxes := filter (fun p : Z * dsignal => ds_muxor (snd p)) isigs in
  muxes <> [] -> (forall mid dmx, In (mid, dmx) muxes -> 0 <= ds_size dmx) ->
  forall id ds, In (id, ds) isigs ->
    exists s, In s (m_signals m) /\ s_id s = id /\ s_name s = ds_name ds /\
      forall data, 0 <= ds_start ds -> 1 <= ds_size ds -> get_start_bit ds + ds_size ds <= 64 ->
        d08_excluded (ds_order ds) (get_start_bit ds) (ds_size ds) = false ->
        go_raw (m_order m) (abs_start (length (m_signals m)) (m_signals m) s)
               (match s_kind s with KMux => sel_width s | _ => sig_size es s end) data
        = dbc_raw (ds_order ds) (ds_start ds) (ds_size ds) data.

Lemma Forall2_conj : forall {A B} (P Q : A -> B -> Prop) l l',
  Forall2 P l l' -> Forall2 Q l l' -> Forall2 (fun a b => P a b /\ Q a b) l l'.
Proof.
  intros A B P Q l l' H. induction H; intros HQ; inversion HQ; subst; constructor; auto.
Qed.
Lemma Forall2_imp : forall {A B} (P Q : A -> B -> Prop) l l',
  (forall a b, P a b -> Q a b) -> Forall2 P l l' -> Forall2 Q l l'.
Proof. intros A B P Q l l' Hi H. induction H; constructor; auto. Qed.

Lemma index_from_fst_inj : forall {A} (l : list A) k i x y, In (i, x) (index_from k l) -> In (i, y) (index_from k l) -> x = y.
Proof.
  intros A l k i x y Hx Hy.
  assert (E : (i, x) = (i, y)) by (apply (NoDup_map_inj_in fst (index_from k l)); [apply ProofsIds.index_from_fst_nodup|assumption|assumption|reflexivity]).
  inversion E. reflexivity.
Qed.

Lemma base_size : forall env msgid ds s, base_faithful env msgid ds s ->
  (s_kind s = KStandard /\ s_size s = ds_size ds) \/ s_kind s = KEnum.
Proof.
  intros env msgid ds s H. unfold base_faithful, sig_faithful in H. destruct H as [_ [_ [_ [_ [_ H]]]]].
  cbn [s_kind s_size place] in H. destruct (lookup _ _ _); [right; exact H|left; destruct H as [H1 [H2 _]]; auto].
Qed.

Theorem import_decode_dbc_mux : forall d b, import d = Ok b ->
  Forall2 (fun dm m => decode_mux_ok (b_enums b) dm m) (d_messages d) (b_messages b).
Proof.
  intros d b H.
  pose proof (import_simple_mux_abs d b H) as HA.
  pose proof (import_ext_mux_abs d b H) as HB.
  destruct (ProofsMux.import_simple_mux_faithful d b H) as [se1 [_ HC]].
  destruct (ProofsExtMux.import_ext_mux_faithful d b H) as [se2 [_ HD]].
  pose proof (import_enum_all_depths d b H) as HE.
  pose proof (import_names_ids_unique d b H) as HN.
  assert (HO : Forall2 (fun dm m => forall ds, In ds (dm_signals dm) -> ds_order ds = m_order m) (d_messages d) (b_messages b)).
  { pose proof (import_messages_heads d b H) as Hheads.
    pose proof H as H0. apply import_inv in H0.
    destruct H0 as [reg [es [se' [nodes [st4 [msgs [b1 [_ [_ [_ [Hm _]]]]]]]]]]].
    pose proof (import_messages_orders _ _ _ _ _ _ _ Hm) as Hord. clear Hm.
    revert Hheads Hord. generalize (b_messages b) as ms. generalize (d_messages d) as dms.
    induction dms as [|dm r IH]; intros ms Hh Ho; destruct ms as [|m mr]; cbn [map] in Hh; try discriminate; [constructor|].
    apply cons_inj in Hh. destruct Hh as [Hh1 Hhr]. inversion Ho as [|? ? Ho1 Hor]; subst.
    constructor; [|apply IH; assumption].
    intros ds Hds. rewrite (Ho1 ds Hds). unfold msg_head, dmsg_head in Hh1. congruence. }
  pose proof (Forall2_conj _ _ _ _ HA (Forall2_conj _ _ _ _ HB (Forall2_conj _ _ _ _ HC (Forall2_conj _ _ _ _ HD (Forall2_conj _ _ _ _ HE (Forall2_conj _ _ _ _ HN HO)))))) as HAll.
  eapply Forall2_imp; [|exact HAll]. clear. intros dm m [HA [HB [HC [HD [HE [HN HO]]]]]].
  unfold decode_mux_ok. cbv zeta. intros Hne Hsz id ds Hin.
  set (isigs := index_from 0 (sorted_signals dm)) in *.
  set (muxes := filter (fun p : Z * dsignal => ds_muxor (snd p)) isigs) in *.
  destruct HN as [_ [Hids _]].
  assert (Hord : ds_order ds = m_order m).
  { apply HO. assert (Hds : In ds (sorted_signals dm)) by (rewrite <- (Proofs.index_from_snd (sorted_signals dm) 0); apply in_map_iff; exists (id, ds); auto).
    unfold sorted_signals in Hds. rewrite In_sort_by in Hds. exact Hds. }
  (* the signal with the file's absolute position, its kind when it is a switch, and the faithful data otherwise *)
  assert (Hs : exists s, In s (m_signals m) /\ s_id s = id /\ s_name s = ds_name ds /\
             abs_start (length (m_signals m)) (m_signals m) s = get_start_bit ds /\
             (ds_muxor ds = true -> s_kind s = KMux /\ sel_width s = ds_size ds) /\
             (ds_muxor ds = false -> exists env, base_faithful env (dm_id dm) ds s)).
  { destruct muxes as [|[mid dmx] [|q2 qr]] eqn:Emux; [contradiction| |].
    - (* one switch *)
      assert (Hone : one_muxor dm mid dmx) by exact Emux.
      destruct (HA mid dmx Hone (Hsz mid dmx (or_introl eq_refl)) id ds Hin) as [s [S1 [S2 [S3 [S4 S5]]]]].
      exists s. refine (conj S1 (conj S2 (conj S3 (conj S4 (conj _ _))))).
      + intros Hm. apply S5. assert (Hmem : In (id, ds) [(mid, dmx)]) by (rewrite <- Emux; apply filter_In; split; assumption).
        destruct Hmem as [E|[]]. inversion E. reflexivity.
      + intros Hm. assert (Hnm : id <> mid).
        { intros ->. assert (Hmx : In (mid, dmx) isigs) by (assert (Hx : In (mid, dmx) muxes) by (rewrite Emux; left; reflexivity); apply filter_In in Hx; tauto).
          rewrite (index_from_fst_inj _ _ _ _ _ Hin Hmx) in Hm.
          assert (Hx : In (mid, dmx) muxes) by (rewrite Emux; left; reflexivity). apply filter_In in Hx. cbn [snd] in Hx. destruct Hx as [_ Hx]. congruence. }
        destruct (HC mid dmx Hone) as [_ Hall]. destruct (Hall id ds Hin Hnm) as [s' [T1 [T2 [T3 _]]]].
        assert (s' = s) by (apply (NoDup_map_inj_in s_id (m_signals m)); try assumption; congruence). subst s'. eauto.
    - (* several switches *)
      assert (Hn : (2 <= length muxes)%nat) by (rewrite Emux; cbn; lia).
      rewrite <- Emux in *.
      destruct (HB Hn Hsz id ds Hin) as [s [S1 [S2 [S3 [S4 S5]]]]].
      exists s. refine (conj S1 (conj S2 (conj S3 (conj S4 (conj S5 _))))).
      intros Hm. destruct (HD Hn) as [Hall _]. destruct (Hall id ds Hin Hm) as [s' [T1 [T2 [T3 _]]]].
      assert (s' = s) by (apply (NoDup_map_inj_in s_id (m_signals m)); try assumption; congruence). subst s'. eauto. }
  destruct Hs as [s [S1 [S2 [S3 [S4 [S5 S6]]]]]].
  exists s. refine (conj S1 (conj S2 (conj S3 _))). intros data Hst Hsz1 Hb Hd.
  assert (Hsize : match s_kind s with KMux => sel_width s | _ => sig_size (b_enums b) s end = ds_size ds).
  { destruct (ds_muxor ds) eqn:Em.
    - destruct (S5 eq_refl) as [Hk Hw]. rewrite Hk. exact Hw.
    - destruct (S6 eq_refl) as [env Hbf]. destruct (base_size _ _ _ _ Hbf) as [[Hk Hz]|Hk]; rewrite Hk.
      + unfold sig_size. rewrite Hk. exact Hz.
      + destruct (HE s S1 Hk) as [ds' [vals [E1 [_ [_ [_ E5]]]]]]. rewrite S2 in E1.
        rewrite (index_from_fst_inj _ _ _ _ _ Hin E1). exact E5. }
  rewrite Hsize, S4, <- Hord. apply import_decode_dbc; assumption.
Qed.
