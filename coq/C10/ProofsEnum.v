(* C10 — the enum table through the import: an enum entry keeps its values for ever, an entry
   referenced by a signal is frozen (size included), and the entry an enum signal refers to has
   exactly the file's size and the values its VAL_ line resolved to. *)
From Coq Require Import String Ascii ZArith List Bool Lia.
From Coq Require Import ZifyBool.
From Acme.C10 Require Import DbcDoc BusModel Import Bits Proofs.
Import ListNotations.
Open Scope Z_scope.

Definition dflt_enum : enum_def := mkenum "" [] 0 1.
Definition enum_core (e : enum_def) := (en_name e, en_values e, en_maxindex e).

Lemma nth_enum_app_l : forall es x i, 0 <= i < Z.of_nat (length es) -> nth_enum (es ++ x) i = nth_enum es i.
Proof. intros es x i H. unfold nth_enum. apply app_nth1. lia. Qed.
Lemma nth_enum_app_new : forall es e, nth_enum (es ++ [e]) (Z.of_nat (length es)) = e.
Proof. intros es e. unfold nth_enum. rewrite Nat2Z.id, app_nth2 by lia. rewrite Nat.sub_diag. reflexivity. Qed.

Lemma replace_nth_length : forall {A} n (x : A) l, length (replace_nth n x l) = length l.
Proof. intros A n x l. revert n. induction l as [|y r IH]; intros [|n]; cbn; auto. Qed.
Lemma replace_nth_same : forall {A} n (x d : A) l, (n < length l)%nat -> nth n (replace_nth n x l) d = x.
Proof. intros A n x d l. revert n. induction l as [|y r IH]; intros [|n] H; cbn in *; try lia; auto. apply IH. lia. Qed.
Lemma replace_nth_other : forall {A} n m (x d : A) l, n <> m -> nth m (replace_nth n x l) d = nth m l d.
Proof.
  intros A n m x d l. revert n m. induction l as [|y r IH]; intros [|n] [|m] H; cbn; auto; try lia.
Qed.

(* the calcSizeFromValue part of an enum's size does not depend on its minimum size *)
Lemma enum_size_ge : forall e, calc_size_from_value (en_maxindex e) <= enum_size e.
Proof. intros e. unfold enum_size. destruct (en_minsize e >? _) eqn:E; lia. Qed.

Lemma enum_for_signal_spec : forall es refs ei0 size ei es1,
  0 <= ei0 < Z.of_nat (length es) -> (forall r, In r refs -> 0 <= r < Z.of_nat (length es)) ->
  enum_for_signal es refs ei0 size = Ok (ei, es1) ->
  (length es <= length es1)%nat /\ 0 <= ei < Z.of_nat (length es1) /\
  (forall i, 0 <= i < Z.of_nat (length es) -> enum_core (nth_enum es1 i) = enum_core (nth_enum es i)) /\
  (forall r, In r refs -> nth_enum es1 r = nth_enum es r) /\
  enum_core (nth_enum es1 ei) = enum_core (nth_enum es ei0) /\
  enum_size (nth_enum es1 ei) = size /\
  (forall i, 0 <= i < Z.of_nat (length es1) -> i <> ei -> 0 <= i < Z.of_nat (length es) /\ nth_enum es1 i = nth_enum es i).
Proof.
  intros es refs ei0 size ei es1 H0 Hrefs H. unfold enum_for_signal in H. cbv zeta in H.
  remember (nth_enum es ei0) as e0 eqn:He0.
  remember (mem_z ei0 refs && negb (enum_size e0 =? size)) as shared eqn:Hshared.
  remember (if shared then Z.of_nat (length es) else ei0) as ei' eqn:Hei'.
  remember (if shared then es ++ [mkenum (en_name e0) (en_values e0) (en_maxindex e0) 1] else es) as es0 eqn:Hes0.
  remember (nth_enum es0 ei') as e eqn:He.
  remember (if enum_size e <? size
            then replace_nth (Z.to_nat ei') (mkenum (en_name e) (en_values e) (en_maxindex e) size) es0 else es0) as es1' eqn:Hes1.
  destruct (enum_size (nth_enum es1' ei') >? size) eqn:Egt; [discriminate|]. injection H as Hi Hs. subst ei es1.
  (* facts about es0 / ei' *)
  assert (Hlen0 : (length es <= length es0)%nat) by (subst es0; destruct shared; rewrite ?app_length; cbn; lia).
  assert (Hei : 0 <= ei' < Z.of_nat (length es0)).
  { subst ei' es0. destruct shared; rewrite ?app_length; cbn; lia. }
  assert (Hcore0 : enum_core e = enum_core e0).
  { subst e ei' es0. destruct shared; [rewrite nth_enum_app_new; reflexivity|subst e0; reflexivity]. }
  assert (Hold0 : forall i, 0 <= i < Z.of_nat (length es) -> nth_enum es0 i = nth_enum es i).
  { intros i Hi. subst es0. destruct shared; [apply nth_enum_app_l; assumption|reflexivity]. }
  assert (Hlen1 : length es1' = length es0) by (subst es1'; destruct (enum_size e <? size); rewrite ?replace_nth_length; reflexivity).
  assert (Hat : nth_enum es1' ei' = (if enum_size e <? size then mkenum (en_name e) (en_values e) (en_maxindex e) size else e)).
  { subst es1'. destruct (enum_size e <? size); [|subst e; reflexivity]. unfold nth_enum. apply replace_nth_same. lia. }
  assert (Hother : forall i, i <> ei' -> 0 <= i -> nth_enum es1' i = nth_enum es0 i).
  { intros i Hne Hi. subst es1'. destruct (enum_size e <? size); [|reflexivity]. unfold nth_enum. apply replace_nth_other. lia. }
  repeat split.
  - lia.
  - lia.
  - lia.
  - intros i Hi. destruct (Z.eq_dec i ei') as [->|Hne].
    + rewrite Hat. rewrite <- (Hold0 ei' Hi), <- He. destruct (enum_size e <? size); reflexivity.
    + rewrite Hother by lia. rewrite Hold0 by assumption. reflexivity.
  - intros r Hr. specialize (Hrefs r Hr). destruct (Z.eq_dec r ei') as [->|Hne].
    + (* a referenced entry is used again only when the size already matches *)
      rewrite Hat. rewrite <- (Hold0 ei' Hrefs), <- He.
      destruct (enum_size e <? size) eqn:El; [|reflexivity]. exfalso.
      destruct shared.
      * subst ei'. lia.
      * subst ei' es0. assert (Hm : mem_z ei0 refs = true).
        { unfold mem_z. apply existsb_exists. exists ei0. split; [assumption|apply Z.eqb_refl]. }
        rewrite Hm in Hshared. cbn in Hshared. symmetry in Hshared. apply negb_false_iff in Hshared.
        subst e e0. lia.
    + rewrite Hother by lia. apply Hold0. assumption.
  - rewrite Hat. destruct (enum_size e <? size); exact Hcore0.
  - rewrite Hat in Egt |- *. destruct (enum_size e <? size) eqn:El.
    + pose proof (enum_size_ge e). unfold enum_size in *. cbn [en_maxindex en_minsize] in *.
      destruct (size >? calc_size_from_value (en_maxindex e)) eqn:E2; lia.
    + lia.
  - rewrite Hlen1 in H. subst es0 ei'. destruct shared; [rewrite app_length in H; cbn in H; lia|lia].
  - rewrite Hlen1 in H. subst es0 ei'. destruct shared; [rewrite app_length in H; cbn in H; lia|lia].
  - rewrite Hother by lia. apply Hold0. rewrite Hlen1 in H. subst es0 ei'.
    destruct shared; [rewrite app_length in H; cbn in H; lia|lia].
Qed.

(* ------------------------------------------------------------------------------------------ *)
(* sorting by an integer key: output sorted, sorted input unchanged                            *)
(* ------------------------------------------------------------------------------------------ *)
Section KeySort.
  Context {A : Type} (key : A -> Z).
  Let kltb (a b : A) := key a <? key b.
  Fixpoint sorted_k (l : list A) : Prop :=
    match l with [] => True | x :: r => (forall y, In y r -> key x <= key y) /\ sorted_k r end.

  Lemma insert_sorted_k : forall x l, sorted_k l -> sorted_k (insert_sorted kltb x l).
  Proof.
    intros x l. induction l as [|y r IH]; intros Hs; cbn.
    - split; [intros y []|exact I].
    - destruct Hs as [Hy Hr]. unfold kltb at 1. destruct (key y <? key x) eqn:E; cbn.
      + split; [|apply IH; assumption]. intros z Hz. apply In_insert_sorted in Hz.
        destruct Hz as [->|Hz]; [lia|apply Hy; assumption].
      + split; [|split; assumption]. intros z [<-|Hz]; [lia|]. specialize (Hy z Hz). lia.
  Qed.
  Lemma sort_by_sorted_k : forall l, sorted_k (sort_by kltb l).
  Proof. induction l as [|x r IH]; cbn; [exact I|]. apply insert_sorted_k. assumption. Qed.
  Lemma sorted_k_sort_id : forall l, sorted_k l -> sort_by kltb l = l.
  Proof.
    induction l as [|x r IH]; intros H; [reflexivity|]. destruct H as [Hx Hr].
    cbn [sort_by fold_right]. fold (sort_by kltb r). rewrite (IH Hr).
    destruct r as [|y q]; [reflexivity|]. cbn [insert_sorted]. unfold kltb.
    specialize (Hx y (or_introl eq_refl)). replace (key y <? key x) with false by lia. reflexivity.
  Qed.
  Lemma sort_by_idem : forall l, sort_by kltb (sort_by kltb l) = sort_by kltb l.
  Proof. intros l. apply sorted_k_sort_id, sort_by_sorted_k. Qed.
End KeySort.

Definition vsort (l : list (Z * string)) := sort_by (fun a b => fst a <? fst b) l.
Lemma vsort_idem : forall l, vsort (vsort l) = vsort l.
Proof. intros l. apply (sort_by_idem (fun p : Z * string => fst p)). Qed.

(* ------------------------------------------------------------------------------------------ *)
(* value tables and VAL_ lines: what each key resolves to                                      *)
(* ------------------------------------------------------------------------------------------ *)
Lemma enum_add_values_spec : forall vs e e', enum_add_values e vs = Ok e' ->
  en_values e' = en_values e ++ vs /\ en_name e' = en_name e /\ en_minsize e' = en_minsize e.
Proof.
  induction vs as [|[idx nm] r IH]; intros e e' H; cbn in H.
  - inversion H; subst. rewrite app_nil_r. auto.
  - destruct (mem_z idx (map fst (en_values e))); [discriminate|].
    destruct (mem_str nm (map snd (en_values e))); [discriminate|].
    apply IH in H. cbn in H. destruct H as [H1 [H2 H3]]. rewrite H1, <- app_assoc. auto.
Qed.
Lemma new_enum_values : forall name vs e, new_enum name vs = Ok e -> en_values e = vs.
Proof. intros name vs e H. apply enum_add_values_spec in H. destruct H as [H _]. exact H. Qed.

Lemma same_values_eq : forall a b, same_values a b = true -> a = b.
Proof.
  induction a as [|[i n] ra IH]; destruct b as [|[j m] rb]; cbn; intros H; try discriminate; auto.
  apply andb_true_iff in H. destruct H as [H H3]. apply andb_true_iff in H. destruct H as [H1 H2].
  apply Z.eqb_eq in H1. apply String.eqb_eq in H2. subst. f_equal. auto.
Qed.

Lemma find_in_registry_spec : forall vals reg pos i, find_in_registry vals reg pos = Some i ->
  pos <= i < pos + Z.of_nat (length reg) /\
  sorted_enum_values (nth (Z.to_nat (i - pos)) reg dflt_enum) = vals.
Proof.
  intros vals reg. induction reg as [|e r IH]; intros pos i H; cbn in H; [discriminate|].
  destruct (_ && _) eqn:E.
  - inversion H; subst. split; [cbn [length]; lia|]. replace (i - i) with 0 by lia. cbn.
    apply andb_true_iff in E. destruct E as [_ E]. apply same_values_eq. assumption.
  - apply IH in H. destruct H as [H1 H2]. split; [cbn [length]; lia|].
    replace (Z.to_nat (i - pos)) with (S (Z.to_nat (i - (pos + 1)))) by lia. cbn. exact H2.
Qed.

Fixpoint last_valenc (ves : list dvalenc) (k : key) : option (list (Z * string)) :=
  match ves with
  | [] => None
  | ve :: r => match last_valenc r k with
               | Some v => Some v
               | None => if ve_signal ve && key_eqb k (ve_msg ve, ve_sig ve) then Some (vsort (ve_values ve)) else None
               end
  end.

Definition extends (es es' : list enum_def) : Prop :=
  (length es <= length es')%nat /\ forall i, 0 <= i < Z.of_nat (length es) -> nth_enum es' i = nth_enum es i.
Lemma extends_refl : forall es, extends es es.
Proof. intros es. split; [lia|auto]. Qed.
Lemma extends_trans : forall a b c, extends a b -> extends b c -> extends a c.
Proof. intros a b c [H1 H2] [H3 H4]. split; [lia|]. intros i Hi. rewrite H4 by lia. apply H2. assumption. Qed.

Lemma key_eqb_eq : forall a b, key_eqb a b = true <-> a = b.
Proof.
  intros [a1 a2] [b1 b2]. unfold key_eqb. cbn. rewrite andb_true_iff, Z.eqb_eq, String.eqb_eq.
  split; [intros [-> ->]; reflexivity|intros H; inversion H; auto].
Qed.

Lemma nth_firstn : forall {A} n (l : list A) j d, (j < n)%nat -> nth j (firstn n l) d = nth j l d.
Proof.
  intros A n. induction n as [|n IH]; intros l j d H; [lia|].
  destruct l as [|x r]; [destruct j; reflexivity|]. destruct j as [|j]; cbn; [reflexivity|]. apply IH. lia.
Qed.

Lemma valenc_step : forall nreg es se ve es1 se1,
  import_value_encoding nreg (es, se) ve = Ok (es1, se1) ->
  extends es es1 /\
  (if ve_signal ve
   then exists i, se1 = ((ve_msg ve, ve_sig ve), i) :: se /\ 0 <= i < Z.of_nat (length es1) /\
                  sorted_enum_values (nth_enum es1 i) = vsort (ve_values ve)
   else se1 = se).
Proof.
  intros nreg es se ve es1 se1 H. unfold import_value_encoding in H.
  destruct (ve_signal ve); cbn [negb] in H; [|injection H as H1 H2; subst es1 se1; split; [apply extends_refl|reflexivity]].
  fold (vsort (ve_values ve)) in H.
  destruct (find_in_registry (vsort (ve_values ve)) (firstn nreg es) 0) as [i|] eqn:E.
  - injection H as H1 H2. subst es1 se1. split; [apply extends_refl|]. exists i. split; [reflexivity|].
    apply find_in_registry_spec in E. destruct E as [E1 E2]. rewrite Z.sub_0_r in E2.
    rewrite firstn_length in E1.
    split; [lia|]. unfold nth_enum. rewrite <- E2. f_equal.
    rewrite nth_firstn; [reflexivity|]. lia.
  - apply bind_ok in H. destruct H as [e [He H]]. injection H as H1 H2. subst es1 se1.
    split.
    + split; [rewrite app_length; lia|]. intros i Hi. apply nth_enum_app_l. assumption.
    + exists (Z.of_nat (length es)). split; [reflexivity|]. split; [rewrite app_length; cbn; lia|].
      rewrite nth_enum_app_new. unfold sorted_enum_values. rewrite (new_enum_values _ _ _ He).
      apply vsort_idem.
Qed.

Lemma valenc_fold_resolved : forall nreg ves es se es' se',
  fold_left (fun acc ve => do a <- acc; import_value_encoding nreg a ve) ves (Ok (es, se)) = Ok (es', se') ->
  extends es es' /\
  forall k ei, lookup key_eqb k se' = Some ei ->
    match last_valenc ves k with
    | Some v => 0 <= ei < Z.of_nat (length es') /\ sorted_enum_values (nth_enum es' ei) = v
    | None => lookup key_eqb k se = Some ei
    end.
Proof.
  intros nreg ves. induction ves as [|ve r IH]; intros es se es' se' H; cbn [fold_left] in H.
  - inversion H; subst. split; [apply extends_refl|]. intros k ei Hl. exact Hl.
  - cbn [bind] in H.
    destruct (import_value_encoding nreg (es, se) ve) as [[es1 se1]|w] eqn:E.
    2:{ rewrite fold_result_err in H by reflexivity. discriminate. }
    apply valenc_step in E. destruct E as [Hx Hs].
    destruct (IH _ _ _ _ H) as [Hx' Hr]. split; [eapply extends_trans; eauto|].
    intros k ei Hl. specialize (Hr k ei Hl). cbn [last_valenc].
    destruct (last_valenc r k) as [v|]; [exact Hr|].
    destruct (ve_signal ve) eqn:Es.
    + destruct Hs as [i [Hse [Hi Hv]]]. subst se1. cbn [lookup] in Hr.
      destruct (key_eqb k (ve_msg ve, ve_sig ve)) eqn:Ek; cbn [andb].
      * inversion Hr; subst i. destruct Hx' as [Hl1 Hl2]. split; [lia|]. rewrite Hl2 by lia. exact Hv.
      * exact Hr.
    + subst se1. cbn [andb]. exact Hr.
Qed.

(* ------------------------------------------------------------------------------------------ *)
(* evolution of the importer state                                                             *)
(* ------------------------------------------------------------------------------------------ *)
Definition refs_valid (st : istate) : Prop :=
  forall r, In r (is_enum_refs st) -> 0 <= r < Z.of_nat (length (is_enums st)).
Definition env_valid (env : ienv) (n : nat) : Prop :=
  forall k i, lookup key_eqb k (ie_sig_enums env) = Some i -> 0 <= i < Z.of_nat n.
Definition st_le (st st' : istate) : Prop :=
  (length (is_enums st) <= length (is_enums st'))%nat /\
  (forall i, 0 <= i < Z.of_nat (length (is_enums st)) ->
     enum_core (nth_enum (is_enums st') i) = enum_core (nth_enum (is_enums st) i)) /\
  (forall r, In r (is_enum_refs st) -> nth_enum (is_enums st') r = nth_enum (is_enums st) r) /\
  incl (is_enum_refs st) (is_enum_refs st').
(* what the folds carry: reachable from st0, still consistent *)
Definition evolved (st0 st : istate) : Prop := st_le st0 st /\ refs_valid st.

Lemma st_le_refl : forall st, st_le st st.
Proof. intros st. repeat split; auto. apply incl_refl. Qed.
Lemma st_le_trans : forall a b c, refs_valid a -> st_le a b -> st_le b c -> st_le a c.
Proof.
  intros a b c Hv [A1 [A2 [A3 A4]]] [B1 [B2 [B3 B4]]]. repeat split.
  - lia.
  - intros i Hi. rewrite B2 by lia. apply A2. assumption.
  - intros r Hr. rewrite B3 by (apply A4; assumption). apply A3. assumption.
  - eapply incl_tran; eauto.
Qed.
Lemma evolved_trans : forall a b c, refs_valid a -> evolved a b -> evolved b c -> evolved a c.
Proof. intros a b c Hv [H1 H2] [H3 H4]. split; [eapply st_le_trans; eauto|assumption]. Qed.

Lemma st_le_sigmap : forall st sm, st_le st (set_sigmap st sm).
Proof. intros st sm. unfold st_le. cbn [is_enums is_enum_refs set_sigmap]. repeat split; auto. apply incl_refl. Qed.

(* what an enum signal gets *)
Definition enum_facts (env : ienv) (st st' : istate) (msgid : Z) (ds : dsignal) (s : signal) : Prop :=
  forall ei0, lookup key_eqb (msgid, ds_name ds) (ie_sig_enums env) = Some ei0 ->
    0 <= s_enum s < Z.of_nat (length (is_enums st')) /\ In (s_enum s) (is_enum_refs st') /\
    enum_core (nth_enum (is_enums st') (s_enum s)) = enum_core (nth_enum (is_enums st) ei0) /\
    enum_size (nth_enum (is_enums st') (s_enum s)) = ds_size ds.

Lemma import_signal_evolves : forall env st mpos msgid id ds s st',
  env_valid env (length (is_enums st)) -> refs_valid st ->
  import_signal env st mpos msgid id ds = Ok (s, st') ->
  evolved st st' /\ enum_facts env st st' msgid ds s.
Proof.
  intros env st mpos msgid id ds s st' Hev Hrv H. unfold import_signal in H.
  apply bind_ok in H. destruct H as [[s0 st0] [H0 H]].
  assert (Hs : s_enum s = s_enum s0 /\ st' = set_sigmap st0 (((msgid, ds_name ds), (mpos, id)) :: is_sigmap st0)).
  { inversion H. split; [|reflexivity]. destruct (lookup key_eqb (msgid, ds_name ds) (ie_sig_desc env)); reflexivity. }
  destruct Hs as [Hse Hst']. subst st'. unfold enum_facts. rewrite Hse. clear H Hse.
  destruct (lookup key_eqb (msgid, ds_name ds) (ie_sig_enums env)) as [ei0|] eqn:Ee.
  - apply bind_ok in H0. destruct H0 as [[ei es1] [He H0]]. inversion H0; subst s0 st0. clear H0.
    apply enum_for_signal_spec in He; [|eapply Hev; eauto|exact Hrv].
    destruct He as [E1 [E2 [E3 [E4 [E5 [E6 E7]]]]]].
    cbn [is_enums is_enum_refs set_sigmap add_enum_ref set_enums s_enum].
    split; [split|].
    + repeat split; cbn [is_enums is_enum_refs set_sigmap add_enum_ref set_enums]; auto.
      intros r Hr. right. assumption.
    + intros r [Hr|Hr]; cbn [is_enums is_enum_refs set_sigmap add_enum_ref set_enums] in *; [subst; lia|].
      specialize (Hrv r Hr). lia.
    + intros x Hx. inversion Hx; subst x. repeat split; auto; try lia. left. reflexivity.
  - apply bind_ok in H0. destruct H0 as [s1 [_ H0]]. inversion H0; subst s0 st0.
    split; [split; [apply st_le_sigmap|exact Hrv]|]. intros x Hx. discriminate.
Qed.

Lemma import_mux_signal_state : forall env st mpos msgid msize id dm muxed t st',
  import_mux_signal env st mpos msgid msize id dm muxed = Ok (t, st') ->
  is_enums st' = is_enums st /\ is_enum_refs st' = is_enum_refs st.
Proof.
  intros env st mpos msgid msize id dm muxed t st' H. unfold import_mux_signal in H.
  repeat match type of H with (if ?c then _ else _) = _ => destruct c; [discriminate|] end.
  apply bind_ok in H. destruct H as [kb [_ H]]. inversion H; subst. auto.
Qed.

Lemma evolved_same_enums : forall st0 st st', evolved st0 st ->
  is_enums st' = is_enums st -> is_enum_refs st' = is_enum_refs st -> evolved st0 st'.
Proof.
  intros st0 st st' [[A1 [A2 [A3 A4]]] Hv] He Hr. unfold evolved, st_le, refs_valid. rewrite He, Hr. auto.
Qed.

Lemma env_valid_mono : forall env n m, (n <= m)%nat -> env_valid env n -> env_valid env m.
Proof. intros env n m H Hv k i Hl. specialize (Hv k i Hl). lia. Qed.

Lemma import_message_signals_evolves : forall env st mpos dm st' sigs,
  env_valid env (length (is_enums st)) -> refs_valid st ->
  import_message_signals env st mpos dm = Ok (st', sigs) -> evolved st st'.
Proof.
  intros env st mpos dm st' sigs Hev Hrv H.
  assert (Hbase : evolved st st) by (split; [apply st_le_refl|assumption]).
  assert (Hsig : forall st1 id ds s st2, evolved st st1 -> import_signal env st1 mpos (dm_id dm) id ds = Ok (s, st2) -> evolved st st2).
  { intros st1 id ds s st2 [Hl Hv] Hi. apply import_signal_evolves in Hi; [|eapply env_valid_mono; [apply Hl|exact Hev]|exact Hv].
    destruct Hi as [Hi _]. apply (evolved_trans st st1 st2 Hrv); [split; assumption|exact Hi]. }
  assert (Hmux : forall st1 id dmx muxed t st2, evolved st st1 ->
             import_mux_signal env st1 mpos (dm_id dm) (dm_size dm) id dmx muxed = Ok (t, st2) -> evolved st st2).
  { intros st1 id dmx muxed t st2 He Hi. apply import_mux_signal_state in Hi. destruct Hi. eapply evolved_same_enums; eauto. }
  unfold import_message_signals in H. cbv zeta in H.
  destruct (filter (fun p : Z * dsignal => ds_muxor (snd p)) _) as [|[mid dmx] [|m2 mr]] eqn:Emux.
  - (* no multiplexor *)
    destruct (existsb _ _); [discriminate|].
    revert H. apply (fold_result_inv _ (fun a => evolved st (fst a))); [intros [i x] w; reflexivity| |exact Hbase].
    intros [st0 sg] [id ds] [st2 sg2] Pa Hx. cbn [bind fst] in *.
    destruct (import_signal env st0 mpos (dm_id dm) id ds) as [[s st1]|w] eqn:E; cbn [bind] in Hx; [|discriminate].
    apply bind_ok in Hx. destruct Hx as [sg' [_ Hx]]. inversion Hx; subst. eapply Hsig; eauto.
  - (* one multiplexor *)
    destruct (ds_muxed dmx); [discriminate|].
    apply bind_ok in H. destruct H as [[[[st1 muxed] stds] last] [H1 H]].
    assert (E1 : evolved st st1).
    { revert H1. apply (fold_result_inv _ (fun a => evolved st (fst (fst (fst a))))); [intros [i x] w; reflexivity| |exact Hbase].
      intros [[[st0 mu] sd] la] [id ds] a' Pa Hx. cbn [bind fst] in *.
      destruct (id =? mid); [inversion Hx; subst; exact Pa|].
      destruct (import_signal env st0 mpos (dm_id dm) id ds) as [[s st2]|w] eqn:E; cbn [bind] in Hx; [|discriminate].
      destruct (ds_muxed ds); inversion Hx; subst; cbn [fst]; eapply Hsig; eauto. }
    apply bind_ok in H. destruct H as [[[st2 sg] muxed2] [H2 H]].
    assert (E2 : evolved st st2).
    { revert H2. apply (fold_result_inv _ (fun a => evolved st (fst (fst a)))); [intros [i x] w; reflexivity| |exact E1].
      intros [[st0 sg0] mu] [t ds] a' Pa Hx. cbn [bind fst] in *.
      destruct (_ && _); [inversion Hx; subst; exact Pa|].
      apply bind_ok in Hx. destruct Hx as [[st3 sg3] [Hy Hx]]. inversion Hx; subst. cbn [fst].
      apply bind_ok in Hy. destruct Hy as [sg' [_ Hy]]. inversion Hy; subst. exact Pa. }
    apply bind_ok in H. destruct H as [[mt st3] [H3 H]].
    apply bind_ok in H. destruct H as [sg' [_ H]]. inversion H; subst. eapply Hmux; eauto.
  - (* several multiplexors *)
    apply bind_ok in H. destruct H as [[[st1 sg1] groups1] [H1 H]].
    assert (E1 : evolved st st1).
    { revert H1. apply (fold_result_inv _ (fun a => evolved st (fst (fst a)))); [intros [i x] w; reflexivity| |exact Hbase].
      intros [[st0 sg0] gr] [id ds] a' Pa Hx. cbn [bind fst snd] in *.
      destruct (ds_muxor ds); [inversion Hx; subst; exact Pa|].
      destruct (import_signal env st0 mpos (dm_id dm) id ds) as [[s st2]|w] eqn:E; cbn [bind] in Hx; [|discriminate].
      destruct (ds_muxed ds).
      - destruct (lookup key_eqb _ (ie_ext_muxes env)); [|discriminate].
        destruct (lookup String.eqb _ _); [|discriminate]. inversion Hx; subst. cbn [fst]. eapply Hsig; eauto.
      - apply bind_ok in Hx. destruct Hx as [[st3 sg3] [Hy Hx]]. inversion Hx; subst. cbn [fst].
        apply bind_ok in Hy. destruct Hy as [sg' [_ Hy]]. inversion Hy; subst. eapply Hsig; eauto. }
    apply bind_ok in H. destruct H as [[[st2 sg2] groups2] [H2 H]]. inversion H; subst. clear H.
    revert H2. apply (fold_result_inv _ (fun a => evolved st (fst (fst a)))); [intros x w; reflexivity| |exact E1].
    intros [[st0 sg0] gr] j a' Pa Hx. cbn [bind fst snd] in *.
    destruct (nth j _ _) as [mid' dmx'].
    destruct (import_mux_signal env st0 mpos (dm_id dm) (dm_size dm) mid' dmx' (nth j gr [])) as [[mt st3]|w] eqn:E; cbn [bind] in Hx; [|discriminate].
    destruct (lookup key_eqb _ (ie_ext_muxes env)).
    + destruct (lookup String.eqb _ _); [|discriminate]. destruct (Nat.leb j n); [discriminate|].
      inversion Hx; subst. cbn [fst]. eapply Hmux; eauto.
    + destruct (ds_muxed dmx'); [discriminate|].
      apply bind_ok in Hx. destruct Hx as [[st4 sg4] [Hy Hx]]. inversion Hx; subst. cbn [fst].
      apply bind_ok in Hy. destruct Hy as [sg' [_ Hy]]. inversion Hy; subst. eapply Hmux; eauto.
Qed.
