(* C10 — enum signals at EVERY multiplexing depth, in every message (no switch / one switch / several
   switches): an imported enum signal is a signal of the file that has a VAL_ line; the enum it refers to
   in the FINAL table holds exactly that line's values (sorted by index) and gives the signal the file's
   size.  Generalises ProofsFaithful (messages without switch). *)
From Coq Require Import String Ascii ZArith List Bool Lia.
From Coq Require Import ZifyBool.
From Acme.C10 Require Import DbcDoc BusModel Import Bits Proofs ProofsEnum ProofsLayout ProofsFaithful ProofsMux ProofsIds.
Import ListNotations.
Open Scope Z_scope.

Section OneMessage.
  Variables (env : ienv) (es0 : list enum_def) (msgid : Z) (isigs : list (Z * dsignal)).

  Definition EP (st : istate) (s : signal) : Prop :=
    s_kind s = KEnum ->
    exists ds ei0, In (s_id s, ds) isigs /\ s_name s = ds_name ds /\
      lookup key_eqb (msgid, ds_name ds) (ie_sig_enums env) = Some ei0 /\
      In (s_enum s) (is_enum_refs st) /\
      enum_core (nth_enum (is_enums st) (s_enum s)) = enum_core (nth_enum es0 ei0) /\
      enum_size (nth_enum (is_enums st) (s_enum s)) = ds_size ds.
  Definition tree_EP (st : istate) (t : subtree) : Prop := EP st (fst t) /\ forall d, In d (snd t) -> EP st d.
  Definition all_EP (st : istate) (sigs : list signal) : Prop := forall x, In x sigs -> EP st x.
  Definition pendE (st : istate) (l : list (subtree * dsignal)) : Prop := Forall (fun p => tree_EP st (fst p)) l.

  Lemma EP_mono : forall st st' s, st_le st st' -> EP st s -> EP st' s.
  Proof.
    intros st st' s [_ [_ [L3 L4]]] H Hk. destruct (H Hk) as [ds [ei0 [H1 [H2 [H3 [H4 [H5 H6]]]]]]].
    exists ds, ei0. rewrite (L3 _ H4). auto 10.
  Qed.
  Lemma tree_EP_mono : forall st st' t, st_le st st' -> tree_EP st t -> tree_EP st' t.
  Proof. intros st st' t Hle [H1 H2]. split; [eapply EP_mono; eauto|intros d Hd; eapply EP_mono; eauto]. Qed.
  Lemma all_EP_mono : forall st st' l, st_le st st' -> all_EP st l -> all_EP st' l.
  Proof. intros st st' l Hle H x Hx. eapply EP_mono; eauto. Qed.
  Lemma pendE_mono : forall st st' l, st_le st st' -> pendE st l -> pendE st' l.
  Proof. intros st st' l Hle H. eapply Forall_impl; [|exact H]. intros p Hp. eapply tree_EP_mono; eauto. Qed.
  Lemma pendE_snoc : forall st l p, pendE st l -> tree_EP st (fst p) -> pendE st (l ++ [p]).
  Proof. intros st l p H Hp. apply Forall_app. split; [assumption|constructor; [assumption|constructor]]. Qed.
  Lemma app_nth_pendE : forall st n p groups, Forall (pendE st) groups -> tree_EP st (fst p) -> Forall (pendE st) (app_nth n p groups).
  Proof.
    intros st n p groups Hg Hp. unfold app_nth. apply replace_nth_Forall; [assumption|].
    apply pendE_snoc; [|assumption]. apply nth_Forall_default; [assumption|constructor].
  Qed.

  Lemma msg_insert_EP : forall st msize sigs t start sigs',
    all_EP st sigs -> tree_EP st t -> msg_insert (is_enums st) msize sigs t start = Ok sigs' -> all_EP st sigs'.
  Proof.
    intros st msize sigs [s below] start sigs' Ha [T1 T2] H. apply msg_insert_form in H. subst sigs'. cbn [fst snd] in *.
    intros x Hx. apply in_app_or in Hx. destruct Hx as [Hx|Hx]; [apply Ha; assumption|].
    cbn [app] in Hx. destruct Hx as [<-|Hx]; [exact T1|apply T2; assumption].
  Qed.

  Lemma import_signal_EP : forall st mpos id ds s st',
    env_valid env (length es0) -> core_ext es0 st -> refs_valid st -> In (id, ds) isigs ->
    import_signal env st mpos msgid id ds = Ok (s, st') -> tree_EP st' (s, []).
  Proof.
    intros st mpos id ds s st' Hev Hc Hrv Hin H.
    assert (Hev1 : env_valid env (length (is_enums st))) by (apply (env_valid_mono env (length es0)); [apply Hc|exact Hev]).
    destruct (import_signal_evolves _ _ _ _ _ _ _ _ Hev1 Hrv H) as [_ Hf].
    destruct (import_signal_spec _ _ _ _ _ _ _ _ H) as [Hid [Hn [_ [_ [_ [_ Hk]]]]]]. cbn [s_name s_kind place] in Hn, Hk.
    split; [|intros d []]. cbn [fst]. intros Hkind.
    destruct (lookup key_eqb (msgid, ds_name ds) (ie_sig_enums env)) as [ei0|] eqn:E.
    - destruct (Hf ei0 E) as [_ [F2 [F3 F4]]]. exists ds, ei0. rewrite Hid. split; [assumption|]. split; [assumption|].
      split; [assumption|]. split; [assumption|]. split; [|assumption]. rewrite F3. apply Hc. apply (Hev _ _ E).
    - destruct Hk as [Hk _]. congruence.
  Qed.

  Lemma mux_children_EP : forall es mx mstart msize st muxed kids belows,
    pendE st muxed -> mux_children env es msgid mx mstart msize muxed = Ok (kids, belows) ->
    forall d, In d (kids ++ belows) -> EP st d.
  Proof.
    intros es mx mstart msize st muxed kids belows Hall H. unfold mux_children in H.
    assert (Hgen : forall l k0 b0 k1 b1, pendE st l -> (forall d, In d (k0 ++ b0) -> EP st d) ->
              fold_left (fun acc (p : subtree * dsignal) =>
                 do (kids, belows) <- acc;
                 let rel := get_start_bit (snd p) - mstart - msize in
                 do gids <- child_groups env msgid (s_gcount mx) (fst (fst p)) (snd p);
                 do c <- mux_insert es mx kids (fst (fst p)) rel gids;
                 Ok (kids ++ [c], belows ++ snd (fst p))) l (Ok (k0, b0)) = Ok (k1, b1) ->
              forall d, In d (k1 ++ b1) -> EP st d).
    { induction l as [|[[s below] ds] r IH]; intros k0 b0 k1 b1 Hf H0 Hfold; cbn [fold_left] in Hfold.
      - inversion Hfold; subst. exact H0.
      - cbn [bind fst snd] in Hfold. inversion Hf as [|? ? Hp Hr]; subst.
        destruct (child_groups env msgid (s_gcount mx) s ds) as [g|w]; cbn [bind] in Hfold.
        2:{ rewrite fold_result_err in Hfold; [discriminate|intros x w'; reflexivity]. }
        destruct (mux_insert es mx k0 s (get_start_bit ds - mstart - msize) g) as [c|w] eqn:Ec; cbn [bind] in Hfold.
        2:{ rewrite fold_result_err in Hfold; [discriminate|intros x w'; reflexivity]. }
        eapply IH; [exact Hr| |exact Hfold].
        apply mux_insert_form in Ec. destruct Ec as [g' ->]. destruct Hp as [P1 P2]. cbn [fst snd] in *.
        intros d Hd. apply in_app_or in Hd. destruct Hd as [Hd|Hd].
        + apply in_app_or in Hd. destruct Hd as [Hd|[<-|[]]]; [apply H0; apply in_or_app; left; assumption|exact P1].
        + apply in_app_or in Hd. destruct Hd as [Hd|Hd]; [apply H0; apply in_or_app; right; assumption|apply P2; assumption]. }
    eapply Hgen; [exact Hall| |exact H]. intros d [].
  Qed.

  Lemma import_mux_signal_EP : forall st mpos msize id dm muxed t st',
    pendE st muxed -> import_mux_signal env st mpos msgid msize id dm muxed = Ok (t, st') -> tree_EP st' t.
  Proof.
    intros st mpos msize id dm muxed t st' Hall H.
    pose proof (import_mux_signal_state _ _ _ _ _ _ _ _ _ _ H) as [He Hr].
    unfold import_mux_signal in H.
    repeat match type of H with (if ?c then _ else _) = _ => destruct c; [discriminate|] end.
    apply bind_ok in H. destruct H as [[kids belows] [Hk H]]. inversion H; subst t st'. clear H.
    split; cbn [fst snd].
    - intros Hkind. destruct (lookup key_eqb (msgid, ds_name dm) (ie_sig_desc env)); cbn in Hkind; discriminate.
    - intros d Hd. pose proof (mux_children_EP _ _ _ _ st _ _ _ Hall Hk d Hd) as Hd'. exact Hd'.
  Qed.
End OneMessage.

Lemma import_message_signals_EP : forall env es0 st mpos dm st' sigs,
  env_valid env (length es0) -> core_ext es0 st -> refs_valid st ->
  import_message_signals env st mpos dm = Ok (st', sigs) ->
  all_EP env es0 (dm_id dm) (index_from 0 (sorted_signals dm)) st' sigs.
Proof.
  intros env es0 st mpos dm st' sigs Hev Hc Hrv H.
  set (isigs := index_from 0 (sorted_signals dm)).
  set (AE := all_EP env es0 (dm_id dm) isigs). set (PE := pendE env es0 (dm_id dm) isigs). set (TE := tree_EP env es0 (dm_id dm) isigs).
  assert (Hev0 : env_valid env (length (is_enums st))) by (apply (env_valid_mono env (length es0)); [apply Hc|exact Hev]).
  assert (Hbase : evolved st st) by (split; [apply st_le_refl|assumption]).
  assert (Hempty : forall s, AE s []) by (intros s x []).
  assert (Hsig : forall st1 id ds s st2, evolved st st1 -> In (id, ds) isigs -> import_signal env st1 mpos (dm_id dm) id ds = Ok (s, st2) ->
             evolved st st2 /\ st_le st1 st2 /\ TE st2 (s, [])).
  { intros st1 id ds s st2 [Hl Hv] Hin Hi.
    assert (Hev1 : env_valid env (length (is_enums st1))) by (eapply env_valid_mono; [apply Hl|exact Hev0]).
    pose proof (import_signal_EP env es0 (dm_id dm) isigs _ _ _ _ _ _ Hev (core_ext_mono _ _ _ Hl Hc) Hv Hin Hi) as Hsub.
    apply import_signal_evolves in Hi; [|exact Hev1|exact Hv]. destruct Hi as [Hi _].
    split; [apply (evolved_trans st st1 st2 Hrv); [split; assumption|exact Hi]|]. split; [apply Hi|exact Hsub]. }
  assert (Hmux : forall st1 id dmx muxed t st2, evolved st st1 -> PE st1 muxed ->
             import_mux_signal env st1 mpos (dm_id dm) (dm_size dm) id dmx muxed = Ok (t, st2) ->
             evolved st st2 /\ st_le st1 st2 /\ TE st2 t).
  { intros st1 id dmx muxed t st2 He Hp Hi.
    pose proof (import_mux_signal_EP env es0 (dm_id dm) isigs _ _ _ _ _ _ _ _ Hp Hi) as Hsub.
    apply import_mux_signal_state in Hi. destruct Hi as [E1 E2].
    split; [eapply evolved_same_enums; eauto|]. split; [apply st_le_same; assumption|exact Hsub]. }
  assert (Htop : forall st1 sg t start sg', AE st1 sg -> TE st1 t ->
             msg_insert (is_enums st1) (dm_size dm) sg t start = Ok sg' -> AE st1 sg').
  { intros. eapply msg_insert_EP; eauto. }
  unfold import_message_signals in H. cbv zeta in H. fold (sorted_signals dm) in H. fold isigs in H.
  destruct (filter (fun p : Z * dsignal => ds_muxor (snd p)) isigs) as [|[mid dmx] [|m2 mr]] eqn:Emux.
  - destruct (existsb _ _); [discriminate|].
    assert (Pf : evolved st (fst (st', sigs)) /\ AE (fst (st', sigs)) (snd (st', sigs))); [|apply Pf].
    revert H. apply (fold_result_inv_in _ (fun a => evolved st (fst a) /\ AE (fst a) (snd a)));
      [intros [i x] w; reflexivity| |split; [exact Hbase|apply Hempty]].
    intros [st0 sg] [id ds] [st2 sg2] Hin [Pa Pl] Hx. cbn [bind fst snd] in *.
    destruct (import_signal env st0 mpos (dm_id dm) id ds) as [[s st1]|w] eqn:E; cbn [bind] in Hx; [|discriminate].
    apply bind_ok in Hx. destruct Hx as [sg' [Hins Hx]]. inversion Hx; subst.
    destruct (Hsig _ _ _ _ _ Pa Hin E) as [S1 [S2 S3]]. split; [exact S1|].
    eapply Htop; [eapply all_EP_mono; eauto|exact S3|exact Hins].
  - destruct (ds_muxed dmx); [discriminate|].
    apply bind_ok in H. destruct H as [[[[st1 muxed] stds] last] [H1 H]].
    assert (P1 : evolved st st1 /\ PE st1 muxed /\ PE st1 stds).
    { assert (Pf : evolved st (fst (fst (fst (st1, muxed, stds, last)))) /\ PE (fst (fst (fst (st1, muxed, stds, last)))) (snd (fst (fst (st1, muxed, stds, last))))
                   /\ PE (fst (fst (fst (st1, muxed, stds, last)))) (snd (fst (st1, muxed, stds, last)))); [|exact Pf].
      revert H1. apply (fold_result_inv_in _ (fun a => evolved st (fst (fst (fst a))) /\ PE (fst (fst (fst a))) (snd (fst (fst a)))
                                                     /\ PE (fst (fst (fst a))) (snd (fst a))));
        [intros [i x] w; reflexivity| |cbn [fst snd]; split; [exact Hbase|split; constructor]].
      intros [[[st0 mu] sd] la] [id ds] a' Hin [Pa [Pm Ps]] Hx. cbn [bind fst snd] in *.
      destruct (id =? mid); [inversion Hx; subst; cbn [fst snd]; auto|].
      destruct (import_signal env st0 mpos (dm_id dm) id ds) as [[s st2]|w] eqn:E; cbn [bind] in Hx; [|discriminate].
      destruct (Hsig _ _ _ _ _ Pa Hin E) as [S1 [S2 S3]].
      destruct (ds_muxed ds); inversion Hx; subst; cbn [fst snd]; (split; [exact S1|]); split.
      + apply pendE_snoc; [eapply pendE_mono; eauto|exact S3].
      + eapply pendE_mono; eauto.
      + eapply pendE_mono; eauto.
      + apply pendE_snoc; [eapply pendE_mono; eauto|exact S3]. }
    destruct P1 as [E1 [Pm Ps]].
    apply bind_ok in H. destruct H as [[[st2 sg] muxed2] [H2 H]].
    assert (P2 : st2 = st1 /\ AE st1 sg /\ PE st1 muxed2).
    { revert H2. revert Ps. generalize stds. intros l Ps.
      assert (G : forall l sg0 mu0 r, PE st1 l -> AE st1 sg0 -> PE st1 mu0 ->
                fold_left (fun acc (p : subtree * dsignal) => let '(t, ds) := p in
                    do (ms, muxed2) <- acc;
                    (let sp := get_start_bit ds in
                     if (sp >? get_start_bit dmx) && (sp <? last) then Ok (ms, muxed2 ++ [(t, ds)])
                     else do ms' <- (let '(st0, sigs0) := ms in
                                     do sigs' <- msg_insert (is_enums st0) (dm_size dm) sigs0 t sp; Ok (st0, sigs'));
                          Ok (ms', muxed2))) l (Ok ((st1, sg0), mu0)) = Ok r ->
                fst (fst r) = st1 /\ AE st1 (snd (fst r)) /\ PE st1 (snd r)).
      { induction l0 as [|[t ds] q IH]; intros sg0 mu0 r Hl Hlay Hmu Hf; cbn [fold_left] in Hf.
        - inversion Hf; subst. cbn. auto.
        - inversion Hl as [|? ? Ht Hq]; subst. cbn [bind] in Hf.
          destruct ((get_start_bit ds >? get_start_bit dmx) && (get_start_bit ds <? last)).
          + eapply IH; [exact Hq|exact Hlay| |exact Hf]. apply pendE_snoc; assumption.
          + destruct (msg_insert (is_enums st1) (dm_size dm) sg0 t (get_start_bit ds)) as [sg'|w] eqn:Ei; cbn [bind] in Hf.
            * eapply IH; [exact Hq| |exact Hmu|exact Hf]. eapply Htop; eauto.
            * rewrite fold_result_err in Hf; [discriminate|intros [x y] w'; reflexivity]. }
      intros Hf. specialize (G l [] muxed _ Ps (Hempty st1) Pm Hf). cbn [fst snd] in G. exact G. }
    destruct P2 as [-> [Play Pm2]].
    apply bind_ok in H. destruct H as [[mt st3] [H3 H]].
    apply bind_ok in H. destruct H as [sg' [Hins H]]. inversion H; subst.
    destruct (Hmux _ _ _ _ _ _ E1 Pm2 H3) as [S1 [S2 S3]].
    eapply Htop; [eapply all_EP_mono; eauto|exact S3|exact Hins].
  - apply bind_ok in H. destruct H as [[[st1 sg1] groups1] [H1 H]].
    assert (P1 : evolved st st1 /\ AE st1 sg1 /\ Forall (PE st1) groups1).
    { assert (Pf : evolved st (fst (fst (st1, sg1, groups1))) /\ AE (fst (fst (st1, sg1, groups1))) (snd (fst (st1, sg1, groups1)))
                   /\ Forall (PE (fst (fst (st1, sg1, groups1)))) (snd (st1, sg1, groups1))); [|exact Pf].
      revert H1. apply (fold_result_inv_in _ (fun a => evolved st (fst (fst a)) /\ AE (fst (fst a)) (snd (fst a))
                                                     /\ Forall (PE (fst (fst a))) (snd a)));
        [intros [i x] w; reflexivity| |].
      2:{ cbn [fst snd]. split; [exact Hbase|]. split; [apply Hempty|].
          apply Forall_forall. intros x Hx. apply repeat_spec in Hx. subst. constructor. }
      intros [[st0 sg0] gr] [id ds] a' Hin [Pa [Pl Pg]] Hx. cbn [bind fst snd] in *.
      destruct (ds_muxor ds); [inversion Hx; subst; cbn [fst snd]; auto|].
      destruct (import_signal env st0 mpos (dm_id dm) id ds) as [[s st2]|w] eqn:E; cbn [bind] in Hx; [|discriminate].
      destruct (Hsig _ _ _ _ _ Pa Hin E) as [S1 [S2 S3]].
      assert (Pg' : Forall (PE st2) gr) by (eapply Forall_impl; [|exact Pg]; intros l Hl; eapply pendE_mono; eauto).
      destruct (ds_muxed ds).
      - destruct (lookup key_eqb _ (ie_ext_muxes env)); [|discriminate].
        destruct (lookup String.eqb _ _); [|discriminate]. inversion Hx; subst. cbn [fst snd].
        split; [exact S1|]. split; [eapply all_EP_mono; eauto|]. apply app_nth_pendE; assumption.
      - apply bind_ok in Hx. destruct Hx as [[st3 sg3] [Hy Hx]]. inversion Hx; subst. cbn [fst snd].
        apply bind_ok in Hy. destruct Hy as [sg' [Hins Hy]]. inversion Hy; subst.
        split; [exact S1|]. split; [|exact Pg']. eapply Htop; [eapply all_EP_mono; eauto|exact S3|exact Hins]. }
    apply bind_ok in H. destruct H as [[[st2 sg2] groups2] [H2 H]]. inversion H; subst. clear H.
    assert (P2 : evolved st (fst (fst (st', sigs, groups2))) /\ AE (fst (fst (st', sigs, groups2))) (snd (fst (st', sigs, groups2)))
                 /\ Forall (PE (fst (fst (st', sigs, groups2)))) (snd (st', sigs, groups2))); [|apply P2].
    revert H2. apply (fold_result_inv _ (fun a => evolved st (fst (fst a)) /\ AE (fst (fst a)) (snd (fst a))
                                                 /\ Forall (PE (fst (fst a))) (snd a)));
      [intros x w; reflexivity| |exact P1].
    intros [[st0 sg0] gr] j a' [Pa [Pl Pg]] Hx. cbn [bind fst snd] in *.
    destruct (nth j _ _) as [mid' dmx'].
    destruct (import_mux_signal env st0 mpos (dm_id dm) (dm_size dm) mid' dmx' (nth j gr [])) as [[mt st3]|w] eqn:E; cbn [bind] in Hx; [|discriminate].
    assert (Pj : PE st0 (nth j gr [])) by (apply nth_Forall_default; [assumption|constructor]).
    destruct (Hmux _ _ _ _ _ _ Pa Pj E) as [S1 [S2 S3]].
    assert (Pg' : Forall (PE st3) gr) by (eapply Forall_impl; [|exact Pg]; intros l Hl; eapply pendE_mono; eauto).
    destruct (lookup key_eqb _ (ie_ext_muxes env)).
    + destruct (lookup String.eqb _ _); [|discriminate]. destruct (Nat.leb j n); [discriminate|].
      inversion Hx; subst. cbn [fst snd]. split; [exact S1|]. split; [eapply all_EP_mono; eauto|].
      apply app_nth_pendE; assumption.
    + destruct (ds_muxed dmx'); [discriminate|].
      apply bind_ok in Hx. destruct Hx as [[st4 sg4] [Hy Hx]]. inversion Hx; subst. cbn [fst snd].
      apply bind_ok in Hy. destruct Hy as [sg' [Hins Hy]]. inversion Hy; subst.
      split; [exact S1|]. split; [|exact Pg']. eapply Htop; [eapply all_EP_mono; eauto|exact S3|exact Hins].
Qed.

Definition msg_EP (env : ienv) (es0 : list enum_def) (st : istate) (dm : dmessage) (m : message) : Prop :=
  all_EP env es0 (dm_id dm) (index_from 0 (sorted_signals dm)) st (m_signals m).

Lemma import_messages_EP : forall env es0 nodes dms st msgs st' msgs',
  fold_left (fun acc dm => do a <- acc; import_message env a nodes dm) dms (Ok (st, msgs)) = Ok (st', msgs') ->
  env_valid env (length es0) -> core_ext es0 st -> refs_valid st ->
  st_le st st' /\ exists new, msgs' = msgs ++ new /\ Forall2 (msg_EP env es0 st') dms new.
Proof.
  intros env es0 nodes dms. induction dms as [|dm r IH]; intros st msgs st' msgs' H Hev Hc Hrv; cbn [fold_left] in H.
  - inversion H; subst. split; [apply st_le_refl|]. exists []. rewrite app_nil_r. split; constructor.
  - cbn [bind] in H.
    destruct (import_message env (st, msgs) nodes dm) as [[st1 msgs1]|w] eqn:E.
    2:{ rewrite fold_result_err in H by reflexivity. discriminate. }
    apply import_message_inv in E. destruct E as [m [sigs [Hm [Hh [Hsg [Hsig _]]]]]]. subst msgs1.
    assert (Hev1 : env_valid env (length (is_enums st))) by (apply (env_valid_mono env (length es0)); [apply Hc|exact Hev]).
    destruct (import_message_signals_evolves _ _ _ _ _ _ Hev1 Hrv Hsig) as [Hle Hrv1].
    destruct (IH st1 (msgs ++ [m]) st' msgs' H Hev (core_ext_mono _ _ _ Hle Hc) Hrv1) as [Hle2 [new [Hn Hall]]].
    split; [eapply st_le_trans; eauto|]. exists (m :: new). rewrite Hn, <- app_assoc. split; [reflexivity|].
    constructor; [|assumption]. unfold msg_EP. rewrite Hsg.
    pose proof (import_message_signals_EP env es0 st (length msgs) dm st1 sigs Hev Hc Hrv Hsig) as Hp.
    eapply all_EP_mono; [exact Hle2|exact Hp].
Qed.

Theorem import_enum_all_depths : forall d b, import d = Ok b ->
  Forall2 (fun dm m => forall s, In s (m_signals m) -> s_kind s = KEnum ->
      exists ds vals, In (s_id s, ds) (index_from 0 (sorted_signals dm)) /\ s_name s = ds_name ds /\
        last_valenc (d_valencs d) (dm_id dm, ds_name ds) = Some vals /\
        sorted_enum_values (nth_enum (b_enums b) (s_enum s)) = vals /\
        sig_size (b_enums b) s = ds_size ds)
    (d_messages d) (b_messages b).
Proof.
  intros d b H. apply import_inv in H.
  destruct H as [reg [es [se [nodes [st4 [msgs [b1 [_ [Hv [_ [Hm [Hb Hbb]]]]]]]]]]]].
  pose proof (env_valid_doc _ _ _ _ Hv) as Hev.
  assert (Hc : core_ext es (mkistate es [] [])) by (split; [cbn; lia|intros; reflexivity]).
  destruct (import_messages_EP _ es _ _ _ _ _ _ Hm Hev Hc ltac:(intros r [])) as [_ [new [Hn Hall]]].
  cbn [app] in Hn. subst new.
  apply import_attributes_skel in Hb. unfold bus_skel in Hb.
  cbn [b_name b_desc b_nodes b_enums b_messages] in Hb.
  assert (Hk : map msg_skel msgs = map msg_skel (b_messages b1)) by congruence.
  assert (He : b_enums b1 = is_enums st4) by congruence.
  assert (Hb' : b_messages b = b_messages b1 /\ b_enums b = b_enums b1) by (subst b; destruct (existsb _ _); split; reflexivity).
  destruct Hb' as [Hb1 Hb2]. rewrite Hb1, Hb2, He.
  clear - Hk Hall Hv. revert Hk Hall. generalize (b_messages b1) as l1. generalize (d_messages d) as dms.
  induction msgs as [|m r IH]; intros dms l1 Hk Hall; destruct l1 as [|m1 r1]; try (cbn in Hk; discriminate Hk).
  - inversion Hall; subst. constructor.
  - inversion Hall as [|dm ? dr ? Hm1 Hr1]; subst.
    cbn [map] in Hk. apply cons_inj in Hk. destruct Hk as [Hs Hr].
    constructor; [|apply IH; assumption].
    assert (Hsk : map sig_skel (m_signals m1) = map sig_skel (m_signals m)).
    { apply (f_equal snd) in Hs. symmetry. exact Hs. }
    intros s1 Hs1 Hkind. destruct (skel_in _ _ _ Hsk Hs1) as [s [Hsin Hske]].
    assert (Heq : s_id s = s_id s1 /\ s_name s = s_name s1 /\ s_kind s = s_kind s1 /\ s_enum s = s_enum s1).
    { destruct s, s1. unfold sig_skel in Hske. cbn in Hske. inversion Hske; subst. cbn. auto. }
    destruct Heq as [K1 [K2 [K3 K4]]].
    unfold msg_EP in Hm1. destruct (Hm1 s Hsin (eq_trans K3 Hkind)) as [ds [ei0 [E1 [E2 [E3 [E4 [E5 E6]]]]]]].
    rewrite doc_env_sig_enums in E3.
    destruct (last_valenc_some_lookup _ _ _ _ _ _ _ _ Hv eq_refl E3) as [v [Hlv [Hrg Hvv]]].
    exists ds, v. rewrite <- K1, <- K2. split; [assumption|]. split; [assumption|]. split; [assumption|].
    cbn [is_enums] in *. rewrite <- K4. split.
    + unfold sorted_enum_values in *. unfold enum_core in E5. inversion E5 as [[Hn1 Hv1 Hm2]]. rewrite Hv1. exact Hvv.
    + unfold sig_size. rewrite Hkind, <- K4. exact E6.
Qed.
