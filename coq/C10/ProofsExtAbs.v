(* C10 — messages with SEVERAL multiplexor switches: every signal of the file is present at the file's
   ABSOLUTE position (composed along the chain of nested multiplexers: parent position + selector width +
   relative position) and every switch is a multiplexer whose selector width is the file's size.
   From ProofsExtMux (parents, relative positions; a nested switch sits in a switch placed before it),
   ProofsIds (ids unique, so parents resolve) and a walk for "the group count of a multiplexer is positive". *)
From Coq Require Import String Ascii ZArith List Bool Lia.
From Coq Require Import ZifyBool.
From Acme.C10 Require Import DbcDoc BusModel Import Proofs ProofsEnum ProofsLayout ProofsFaithful ProofsMux ProofsExtMux ProofsIds ProofsTraverse.
Import ListNotations.
Open Scope Z_scope.

Definition MG (s : signal) : Prop := s_kind s = KMux -> 0 < s_gcount s.

Lemma import_message_signals_MG : forall env st mpos dm st' sigs,
  import_message_signals env st mpos dm = Ok (st', sigs) -> forall x, In x sigs -> MG x.
Proof.
  intros env st mpos dm st' sigs H.
  apply (import_message_signals_G env mpos dm MG (fun _ => True)) with (st := st) (st' := st'); try assumption; try exact I.
  - intros s rel p g Hs. exact Hs.
  - intros s dsc Hs. exact Hs.
  - intros st0 id ds s st1 _ Hin Hi. split; [|exact I]. apply import_signal_spec in Hi. destruct Hi as [_ Hf].
    intros Hk. unfold sig_faithful in Hf. cbn [s_kind place] in Hf.
    destruct Hf as [_ [_ [_ [_ [_ Hkind]]]]].
    destruct (lookup key_eqb (dm_id dm, ds_name ds) (ie_sig_enums env)); [|destruct Hkind as [Hkind _]]; cbn [s_kind place] in Hkind; congruence.
  - intros id name gc gs Hgc _ _. exact Hgc.
  - intros; exact I.
Qed.

Lemma NoDup_map_fst_filter : forall {A B} (f : A * B -> bool) (l : list (A * B)), NoDup (map fst l) -> NoDup (map fst (filter f l)).
Proof.
  intros A B f l. induction l as [|x r IH]; intros H; cbn [filter map]; [constructor|]. cbn [map] in H. inversion H as [|? ? Hni Hr]; subst.
  destruct (f x); [|apply IH; assumption]. cbn [map]. constructor; [|apply IH; assumption].
  intros Hin. apply Hni. apply in_map_iff in Hin. destruct Hin as [y [Hy Hin]]. apply filter_In in Hin. apply in_map_iff. exists y. tauto.
Qed.

Lemma NoDup_map_inj_in : forall {A B} (f : A -> B) l x y, NoDup (map f l) -> In x l -> In y l -> f x = f y -> x = y.
Proof.
  intros A B f l. induction l as [|a r IH]; intros x y Hnd Hx Hy Hf; [destruct Hx|].
  cbn in Hnd. inversion Hnd as [|? ? Hn Hr]; subst.
  destruct Hx as [Hx|Hx], Hy as [Hy|Hy]; subst; auto.
  - exfalso. apply Hn. rewrite Hf. apply in_map. assumption.
  - exfalso. apply Hn. rewrite <- Hf. apply in_map. assumption.
Qed.

Definition ext_mux_abs (dm : dmessage) (sigs : list signal) : Prop :=
  let isigs := index_from 0 (sorted_signals dm) in
  let muxes := filter (fun p : Z * dsignal => ds_muxor (snd p)) isigs in
  (2 <= length muxes)%nat -> (forall mid dmx, In (mid, dmx) muxes -> 0 <= ds_size dmx) ->
  forall id ds, In (id, ds) isigs ->
    exists s, In s sigs /\ s_id s = id /\ s_name s = ds_name ds /\
              abs_start (length sigs) sigs s = get_start_bit ds /\
              (ds_muxor ds = true -> s_kind s = KMux /\ sel_width s = ds_size ds).

Lemma ext_mux_abs_of : forall env dm sigs,
  ext_mux_faithful env dm sigs -> names_ids_ok dm sigs -> (forall x, In x sigs -> MG x) -> ext_mux_abs dm sigs.
Proof.
  intros env dm sigs HF [_ [Hids _]] HG. unfold ext_mux_abs. cbv zeta. intros Hn Hsz.
  unfold ext_mux_faithful in HF. cbv zeta in HF. destruct (HF Hn) as [HA HB]. clear HF.
  set (isigs := index_from 0 (sorted_signals dm)) in *.
  set (muxes := filter (fun p : Z * dsignal => ds_muxor (snd p)) isigs) in *.
  set (dflt := (0, mkdsignal EmptyString false false 0 0 0 LittleEndian false fl_one fl_zero fl_zero fl_zero EmptyString [])) in *.
  (* step 1: the switches, by strong induction on their index *)
  assert (S1 : forall j, (j < length muxes)%nat ->
            exists mx, In mx sigs /\ s_id mx = fst (nth j muxes dflt) /\ s_name mx = ds_name (snd (nth j muxes dflt)) /\
                       s_kind mx = KMux /\ sel_width mx = ds_size (snd (nth j muxes dflt)) /\
                       forall fuel, (j < fuel)%nat -> abs_start fuel sigs mx = get_start_bit (snd (nth j muxes dflt))).
  { intros j. induction j as [j IH] using lt_wf_ind. intros Hj.
    pose proof (HB j Hj) as Hp. unfold mux_placed in Hp. fold dflt in Hp.
    assert (Hjin : In (nth j muxes dflt) muxes) by (apply nth_In; assumption).
    destruct (nth j muxes dflt) as [mid dmx] eqn:Ej. cbn [fst snd].
    destruct Hp as [mx [Hmx [[R1 [R2 [R3 [R4 [R5 [R6 _]]]]]] Hpos]]].
    assert (Hw : sel_width mx = ds_size dmx).
    { unfold sel_width. rewrite R4. apply switch_width; [apply (Hsz mid dmx Hjin)|assumption|rewrite <- R4; apply (HG mx Hmx R3)]. }
    exists mx. split; [assumption|]. split; [assumption|]. split; [assumption|]. split; [assumption|]. split; [assumption|].
    intros fuel Hfuel. destruct Hpos as [[_ [Hpar Hrel]]|[em [mi [g [_ [Hmi [Hlt [Hpar [Hrel _]]]]]]]]].
    - rewrite abs_start_top by assumption. assumption.
    - assert (Hmil : (mi < length muxes)%nat) by lia.
      destruct (IH mi Hlt Hmil) as [pm [Hpm [P1 [_ [_ [P4 P5]]]]]].
      destruct fuel as [|k]; [lia|]. cbn [abs_start]. rewrite Hpar, <- P1.
      rewrite (find_sig_unique sigs pm Hids Hpm). rewrite (P5 k) by lia. rewrite P4, Hrel. lia. }
  (* the switches are distinct signals of the message *)
  assert (Hlen : (length muxes <= length sigs)%nat).
  { rewrite <- (map_length fst muxes), <- (map_length s_id sigs). apply NoDup_incl_length.
    - apply NoDup_map_fst_filter. apply index_from_fst_nodup.
    - intros i Hi. apply in_map_iff in Hi. destruct Hi as [p [<- Hp]]. destruct (In_nth _ _ dflt Hp) as [j [Hj Hnth]].
      destruct (S1 j Hj) as [mx [Hmx [Hid _]]]. rewrite Hnth in Hid. rewrite <- Hid. apply in_map. assumption. }
  intros id ds Hin. destruct (ds_muxor ds) eqn:Emx.
  - assert (Hm : In (id, ds) muxes) by (apply filter_In; split; [assumption|exact Emx]).
    destruct (In_nth _ _ dflt Hm) as [j [Hj Hnth]]. destruct (S1 j Hj) as [mx [Hmx [Hid [Hnm [Hk [Hw Habs]]]]]].
    rewrite Hnth in *. cbn [fst snd] in *. exists mx. split; [assumption|]. split; [assumption|]. split; [assumption|].
    split; [apply Habs; lia|]. intros _. split; assumption.
  - destruct (HA id ds Hin Emx) as [s [Hs [Hid [Hb Hpos]]]].
    exists s. split; [assumption|]. split; [assumption|].
    destruct Hb as [Hbn _]. cbn [s_name place] in Hbn. split; [assumption|]. split; [|intros Hc; discriminate Hc].
    destruct Hpos as [[_ [Hpar Hrel]]|[_ [em [mi [g [_ [Hmi [Hpar [Hrel _]]]]]]]]].
    + rewrite abs_start_top by assumption. assumption.
    + assert (Hmil : (mi < length muxes)%nat) by (apply (mux_names_bound muxes _ _ Hmi)).
      destruct (S1 mi Hmil) as [pm [Hpm [P1 [_ [_ [P4 P5]]]]]].
      assert (Hlen2 : (S (length muxes) <= length sigs)%nat).
      { rewrite <- (map_length fst muxes), <- (map_length s_id sigs).
        change (S (length (map fst muxes))) with (length (id :: map fst muxes)). apply NoDup_incl_length.
        - constructor; [|apply NoDup_map_fst_filter; apply index_from_fst_nodup].
          intros Hc. apply in_map_iff in Hc. destruct Hc as [[i2 d2] [Hi2 Hp2]]. cbn [fst] in Hi2. subst i2.
          pose proof Hp2 as Hp3. apply filter_In in Hp3. destruct Hp3 as [Hp3 Hm3]. cbn [snd] in Hm3.
          assert ((id, d2) = (id, ds)) by (apply (NoDup_map_inj_in fst isigs); [apply index_from_fst_nodup|assumption|assumption|reflexivity]).
          inversion H; subst d2. congruence.
        - intros i [<-|Hi]; [rewrite <- Hid; apply in_map; assumption|].
          apply in_map_iff in Hi. destruct Hi as [p [<- Hp]]. destruct (In_nth _ _ dflt Hp) as [j [Hj Hnth]].
          destruct (S1 j Hj) as [mx [Hmx [Hid2 _]]]. rewrite Hnth in Hid2. rewrite <- Hid2. apply in_map. assumption. }
      destruct (length sigs) as [|k] eqn:El; [lia|]. cbn [abs_start]. rewrite Hpar, <- P1.
      rewrite (find_sig_unique sigs pm Hids Hpm). rewrite (P5 k) by lia. rewrite P4, Hrel. lia.
Qed.

Lemma MG_skel : forall l l', map sig_skel l = map sig_skel l' -> (forall x, In x l -> MG x) -> forall x, In x l' -> MG x.
Proof.
  intros l l' Hk H x' Hx'. symmetry in Hk. destruct (skel_in _ _ _ Hk Hx') as [x [Hx Hsk]]. specialize (H x Hx).
  destruct x, x'. unfold sig_skel in Hsk. cbn in Hsk. inversion Hsk; subst. exact H.
Qed.

Theorem import_ext_mux_abs : forall d b, import d = Ok b ->
  Forall2 (fun dm m => ext_mux_abs dm (m_signals m)) (d_messages d) (b_messages b).
Proof.
  intros d b H.
  destruct (import_per_message (fun env dm sigs => ext_mux_faithful env dm sigs /\ names_ids_ok dm sigs /\ forall x, In x sigs -> MG x))
    with (d := d) (b := b) as [se [_ HF]]; [| |assumption|].
  - intros env st mpos dm st' sigs Hi. split; [eapply import_ext_mux; eauto|]. split.
    + pose proof (import_message_signals_src _ _ _ _ _ _ Hi) as Hs. pose proof (ids_nodup _ _ Hs) as Hids.
      destruct Hs as [HP Hnd]. split; [assumption|]. split; [assumption|].
      intros s Hs. specialize (HP s Hs). unfold P, src_of in HP. apply in_map_iff in HP. destruct HP as [[j ds] [E Hin]].
      exists ds. split; [apply (f_equal fst) in E; cbn [fst] in E; rewrite <- E; exact Hin|apply (f_equal snd) in E; cbn [snd] in E; symmetry; exact E].
    + eapply import_message_signals_MG; eauto.
  - intros env dm l l' Hk [H0 [[H1 [H2 H4]] H5]]. split; [eapply ext_mux_faithful_skel; eauto|]. split.
    + destruct (skel_names_ids _ _ Hk) as [E1 E2]. split; [rewrite <- E1; assumption|].
      split; [rewrite <- E2; assumption|]. intros s' Hs'. pose proof Hk as Hk'. symmetry in Hk'. destruct (skel_in _ _ _ Hk' Hs') as [s [Hs Hsk]].
      destruct (H4 s Hs) as [ds [D1 D2]]. exists ds.
      destruct s, s'. unfold sig_skel in Hsk. cbn in Hsk. inversion Hsk; subst. cbn in *. auto.
    + eapply MG_skel; eauto.
  - eapply ProofsFaithful.Forall2_impl; [|exact HF]. intros dm m [A [B C]]. eapply ext_mux_abs_of; eauto.
Qed.
