(* C10 — messages with SEVERAL multiplexor switches (extended multiplexing, nesting): every signal
   of the file is present with the file's data; a multiplexed signal is a child of the multiplexer
   its SG_MUL_VAL_ entry names, at its position relative to the end of that switch, in the groups
   the entry lists; a switch without entry is a top-level multiplexer at its position, a switch with
   an entry is nested in the multiplexer the entry names. *)
From Coq Require Import String Ascii ZArith List Bool Lia.
From Coq Require Import ZifyBool.
From Acme.C10 Require Import DbcDoc BusModel Import Bits Proofs ProofsEnum ProofsLayout ProofsFaithful ProofsMux.
Import ListNotations.
Open Scope Z_scope.

(* what importMuxSignal returns *)
Definition mux_root (env : ienv) (msgid : Z) (id : Z) (dm : dsignal) (mx : signal) : Prop :=
  s_id mx = id /\ s_name mx = ds_name dm /\ s_kind mx = KMux /\ s_gcount mx = calc_value_from_size (ds_size dm) /\
  ds_size dm <> 0 /\ 0 < s_gsize mx /\ s_desc mx = sig_comment env msgid (ds_name dm).

Definition child_at (env : ienv) (msgid : Z) (pid : Z) (pds : dsignal) (t : subtree) (ds : dsignal) (c : signal) : Prop :=
  exists g, child_groups env msgid (calc_value_from_size (ds_size pds)) (fst t) ds = Ok g /\
            c = place (fst t) (get_start_bit ds - get_start_bit pds - ds_size pds) (Some pid) (norm_groups g).

Lemma import_mux_signal_spec : forall env st mpos msgid msz id dm muxed t st',
  import_mux_signal env st mpos msgid msz id dm muxed = Ok (t, st') ->
  mux_root env msgid id dm (fst t) /\
  exists kids, snd t = kids ++ flat_map (fun p => snd (fst p)) muxed /\
               Forall2 (fun p c => child_at env msgid id dm (fst p) (snd p) c) muxed kids.
Proof.
  intros env st mpos msgid msz id dm muxed t st' H. unfold import_mux_signal in H.
  destruct (existsb _ muxed); [discriminate|].
  destruct (ds_size dm =? 0) eqn:Ez; [discriminate|].
  destruct (calc_value_from_size (ds_size dm) <=? 0) eqn:Egc; [discriminate|].
  match type of H with (if ?c then _ else _) = _ => destruct c eqn:Egs; [discriminate|] end.
  apply bind_ok in H. destruct H as [[kids belows] [Hk H]].
  apply mux_children_spec in Hk. destruct Hk as [Hkids Hbel].
  injection H as Ht Hst. subst t. cbn [fst snd]. split.
  - unfold mux_root, sig_comment. destruct (lookup key_eqb (msgid, ds_name dm) (ie_sig_desc env)); cbn; repeat split; try reflexivity; lia.
  - exists kids. split; [rewrite Hbel; reflexivity|].
    eapply Forall2_impl; [|exact Hkids]. intros p c [g [Hg Hc]]. exists g. cbn [s_gcount s_id] in *. split; assumption.
Qed.

(* ---- lists of pending lists ---- *)
Lemma nth_replace_nth_same : forall {A} n (x d : A) l, (n < length l)%nat -> nth n (replace_nth n x l) d = x.
Proof. intros. apply replace_nth_same. assumption. Qed.

Lemma app_nth_length : forall {A} n (x : A) groups, length (app_nth n x groups) = length groups.
Proof. intros. unfold app_nth. apply replace_nth_length. Qed.

Lemma app_nth_keeps : forall {A} n i (x y : A) groups, In y (nth i groups []) -> In y (nth i (app_nth n x groups) []).
Proof.
  intros A n i x y groups H. unfold app_nth. destruct (Nat.eq_dec n i) as [->|Hne].
  - destruct (Nat.lt_ge_cases i (length groups)) as [Hl|Hl].
    + rewrite replace_nth_same by assumption. apply in_or_app. left. assumption.
    + rewrite nth_overflow in H by assumption. destruct H.
  - rewrite replace_nth_other by assumption. assumption.
Qed.
Lemma app_nth_adds : forall {A} n (x : A) groups, (n < length groups)%nat -> In x (nth n (app_nth n x groups) []).
Proof. intros A n x groups H. unfold app_nth. rewrite replace_nth_same by assumption. apply in_or_app. right. left. reflexivity. Qed.
Lemma app_nth_other : forall {A} n i (x : A) groups, n <> i -> nth i (app_nth n x groups) [] = nth i groups [].
Proof. intros. unfold app_nth. apply replace_nth_other. assumption. Qed.

Section ExtMux.
  Variable env : ienv.
  Variable mpos : nat.
  Variable dm : dmessage.
  Variable muxes : list (Z * dsignal).
  Variable mux_idx : string -> option nat.
  Hypothesis mux_idx_bound : forall nm i, mux_idx nm = Some i -> (i < length muxes)%nat.
  Let msgid := dm_id dm.
  Let dflt := (0, mkdsignal EmptyString false false 0 0 0 LittleEndian false fl_one fl_zero fl_zero fl_zero EmptyString []).
  Let mux_at (i : nat) := nth i muxes dflt.

  (* an item pending in groups[i] ends up as a child of multiplexer i, with everything below it *)
  Definition placed_in (i : nat) (p : subtree * dsignal) (sg : list signal) : Prop :=
    (exists c, In c sg /\ child_at env msgid (fst (mux_at i)) (snd (mux_at i)) (fst p) (snd p) c) /\ incl (snd (fst p)) sg.

  (* where the multiplexer j itself ends up *)
  Definition mux_placed (j : nat) (sg : list signal) : Prop :=
    let '(mid, dmx) := mux_at j in
    exists mx, In mx sg /\ mux_root env msgid mid dmx mx /\
      ((lookup key_eqb (msgid, ds_name dmx) (ie_ext_muxes env) = None /\ s_parent mx = None /\ s_rel mx = get_start_bit dmx) \/
       (exists em mi g, lookup key_eqb (msgid, ds_name dmx) (ie_ext_muxes env) = Some em /\ mux_idx (em_muxor em) = Some mi /\ (mi < j)%nat /\
          s_parent mx = Some (fst (mux_at mi)) /\
          s_rel mx = get_start_bit dmx - get_start_bit (snd (mux_at mi)) - ds_size (snd (mux_at mi)) /\
          child_groups env msgid (calc_value_from_size (ds_size (snd (mux_at mi)))) mx dmx = Ok g /\ s_groups mx = norm_groups g)).

  Definition loop2_step (acc : result (mstate * list (list (subtree * dsignal)))) (j : nat) :=
    do (ms, groups) <- acc;
    (let '(mid, dmx) := nth j muxes dflt in
     do (mt, st1) <- import_mux_signal env (fst ms) mpos msgid (dm_size dm) mid dmx (nth j groups []);
     match lookup key_eqb (msgid, ds_name dmx) (ie_ext_muxes env) with
     | None => if ds_muxed dmx then Err "extended multiplexing is required" else
               do ms' <- (let '(st0, sigs) := (st1, snd ms) in
                          do sigs' <- msg_insert (is_enums st0) (dm_size dm) sigs mt (get_start_bit dmx); Ok (st0, sigs'));
               Ok (ms', groups)
     | Some em =>
         match mux_idx (em_muxor em) with
         | None => Err "multiplexor not found"
         | Some mi =>
             if Nat.leb j mi then Err "multiplexor not placed before its multiplexer"
             else Ok ((st1, snd ms), app_nth mi (mt, dmx) groups)
         end
     end).

  Lemma loop2_spec : forall k st sg groups st' sg' groups',
    (k <= length muxes)%nat -> length groups = length muxes ->
    fold_left loop2_step (rev (seq 0 k)) (Ok ((st, sg), groups)) = Ok ((st', sg'), groups') ->
    incl sg sg' /\
    (forall i p, (i < k)%nat -> In p (nth i groups []) -> placed_in i p sg') /\
    (forall j, (j < k)%nat -> mux_placed j sg').
  Proof.
    induction k as [|k IH]; intros st sg groups st' sg' groups' Hk Hlen H.
    - cbn in H. inversion H; subst. split; [apply incl_refl|]. split; intros; lia.
    - rewrite seq_S, rev_app_distr in H. cbn [rev app plus fold_left] in H.
      unfold loop2_step at 2 in H. cbn [bind fst snd] in H.
      destruct (nth k muxes dflt) as [mid dmx] eqn:Emx.
      destruct (import_mux_signal env st mpos msgid (dm_size dm) mid dmx (nth k groups [])) as [[mt st1]|w] eqn:Ei; cbn [bind] in H.
      2:{ rewrite fold_result_err in H; [discriminate|intros x w'; reflexivity]. }
      apply import_mux_signal_spec in Ei. destruct Ei as [Hroot [kids [Hsnd Hkids]]].
      (* the children of multiplexer k are inside mt *)
      assert (Hinside : forall p, In p (nth k groups []) ->
                (exists c, In c (snd mt) /\ child_at env msgid mid dmx (fst p) (snd p) c) /\ incl (snd (fst p)) (snd mt)).
      { intros p Hp. split.
        - destruct (Forall2_in_l _ _ _ _ Hkids Hp) as [c [Hc Hca]]. exists c. split; [rewrite Hsnd; apply in_or_app; left; exact Hc|exact Hca].
        - intros x Hx. rewrite Hsnd. apply in_or_app. right. apply in_flat_map. exists p. auto. }
      destruct (lookup key_eqb (msgid, ds_name dmx) (ie_ext_muxes env)) as [em|] eqn:Eext.
      + destruct (mux_idx (em_muxor em)) as [mi|] eqn:Emi.
        2:{ rewrite fold_result_err in H; [discriminate|intros x w'; reflexivity]. }
        destruct (Nat.leb k mi) eqn:Ele.
        { rewrite fold_result_err in H; [discriminate|intros x w'; reflexivity]. }
        apply Nat.leb_gt in Ele.
        apply IH in H; [|lia|rewrite app_nth_length; assumption].
        destruct H as [Hincl [Hitems Hmux]].
        assert (Hmt : placed_in mi (mt, dmx) sg').
        { apply Hitems; [assumption|]. apply app_nth_adds. rewrite Hlen. eapply mux_idx_bound; eauto. }
        split; [assumption|]. split.
        * intros i p Hi Hp. destruct (Nat.eq_dec i k) as [->|Hne].
          -- destruct (Hinside p Hp) as [[c [Hc Hca]] Hsub]. destruct Hmt as [_ Hmtin]. cbn [fst snd] in Hmtin.
             unfold placed_in, mux_at. rewrite Emx. cbn [fst snd]. split.
             ++ exists c. split; [apply Hmtin; assumption|assumption].
             ++ eapply incl_tran; eauto.
          -- apply Hitems; [lia|]. apply app_nth_keeps. assumption.
        * intros j Hj. destruct (Nat.eq_dec j k) as [->|Hne]; [|apply Hmux; lia].
          unfold mux_placed, mux_at. rewrite Emx.
          destruct Hmt as [[c [Hc [g [Hg Hcf]]]] _]. cbn [fst snd] in *.
          exists c. split; [assumption|]. subst c. split.
          -- unfold mux_root in *. cbn [s_id s_name s_kind s_gcount s_gsize s_desc place]. exact Hroot.
          -- right. exists em, mi, g. cbn [s_parent s_rel s_groups place]. repeat split; try assumption; try reflexivity.
      + destruct (ds_muxed dmx) eqn:Emuxed.
        { rewrite fold_result_err in H; [discriminate|intros x w'; reflexivity]. }
        destruct (msg_insert (is_enums st1) (dm_size dm) sg mt (get_start_bit dmx)) as [sg1|w] eqn:Eins; cbn [bind] in H.
        2:{ rewrite fold_result_err in H; [discriminate|intros x w'; reflexivity]. }
        apply msg_insert_form in Eins.
        apply IH in H; [|lia|assumption]. destruct H as [Hincl [Hitems Hmux]].
        assert (Hsub : incl sg1 sg') by assumption.
        split; [eapply incl_tran; [|exact Hincl]; rewrite Eins; apply incl_appl, incl_refl|]. split.
        * intros i p Hi Hp. destruct (Nat.eq_dec i k) as [->|Hne]; [|apply Hitems; [lia|assumption]].
          destruct (Hinside p Hp) as [[c [Hc Hca]] Hsubp].
          assert (Hmtin : incl (snd mt) sg').
          { eapply incl_tran; [|exact Hincl]. rewrite Eins. intros x Hx. rewrite !in_app_iff. right. right. exact Hx. }
          unfold placed_in, mux_at. rewrite Emx. cbn [fst snd]. split.
          -- exists c. split; [apply Hmtin; assumption|assumption].
          -- eapply incl_tran; eauto.
        * intros j Hj. destruct (Nat.eq_dec j k) as [->|Hne]; [|apply Hmux; lia].
          unfold mux_placed, mux_at. rewrite Emx.
          exists (place (fst mt) (get_start_bit dmx) None []). split.
          -- apply Hincl. rewrite Eins, !in_app_iff. right. left. left. reflexivity.
          -- split; [exact Hroot|]. left. rewrite Eext. repeat split.
  Qed.
End ExtMux.

(* ---- the first loop of the several-switches case ---- *)
Section Loop1.
  Variable env : ienv.
  Variable mpos : nat.
  Variable dm : dmessage.
  Variable mux_idx : string -> option nat.
  Variable nmux : nat.
  Hypothesis mux_idx_bound : forall nm i, mux_idx nm = Some i -> (i < nmux)%nat.
  Let msgid := dm_id dm.

  Definition loop1_step (acc : result (mstate * list (list (subtree * dsignal)))) (p : Z * dsignal) :=
    let '(id, ds) := p in
    do (ms, groups) <- acc;
    if ds_muxor ds then Ok (ms, groups) else
    do (s, st1) <- import_signal env (fst ms) mpos msgid id ds;
    if ds_muxed ds then
      match lookup key_eqb (msgid, ds_name ds) (ie_ext_muxes env) with
      | None => Err "extended multiplexing is required"
      | Some em =>
          match mux_idx (em_muxor em) with
          | None => Err "multiplexor not found"
          | Some mi => Ok ((st1, snd ms), app_nth mi ((s, []), ds) groups)
          end
      end
    else do ms' <- (let '(st0, sigs) := (st1, snd ms) in
                    do sigs' <- msg_insert (is_enums st0) (dm_size dm) sigs (s, []) (get_start_bit ds); Ok (st0, sigs'));
         Ok (ms', groups).

  Definition loop1_item (id : Z) (ds : dsignal) (sg : list signal) (groups : list (list (subtree * dsignal))) : Prop :=
    (ds_muxed ds = false /\ exists s, In (place s (get_start_bit ds) None []) sg /\ s_id s = id /\ base_faithful env msgid ds s) \/
    (ds_muxed ds = true /\ exists s em mi, lookup key_eqb (msgid, ds_name ds) (ie_ext_muxes env) = Some em /\
        mux_idx (em_muxor em) = Some mi /\ In ((s, []), ds) (nth mi groups []) /\ s_id s = id /\ base_faithful env msgid ds s).

  Lemma loop1_spec : forall isigs st sg groups st' sg' groups',
    length groups = nmux ->
    fold_left loop1_step isigs (Ok ((st, sg), groups)) = Ok ((st', sg'), groups') ->
    length groups' = nmux /\ incl sg sg' /\
    (forall i x, In x (nth i groups []) -> In x (nth i groups' [])) /\
    forall id ds, In (id, ds) isigs -> ds_muxor ds = false -> loop1_item id ds sg' groups'.
  Proof.
    induction isigs as [|[id ds] q IH]; intros st sg groups st' sg' groups' Hlen H; cbn [fold_left] in H.
    - inversion H; subst. repeat split; auto. apply incl_refl. intros id ds [].
    - unfold loop1_step at 2 in H. cbn [bind fst snd] in H.
      destruct (ds_muxor ds) eqn:Emx.
      + apply IH in H; [|assumption]. destruct H as [H1 [H2 [H3 H4]]]. repeat split; try assumption.
        intros id' ds' [Heq|Hin] Hm; [inversion Heq; subst; congruence|apply H4; assumption].
      + destruct (import_signal env st mpos msgid id ds) as [[s st1]|w] eqn:E; cbn [bind] in H.
        2:{ rewrite fold_result_err in H; [discriminate|intros x w'; destruct x; reflexivity]. }
        apply import_signal_spec in E. destruct E as [Hid Hb].
        destruct (ds_muxed ds) eqn:Emd.
        * destruct (lookup key_eqb (msgid, ds_name ds) (ie_ext_muxes env)) as [em|] eqn:Eext.
          2:{ rewrite fold_result_err in H; [discriminate|intros x w'; destruct x; reflexivity]. }
          destruct (mux_idx (em_muxor em)) as [mi|] eqn:Emi.
          2:{ rewrite fold_result_err in H; [discriminate|intros x w'; destruct x; reflexivity]. }
          apply IH in H; [|rewrite app_nth_length; assumption]. destruct H as [H1 [H2 [H3 H4]]].
          repeat split; try assumption.
          -- intros i x Hx. apply H3. apply app_nth_keeps. assumption.
          -- intros id' ds' [Heq|Hin] Hm; [|apply H4; assumption]. inversion Heq; subst id' ds'.
             right. split; [assumption|]. exists s, em, mi. split; [assumption|]. split; [assumption|].
             split; [|split; [exact Hid|exact Hb]].
             apply H3. apply app_nth_adds. rewrite Hlen. eapply mux_idx_bound; eauto.
        * destruct (msg_insert (is_enums st1) (dm_size dm) sg (s, []) (get_start_bit ds)) as [sg1|w] eqn:Eins; cbn [bind] in H.
          2:{ rewrite fold_result_err in H; [discriminate|intros x w'; destruct x; reflexivity]. }
          apply msg_insert_form in Eins. cbn [fst snd] in Eins.
          apply IH in H; [|assumption]. destruct H as [H1 [H2 [H3 H4]]].
          repeat split; try assumption.
          -- eapply incl_tran; [|exact H2]. rewrite Eins. apply incl_appl, incl_refl.
          -- intros id' ds' [Heq|Hin] Hm; [|apply H4; assumption]. inversion Heq; subst id' ds'.
             left. split; [assumption|]. exists s. split; [|split; assumption].
             apply H2. rewrite Eins, !in_app_iff. right. left. left. reflexivity.
  Qed.
End Loop1.

(* muxSigNames: positions of the switches by name *)
Definition mux_names_of (muxes : list (Z * dsignal)) : list (string * nat) :=
  fold_left (fun acc (p : nat * (Z * dsignal)) => let '(i, (_, ds)) := p in (ds_name ds, i) :: acc)
            (combine (seq 0 (length muxes)) muxes) [].

Lemma mux_names_bound : forall muxes nm i, lookup String.eqb nm (mux_names_of muxes) = Some i -> (i < length muxes)%nat.
Proof.
  intros muxes nm i H. unfold mux_names_of in H.
  assert (G : forall l acc, (forall p, In p l -> (fst p < length muxes)%nat) ->
            (forall n j, lookup String.eqb n acc = Some j -> (j < length muxes)%nat) ->
            forall n j, lookup String.eqb n (fold_left (fun acc (p : nat * (Z * dsignal)) => let '(i, (_, ds)) := p in (ds_name ds, i) :: acc) l acc) = Some j ->
            (j < length muxes)%nat).
  { induction l as [|[i0 [z ds]] r IH]; intros acc Hl Ha n j Hj; cbn [fold_left] in Hj; [eapply Ha; eauto|].
    eapply IH; [|  |exact Hj].
    - intros p Hp. apply Hl. right. assumption.
    - intros n' j' Hl'. cbn [lookup] in Hl'. destruct (String.eqb n' (ds_name ds)); [inversion Hl'; subst; apply (Hl (j', (z, ds))); left; reflexivity|eapply Ha; eauto]. }
  eapply G; [| |exact H].
  - intros [a b] Hp. apply in_combine_l in Hp. apply in_seq in Hp. cbn. lia.
  - intros n j Hn. discriminate.
Qed.

(* the statement for a message with several switches *)
Definition ext_mux_faithful (env : ienv) (dm : dmessage) (sigs : list signal) : Prop :=
  let isigs := index_from 0 (sorted_signals dm) in
  let muxes := filter (fun p : Z * dsignal => ds_muxor (snd p)) isigs in
  let mux_idx := fun nm => lookup String.eqb nm (mux_names_of muxes) in
  let dflt := (0, mkdsignal EmptyString false false 0 0 0 LittleEndian false fl_one fl_zero fl_zero fl_zero EmptyString []) in
  (2 <= length muxes)%nat ->
  (forall id ds, In (id, ds) isigs -> ds_muxor ds = false ->
     exists s, In s sigs /\ s_id s = id /\ base_faithful env (dm_id dm) ds s /\
       ((ds_muxed ds = false /\ s_parent s = None /\ s_rel s = get_start_bit ds) \/
        (ds_muxed ds = true /\ exists em mi g, lookup key_eqb (dm_id dm, ds_name ds) (ie_ext_muxes env) = Some em /\
           mux_idx (em_muxor em) = Some mi /\
           s_parent s = Some (fst (nth mi muxes dflt)) /\
           s_rel s = get_start_bit ds - get_start_bit (snd (nth mi muxes dflt)) - ds_size (snd (nth mi muxes dflt)) /\
           child_groups env (dm_id dm) (calc_value_from_size (ds_size (snd (nth mi muxes dflt)))) s ds = Ok g /\
           s_groups s = norm_groups g))) /\
  (forall j, (j < length muxes)%nat -> mux_placed env dm muxes mux_idx j sigs).

Theorem import_ext_mux : forall env st mpos dm st' sigs,
  import_message_signals env st mpos dm = Ok (st', sigs) -> ext_mux_faithful env dm sigs.
Proof.
  intros env st mpos dm st' sigs H. unfold ext_mux_faithful. cbv zeta. intros Hn.
  unfold import_message_signals in H. cbv zeta in H. fold (sorted_signals dm) in H.
  set (isigs := index_from 0 (sorted_signals dm)) in *.
  set (muxes := filter (fun p : Z * dsignal => ds_muxor (snd p)) isigs) in *.
  destruct muxes as [|[i1 d1] [|m2 mr]] eqn:Emux; [cbn in Hn; lia|cbn in Hn; lia|].
  cbv beta iota in H. rewrite <- Emux in *. clear Hn.
  fold (mux_names_of muxes) in H.
  set (mux_idx := fun nm => lookup String.eqb nm (mux_names_of muxes)) in *.
  assert (Hbound : forall nm i, mux_idx nm = Some i -> (i < length muxes)%nat) by (intros; eapply mux_names_bound; eauto).
  apply bind_ok in H. destruct H as [[[st1 sg1] groups1] [H1 H]].
  change (fold_left (loop1_step env mpos dm mux_idx) isigs (Ok ((st, []), repeat [] (length muxes))) = Ok ((st1, sg1), groups1)) in H1.
  apply (loop1_spec env mpos dm mux_idx (length muxes) Hbound) in H1; [|apply repeat_length].
  destruct H1 as [L1 [_ [_ L4]]].
  apply bind_ok in H. destruct H as [[[st2 sg2] groups2] [H2 H]]. inversion H; subst st' sigs. clear H.
  change (fold_left (loop2_step env mpos dm muxes mux_idx) (rev (seq 0 (length muxes))) (Ok ((st1, sg1), groups1)) = Ok ((st2, sg2), groups2)) in H2.
  apply (loop2_spec env mpos dm muxes mux_idx Hbound) in H2; [|lia|assumption].
  destruct H2 as [M1 [M2 M3]].
  split; [|exact M3].
  intros id ds Hin Hmx. destruct (L4 id ds Hin Hmx) as [[Hmd [s [Hs [Hid Hb]]]]|[Hmd [s [em [mi [Hext [Hmi [Hs [Hid Hb]]]]]]]]].
  - exists (place s (get_start_bit ds) None []). split; [apply M1; exact Hs|]. split; [exact Hid|]. split; [exact Hb|].
    left. repeat split; assumption.
  - destruct (M2 mi _ (Hbound _ _ Hmi) Hs) as [[c [Hc [g [Hg Hcf]]]] _]. cbn [fst snd] in *.
    exists c. split; [exact Hc|]. subst c. split; [exact Hid|]. split; [exact Hb|].
    right. split; [assumption|]. exists em, mi, g. cbn [s_parent s_rel s_groups place]. repeat split; try assumption; try reflexivity.
Qed.

Lemma ext_mux_faithful_skel : forall env dm l l', map sig_skel l = map sig_skel l' ->
  ext_mux_faithful env dm l -> ext_mux_faithful env dm l'.
Proof.
  intros env dm l l' Hm H. unfold ext_mux_faithful in *. cbv zeta in *. intros Hn. destruct (H Hn) as [H1 H2]. split.
  - intros id ds Hin Hmx. destruct (H1 id ds Hin Hmx) as [s [Hs Hp]].
    destruct (skel_in _ _ _ Hm Hs) as [s' [Hs' Hk]]. exists s'. split; [assumption|].
    destruct s, s'. unfold sig_skel in Hk. cbn in Hk. inversion Hk; subst. exact Hp.
  - intros j Hj. specialize (H2 j Hj). unfold mux_placed in *.
    destruct (nth j _ _) as [mid dmx]. destruct H2 as [mx [Hs Hp]].
    destruct (skel_in _ _ _ Hm Hs) as [mx' [Hs' Hk]]. exists mx'. split; [assumption|].
    destruct mx, mx'. unfold sig_skel in Hk. cbn in Hk. inversion Hk; subst. exact Hp.
Qed.

(* import_ext_mux_faithful: for every message of the file that has two or more multiplexor switches *)
Theorem import_ext_mux_faithful : forall d b, import d = Ok b ->
  exists se : list (key * Z),
    (forall k, (exists e, lookup key_eqb k se = Some e) <-> has_valenc d k) /\
    Forall2 (fun dm m => ext_mux_faithful (doc_env d se) dm (m_signals m)) (d_messages d) (b_messages b).
Proof.
  apply import_per_message.
  - intros env st mpos dm st' sigs H. eapply import_ext_mux; eauto.
  - apply ext_mux_faithful_skel.
Qed.
