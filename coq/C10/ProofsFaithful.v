(* C10 — enum signals of messages without multiplexor switch: the enum a signal refers to in the
   FINAL table has exactly the values of the signal's (last) VAL_ line and gives the signal the
   file's size. *)
From Coq Require Import String Ascii ZArith List Bool Lia.
From Coq Require Import ZifyBool.
From Acme.C10 Require Import DbcDoc BusModel Import Bits Proofs ProofsEnum ProofsLayout.
Import ListNotations.
Open Scope Z_scope.

Definition core_ext (es : list enum_def) (st : istate) : Prop :=
  (length es <= length (is_enums st))%nat /\
  forall i, 0 <= i < Z.of_nat (length es) -> enum_core (nth_enum (is_enums st) i) = enum_core (nth_enum es i).

Lemma core_ext_mono : forall es st st', st_le st st' -> core_ext es st -> core_ext es st'.
Proof.
  intros es st st' [L1 [L2 _]] [C1 C2]. split; [lia|]. intros i Hi. rewrite L2 by lia. apply C2. assumption.
Qed.

Definition enum_ok (env : ienv) (es0 : list enum_def) (st : istate) (msgid : Z) (ds : dsignal) (s : signal) : Prop :=
  forall ei0, lookup key_eqb (msgid, ds_name ds) (ie_sig_enums env) = Some ei0 ->
    In (s_enum s) (is_enum_refs st) /\
    enum_core (nth_enum (is_enums st) (s_enum s)) = enum_core (nth_enum es0 ei0) /\
    enum_size (nth_enum (is_enums st) (s_enum s)) = ds_size ds.

Lemma enum_ok_mono : forall env es0 st st' msgid ds s, st_le st st' ->
  enum_ok env es0 st msgid ds s -> enum_ok env es0 st' msgid ds s.
Proof.
  intros env es0 st st' msgid ds s [_ [_ [L3 L4]]] H ei0 Hl. destruct (H ei0 Hl) as [H1 [H2 H3]].
  split; [apply L4; assumption|]. rewrite (L3 _ H1). auto.
Qed.

Lemma plain_signals_fold_enum : forall env es0 mpos msgid msize isigs st sigs st' sigs',
  env_valid env (length es0) -> core_ext es0 st -> refs_valid st ->
  fold_left (fun acc (p : Z * dsignal) => let '(id, ds) := p in
      do (st0, sg) <- acc;
      do (s, st1) <- import_signal env st0 mpos msgid id ds;
      (let '(st2, sg2) := (st1, sg) in
       do sg' <- msg_insert (is_enums st2) msize sg2 (s, []) (get_start_bit ds); Ok (st2, sg')))
    isigs (Ok (st, sigs)) = Ok (st', sigs') ->
  st_le st st' /\ refs_valid st' /\
  exists new, sigs' = sigs ++ new /\ Forall2 (fun p s => enum_ok env es0 st' msgid (snd p) s) isigs new.
Proof.
  intros env es0 mpos msgid msize isigs. induction isigs as [|[id ds] r IH]; intros st sigs st' sigs' Hev Hc Hrv H; cbn [fold_left] in H.
  - inversion H; subst. split; [apply st_le_refl|]. split; [assumption|]. exists []. rewrite app_nil_r. split; constructor.
  - cbn [bind] in H.
    destruct (import_signal env st mpos msgid id ds) as [[s st1]|w] eqn:E; cbn [bind] in H.
    2:{ rewrite fold_result_err in H; [discriminate|]. intros [i x] w'. reflexivity. }
    destruct (msg_insert (is_enums st1) msize sigs (s, []) (get_start_bit ds)) as [sg'|w] eqn:Em; cbn [bind] in H.
    2:{ rewrite fold_result_err in H; [discriminate|]. intros [i x] w'. reflexivity. }
    assert (Hev1 : env_valid env (length (is_enums st))) by (apply (env_valid_mono env (length es0)); [apply Hc|exact Hev]).
    destruct (import_signal_evolves _ _ _ _ _ _ _ _ Hev1 Hrv E) as [[Hle Hrv1] Hf].
    destruct (IH st1 sg' st' sigs' Hev (core_ext_mono _ _ _ Hle Hc) Hrv1 H) as [Hle2 [Hrv2 [new [Hn Hall]]]].
    split; [eapply st_le_trans; eauto|]. split; [assumption|].
    apply msg_insert_plain in Em. subst sg'.
    exists (place s (get_start_bit ds) None [] :: new). rewrite Hn, <- app_assoc. split; [reflexivity|].
    constructor; [|assumption]. cbn [snd].
    apply (enum_ok_mono env es0 st1 st'); [assumption|].
    intros ei0 Hl. destruct (Hf ei0 Hl) as [F1 [F2 [F3 F4]]]. cbn [s_enum place].
    split; [assumption|]. split; [|assumption]. rewrite F3. apply Hc. apply (Hev _ _ Hl).
Qed.

Lemma import_message_signals_plain_enum : forall env es0 st mpos dm st' sigs,
  no_muxor dm -> env_valid env (length es0) -> core_ext es0 st -> refs_valid st ->
  import_message_signals env st mpos dm = Ok (st', sigs) ->
  Forall2 (fun ds s => enum_ok env es0 st' (dm_id dm) ds s) (sorted_signals dm) sigs.
Proof.
  intros env es0 st mpos dm st' sigs Hn Hev Hc Hrv H. unfold import_message_signals in H.
  fold (sorted_signals dm) in H. rewrite (no_muxor_filter dm Hn) in H.
  destruct (existsb _ _); [discriminate|].
  apply (plain_signals_fold_enum env es0) in H; try assumption.
  destruct H as [_ [_ [new [Hs Hf]]]]. cbn [app] in Hs. subst sigs.
  clear - Hf. revert Hf. generalize 0 as i. generalize (sorted_signals dm) as l. intros l i. revert i new.
  induction l as [|ds r IH]; intros i new Hf; cbn [index_from] in Hf; inversion Hf; subst; constructor; auto.
  eapply IH; eauto.
Qed.

(* per message, through the fold over the messages *)
Definition msg_enum_ok (env : ienv) (es0 : list enum_def) (st : istate) (dm : dmessage) (m : message) : Prop :=
  no_muxor dm -> Forall2 (fun ds s => enum_ok env es0 st (dm_id dm) ds s) (sorted_signals dm) (m_signals m).

Lemma Forall2_impl : forall {A B} (R R' : A -> B -> Prop) l l', (forall a b, R a b -> R' a b) -> Forall2 R l l' -> Forall2 R' l l'.
Proof. intros A B R R' l l' H HF. induction HF; constructor; auto. Qed.

Lemma import_messages_enum : forall env es0 nodes dms st msgs st' msgs',
  fold_left (fun acc dm => do a <- acc; import_message env a nodes dm) dms (Ok (st, msgs)) = Ok (st', msgs') ->
  env_valid env (length es0) -> core_ext es0 st -> refs_valid st ->
  st_le st st' /\ exists new, msgs' = msgs ++ new /\ Forall2 (msg_enum_ok env es0 st') dms new.
Proof.
  intros env es0 nodes dms. induction dms as [|dm r IH]; intros st msgs st' msgs' H Hev Hc Hrv; cbn [fold_left] in H.
  - inversion H; subst. split; [apply st_le_refl|]. exists []. rewrite app_nil_r. split; constructor.
  - cbn [bind] in H.
    destruct (import_message env (st, msgs) nodes dm) as [[st1 msgs1]|w] eqn:E.
    2:{ rewrite fold_result_err in H by reflexivity. discriminate. }
    apply import_message_inv in E. destruct E as [m [sigs [Hm [Hh [Hsg [Hsig _]]]]]]. subst msgs1.
    assert (Hev1 : env_valid env (length (is_enums st))) by (apply (env_valid_mono env (length es0)); [apply Hc|exact Hev]).
    destruct (import_message_signals_evolves _ _ _ _ _ _ Hev1 Hrv Hsig) as [Hle Hrv1].
    destruct (IH st1 (msgs ++ [m]) st' msgs' H Hev (core_ext_mono _ _ _ Hle Hc) Hrv1) as [Hle2 [new [Hn Hall]]].
    split; [eapply st_le_trans; eauto|]. exists (m :: new). rewrite Hn, <- app_assoc. split; [reflexivity|].
    constructor; [|assumption]. intros Hno. rewrite Hsg.
    pose proof (import_message_signals_plain_enum env es0 st (length msgs) dm st1 sigs Hno Hev Hc Hrv Hsig) as Hp.
    eapply Forall2_impl; [|exact Hp]. intros ds s Hok. eapply enum_ok_mono; [exact Hle2|exact Hok].
Qed.

Lemma last_valenc_some_lookup : forall nreg ves es se es' se' k ei,
  fold_left (fun acc ve => do a <- acc; import_value_encoding nreg a ve) ves (Ok (es, se)) = Ok (es', se') ->
  se = [] -> lookup key_eqb k se' = Some ei ->
  exists v, last_valenc ves k = Some v /\ 0 <= ei < Z.of_nat (length es') /\ sorted_enum_values (nth_enum es' ei) = v.
Proof.
  intros nreg ves es se es' se' k ei H Hse Hl. subst se.
  destruct (valenc_fold_resolved _ _ _ _ _ _ H) as [_ Hr]. specialize (Hr k ei Hl).
  destruct (last_valenc ves k) as [v|]; [exists v; tauto|discriminate].
Qed.

Lemma doc_env_sig_enums : forall d se, ie_sig_enums (doc_env d se) = se.
Proof. intros d se. unfold doc_env. destruct (import_comments (d_comments d)) as [bd [[nd md] sd]]. reflexivity. Qed.

(* import_enum_faithful *)
Theorem import_enum_faithful : forall d b, import d = Ok b ->
  exists se : list (key * Z),
    (forall k, (exists e, lookup key_eqb k se = Some e) <-> has_valenc d k) /\
    Forall2 (fun dm m => no_muxor dm ->
      Forall2 (fun ds s =>
        forall ei0, lookup key_eqb (dm_id dm, ds_name ds) se = Some ei0 ->
          exists vals, last_valenc (d_valencs d) (dm_id dm, ds_name ds) = Some vals /\
            s_kind s = KEnum /\
            sorted_enum_values (nth_enum (b_enums b) (s_enum s)) = vals /\
            sig_size (b_enums b) s = ds_size ds)
        (sorted_signals dm) (m_signals m))
      (d_messages d) (b_messages b).
Proof.
  intros d b H. destruct (import_signal_faithful d b H) as [se0 [Hkeys Hfaith]]. apply import_inv in H.
  destruct H as [reg [es [se [nodes [st4 [msgs [b1 [_ [Hv [_ [Hm [Hb Hbb]]]]]]]]]]]].
  (* the two `se` are the same list: both come from the same fold; re-derive the faithful part for this se *)
  exists se. split.
  - intros k. rewrite lookup_some_in. rewrite (valenc_fold_keys _ _ _ _ _ _ Hv k). cbn [map In]. unfold has_valenc. tauto.
  - pose proof (env_valid_doc _ _ _ _ Hv) as Hev.
    assert (Hc : core_ext es (mkistate es [] [])) by (split; [cbn; lia|intros; reflexivity]).
    destruct (import_messages_enum _ es _ _ _ _ _ _ Hm Hev Hc ltac:(intros r [])) as [_ [new [Hn Hall]]].
    cbn [app] in Hn. subst new.
    pose proof (import_messages_fold_rel _ _ _ _ _ _ _ Hm) as [new2 [Hn2 Hf2]]. cbn [app] in Hn2. subst new2.
    apply import_attributes_skel in Hb. unfold bus_skel in Hb.
    cbn [b_name b_desc b_nodes b_enums b_messages] in Hb.
    assert (Hk : map msg_skel msgs = map msg_skel (b_messages b1)) by congruence.
    assert (He : b_enums b1 = is_enums st4) by congruence.
    assert (Hb' : b_messages b = b_messages b1 /\ b_enums b = b_enums b1) by (subst b; destruct (existsb _ _); split; reflexivity).
    destruct Hb' as [Hb1 Hb2]. rewrite Hb1, Hb2, He.
    clear - Hk Hall Hf2 Hv. revert Hk Hall Hf2. generalize (b_messages b1) as l1. generalize (d_messages d) as dms.
    induction msgs as [|m r IH]; intros dms l1 Hk Hall Hf2; destruct l1 as [|m1 r1]; try (cbn in Hk; discriminate Hk).
    + inversion Hall; subst. constructor.
    + inversion Hall as [|dm ? dr ? Hm1 Hr1]; subst. inversion Hf2 as [|? ? ? ? Hm2 Hr2]; subst.
      cbn [map] in Hk. apply cons_inj in Hk. destruct Hk as [Hs Hr].
      constructor; [|apply IH; assumption].
      intros Hno. specialize (Hm1 Hno). destruct Hm2 as [_ [_ Hm2]]. specialize (Hm2 Hno).
      assert (Hsk : map sig_skel (m_signals m) = map sig_skel (m_signals m1)).
      { apply (f_equal snd) in Hs. exact Hs. }
      clear - Hm1 Hm2 Hsk Hv. revert Hsk Hm1 Hm2. generalize (m_signals m1) as l1. generalize (sorted_signals dm) as dl.
      induction (m_signals m) as [|s q IHq]; intros dl l1 Hsk H1 H2; destruct l1 as [|s1 q1]; try (cbn in Hsk; discriminate Hsk).
      * inversion H1; subst. constructor.
      * inversion H1 as [|ds ? dq ? Hs1 Hq1]; subst. inversion H2 as [|? ? ? ? Hs2 Hq2]; subst.
        cbn [map] in Hsk. apply cons_inj in Hsk. destruct Hsk as [Hk1 Hkq].
        constructor; [|apply IHq; assumption].
        intros ei0 Hl. destruct (last_valenc_some_lookup _ _ _ _ _ _ _ _ Hv eq_refl Hl) as [v [Hlv [Hr Hvv]]].
        exists v. split; [exact Hlv|].
        assert (Hl' : lookup key_eqb (dm_id dm, ds_name ds) (ie_sig_enums (doc_env d se)) = Some ei0)
          by (rewrite doc_env_sig_enums; exact Hl).
        destruct (Hs1 ei0 Hl') as [_ [Hcore Hsize]].
        destruct Hs2 as [_ [_ [_ [_ [_ Hkind]]]]]. rewrite Hl' in Hkind.
        assert (Heq : s_kind s1 = s_kind s /\ s_enum s1 = s_enum s).
        { destruct s, s1. unfold sig_skel in Hk1. cbn in Hk1. inversion Hk1; subst. split; reflexivity. }
        destruct Heq as [K1 K2].
        split; [congruence|]. unfold sig_size. rewrite K1, K2, Hkind.
        split; [|exact Hsize].
        unfold sorted_enum_values in *. unfold enum_core in Hcore. inversion Hcore as [[Hn1 Hv1 Hm1]].
        rewrite Hv1. exact Hvv.
Qed.
