(* C10 — signal faithfulness as ONE statement: for every accepted document whose multiplexor switches have a
   non-negative size (the parser's sizes are unsigned), every signal of every message of the file - multiplexed or
   not, at any nesting depth - is present in the imported message with the file's name, at the file's ABSOLUTE
   position, with the file's size (the selector width for a switch), its comment; a switch is a multiplexer; a
   signal with a VAL_ line is an enum signal whose enum in the final table holds exactly the values of its last
   VAL_ line; any other signal is a standard signal with the file's sign, factor, offset, minimum, maximum, unit.
   A composition of the clause theorems (faithfulness per case of importMessage, absolute positions, enums at
   every depth, unique ids and names, every file signal represented). *)
From Coq Require Import String Ascii ZArith List Bool Lia.
From Coq Require Import ZifyBool.
From Acme.C10 Require Import DbcDoc BusModel Import Proofs ProofsEnum ProofsLayout ProofsFaithful ProofsMux ProofsExtMux ProofsIds
  ProofsEnumMux ProofsExtAbs ProofsAttrs ProofsAttrsAll ProofsAttrsSig ProofsDecodeMux ProofsGroups.
From Acme.C10 Require Import ProofsAttrsExact ProofsSigMap ProofsAttrsSigExact.
Import ListNotations.
Open Scope Z_scope.

Definition switch_sizes_ok (d : doc) : Prop :=
  forall dm ds, In dm (d_messages d) -> In ds (dm_signals dm) -> ds_muxor ds = true -> 0 <= ds_size ds.

Definition faithful_sig (d : doc) (b : bus) (se : list (key * Z)) (dm : dmessage) (m : message) (ds : dsignal) : Prop :=
  exists s, In s (m_signals m) /\ s_name s = ds_name ds /\
    abs_start (length (m_signals m)) (m_signals m) s = get_start_bit ds /\
    (match s_kind s with KMux => sel_width s | _ => sig_size (b_enums b) s end) = ds_size ds /\
    s_desc s = sig_comment (doc_env d se) (dm_id dm) (ds_name ds) /\
    (ds_muxor ds = true -> s_kind s = KMux) /\
    (ds_muxor ds = false -> has_valenc d (dm_id dm, ds_name ds) ->
       s_kind s = KEnum /\ exists vals, last_valenc (d_valencs d) (dm_id dm, ds_name ds) = Some vals /\
                                        sorted_enum_values (nth_enum (b_enums b) (s_enum s)) = vals) /\
    (ds_muxor ds = false -> ~ has_valenc d (dm_id dm, ds_name ds) ->
       s_kind s = KStandard /\ s_signed s = ds_signed ds /\ s_scale s = ds_factor ds /\
       s_offset s = ds_offset ds /\ s_min s = ds_min ds /\ s_max s = ds_max ds /\ s_unit s = ds_unit ds).

Lemma sig_comment_env : forall d se se' msgid name, sig_comment (doc_env d se) msgid name = sig_comment (doc_env d se') msgid name.
Proof. intros d se se' msgid name. unfold sig_comment, doc_env. destruct (import_comments (d_comments d)) as [bd [[nd md] sd]]. reflexivity. Qed.

(* what the faithfulness of the non-switch part of a signal gives, whichever valenc map the theorem was stated with *)
Lemma sig_faithful_data : forall d se ds s msgid,
  (forall k, (exists e, lookup key_eqb k se = Some e) <-> has_valenc d k) ->
  sig_faithful (doc_env d se) msgid ds s ->
  s_name s = ds_name ds /\ s_desc s = sig_comment (doc_env d se) msgid (ds_name ds) /\
  (has_valenc d (msgid, ds_name ds) -> s_kind s = KEnum) /\
  (~ has_valenc d (msgid, ds_name ds) ->
     s_kind s = KStandard /\ s_size s = ds_size ds /\ s_signed s = ds_signed ds /\ s_scale s = ds_factor ds /\
     s_offset s = ds_offset ds /\ s_min s = ds_min ds /\ s_max s = ds_max ds /\ s_unit s = ds_unit ds).
Proof.
  intros d se ds s msgid Hkeys [H1 [_ [_ [_ [H5 H6]]]]]. rewrite doc_env_sig_enums in H6.
  split; [exact H1|]. split; [exact H5|]. split.
  - intros Hv. apply Hkeys in Hv. destruct Hv as [e He]. rewrite He in H6. exact H6.
  - intros Hv. destruct (lookup key_eqb (msgid, ds_name ds) se) as [e|] eqn:El.
    + exfalso. apply Hv. apply Hkeys. eauto.
    + destruct H6 as [K1 [K2 [_ [K4 [K5 [K6 [K7 [K8 K9]]]]]]]]. auto 10.
Qed.

Theorem import_faithful_full : forall d b, switch_sizes_ok d -> import d = Ok b ->
  exists se, (forall k, (exists e, lookup key_eqb k se = Some e) <-> has_valenc d k) /\
    Forall2 (fun dm m => forall ds, In ds (dm_signals dm) -> faithful_sig d b se dm m ds) (d_messages d) (b_messages b).
Proof.
  intros d b Hsz H.
  destruct (import_signal_faithful d b H) as [se0 [Hk0 HA]].
  destruct (ProofsMux.import_simple_mux_faithful d b H) as [se1 [Hk1 HC]].
  destruct (ProofsExtMux.import_ext_mux_faithful d b H) as [se2 [Hk2 HD]].
  pose proof (import_simple_mux_abs d b H) as HSA.
  pose proof (import_ext_mux_abs d b H) as HEA.
  pose proof (import_enum_all_depths d b H) as HE.
  pose proof (import_names_ids_unique d b H) as HN.
  pose proof (import_represented d b H) as HR.
  exists se0. split; [exact Hk0|].
  assert (HIn : Forall2 (fun dm (m : message) => In dm (d_messages d)) (d_messages d) (b_messages b)).
  { assert (G : forall l (l' : list message), length l = length l' -> incl l (d_messages d) -> Forall2 (fun dm (m : message) => In dm (d_messages d)) l l').
    { induction l as [|x r IH]; intros [|y r'] Hl Hi; cbn in Hl; try discriminate; constructor; [apply Hi; left; reflexivity|].
      apply IH; [lia|intros z Hz; apply Hi; right; assumption]. }
    apply G; [eapply Forall2_len; exact HR|apply incl_refl]. }
  pose proof (Forall2_conj2 _ _ _ _ HA (Forall2_conj2 _ _ _ _ HC (Forall2_conj2 _ _ _ _ HD (Forall2_conj2 _ _ _ _ HSA
               (Forall2_conj2 _ _ _ _ HEA (Forall2_conj2 _ _ _ _ HE (Forall2_conj2 _ _ _ _ HN (Forall2_conj2 _ _ _ _ HR HIn)))))))) as HAll.
  eapply Forall2_imp2; [|exact HAll]. clear HA HC HD HSA HEA HE HN HR HIn HAll.
  intros dm m [HA [HC [HD [HSA [HEA [HE [HN [HR Hdm]]]]]]]] ds Hds.
  set (isigs := index_from 0 (sorted_signals dm)) in *.
  destruct HN as [Hnames [Hids Hsrc]].
  (* the index of the signal and its representative *)
  assert (Hex : exists id, In (id, ds) isigs).
  { assert (Hs : In ds (sorted_signals dm)) by (unfold sorted_signals; rewrite In_sort_by; assumption).
    rewrite <- (index_from_snd (sorted_signals dm) 0) in Hs. apply in_map_iff in Hs. destruct Hs as [[id ds'] [E Hp]]. cbn [snd] in E. subst ds'. eauto. }
  destruct Hex as [id Hin].
  destruct (HR id ds Hin) as [s [S1 [S2 S3]]].
  assert (Hsame : forall s', In s' (m_signals m) -> s_id s' = id -> s' = s)
    by (intros s' Hs' Hid; apply (NoDup_map_inj_l s_id (m_signals m)); try assumption; congruence).
  assert (Hsamen : forall s', In s' (m_signals m) -> s_name s' = ds_name ds -> s' = s)
    by (intros s' Hs' Hn; apply (NoDup_map_inj_l s_name (m_signals m)); try assumption; congruence).
  assert (Hszm : forall mid dmx, In (mid, dmx) (filter (fun p : Z * dsignal => ds_muxor (snd p)) isigs) -> 0 <= ds_size dmx).
  { intros mid dmx Hm. apply filter_In in Hm. destruct Hm as [Hm Hmx]. cbn [snd] in Hmx. apply (Hsz dm dmx Hdm); [|exact Hmx].
    assert (Hs : In dmx (sorted_signals dm)) by (rewrite <- (index_from_snd (sorted_signals dm) 0); apply in_map_iff; exists (mid, dmx); auto).
    unfold sorted_signals in Hs. rewrite In_sort_by in Hs. exact Hs. }
  (* position, kind of a switch, data of any other signal *)
  assert (Hcore : abs_start (length (m_signals m)) (m_signals m) s = get_start_bit ds /\
                  (ds_muxor ds = true -> s_kind s = KMux /\ sel_width s = ds_size ds /\ s_desc s = sig_comment (doc_env d se0) (dm_id dm) (ds_name ds)) /\
                  (ds_muxor ds = false -> exists se, (forall k, (exists e, lookup key_eqb k se = Some e) <-> has_valenc d k) /\
                                                     sig_faithful (doc_env d se) (dm_id dm) ds (place s (get_start_bit ds) None []))).
  { destruct (filter (fun p : Z * dsignal => ds_muxor (snd p)) isigs) as [|[mid dmx] [|q2 qr]] eqn:Emux.
    - (* no switch *)
      destruct HA as [_ [_ HA]]. specialize (HA (filter_nil_no_muxor dm Emux)).
      assert (Hs : In ds (sorted_signals dm)) by (unfold sorted_signals; rewrite In_sort_by; assumption).
      destruct (Forall2_in_l _ _ _ _ HA Hs) as [s' [Hs' Hf]].
      assert (s' = s) by (apply Hsamen; [assumption|destruct Hf as [F1 _]; exact F1]). subst s'.
      pose proof Hf as [_ [F2 [F3 _]]].
      split; [rewrite abs_start_top by assumption; exact F2|]. split.
      + intros Hm. exfalso. assert (Hx : In (id, ds) (filter (fun p : Z * dsignal => ds_muxor (snd p)) isigs)) by (apply filter_In; split; assumption). rewrite Emux in Hx. destruct Hx.
      + intros _. exists se0. split; [exact Hk0|]. unfold sig_faithful in *. cbn [s_name s_rel s_parent s_groups s_desc s_kind s_size s_signed s_scale s_offset s_min s_max s_unit place].
        destruct Hf as [G1 [G2 [G3 [G4 [G5 G6]]]]]. auto 10.
    - (* one switch *)
      assert (Hone : one_muxor dm mid dmx) by exact Emux.
      assert (Hmm : In (mid, dmx) [(mid, dmx)]) by (left; reflexivity).
      destruct (HSA mid dmx Hone (Hszm mid dmx Hmm) id ds Hin) as [s' [A1 [A2 [A3 [A4 A5]]]]].
      assert (s' = s) by (apply Hsame; assumption). subst s'.
      destruct (HC mid dmx Hone) as [[mx [M1 [M2 [M3 [M4 [_ [_ [_ [_ [_ [_ M11]]]]]]]]]]] Hall].
      split; [exact A4|]. split.
      + intros Hm. assert (Hmem : In (id, ds) [(mid, dmx)]) by (rewrite <- Emux; apply filter_In; split; assumption).
        destruct Hmem as [E|[]]. injection E as E1 E2. destruct (A5 (eq_sym E1)) as [K1 K2]. split; [exact K1|]. split; [exact K2|].
        assert (Hmxs : mx = s) by (apply Hsame; [assumption|congruence]). rewrite <- Hmxs, M11, E2. apply sig_comment_env.
      + intros Hm. assert (Hnm : id <> mid).
        { intros ->. assert (Hmx : In (mid, dmx) isigs) by (assert (Hx : In (mid, dmx) (filter (fun p : Z * dsignal => ds_muxor (snd p)) isigs)) by (rewrite Emux; left; reflexivity); apply filter_In in Hx; tauto).
          rewrite (isigs_fst_inj dm mid ds dmx Hin Hmx) in Hm.
          assert (Hx : In (mid, dmx) (filter (fun p : Z * dsignal => ds_muxor (snd p)) isigs)) by (rewrite Emux; left; reflexivity). apply filter_In in Hx. cbn [snd] in Hx. destruct Hx as [_ Hx]. congruence. }
        destruct (Hall id ds Hin Hnm) as [s' [T1 [T2 [T3 _]]]].
        assert (s' = s) by (apply Hsame; assumption). subst s'. exists se1. split; [exact Hk1|exact T3].
    - (* several switches *)
      assert (Hn : (2 <= length (filter (fun p : Z * dsignal => ds_muxor (snd p)) isigs))%nat) by (rewrite Emux; cbn; lia).
      rewrite <- Emux in *.
      destruct (HEA Hn Hszm id ds Hin) as [s' [A1 [A2 [A3 [A4 A5]]]]].
      assert (s' = s) by (apply Hsame; assumption). subst s'.
      unfold ext_mux_faithful in HD. cbv zeta in HD. fold isigs in HD. destruct (HD Hn) as [Hall Hmux].
      split; [exact A4|]. split.
      + intros Hm. destruct (A5 Hm) as [K1 K2]. split; [exact K1|]. split; [exact K2|].
        assert (Hmem : In (id, ds) (filter (fun p : Z * dsignal => ds_muxor (snd p)) isigs)) by (apply filter_In; split; assumption).
        apply (In_nth _ _ (0, mkdsignal EmptyString false false 0 0 0 LittleEndian false fl_one fl_zero fl_zero fl_zero EmptyString [])) in Hmem.
        destruct Hmem as [j [Hj Hnth]]. specialize (Hmux j Hj). unfold mux_placed in Hmux. rewrite Hnth in Hmux.
        destruct Hmux as [mx [M1 [[R1 [R2 [_ [_ [_ [_ R7]]]]]] _]]].
        assert (mx = s) by (apply Hsame; assumption). subst mx. rewrite R7. apply sig_comment_env.
      + intros Hm. destruct (Hall id ds Hin Hm) as [s' [T1 [T2 [T3 _]]]].
        assert (s' = s) by (apply Hsame; assumption). subst s'. exists se2. split; [exact Hk2|exact T3]. }
  destruct Hcore as [Habs [Hmuxk Hdata]].
  exists s. split; [exact S1|]. split; [exact S3|]. split; [exact Habs|].
  destruct (ds_muxor ds) eqn:Em.
  - destruct (Hmuxk eq_refl) as [K1 [K2 K3]]. rewrite K1. split; [exact K2|]. split; [exact K3|].
    split; [intros _; reflexivity|]. split; intros Hc; discriminate Hc.
  - destruct (Hdata eq_refl) as [se [Hk Hf]].
    destruct (sig_faithful_data d se ds _ (dm_id dm) Hk Hf) as [_ [D2 [D3 D4]]].
    cbn [s_desc s_kind s_size s_signed s_scale s_offset s_min s_max s_unit place] in D2, D3, D4.
    assert (Henum : s_kind s = KEnum -> exists vals, last_valenc (d_valencs d) (dm_id dm, ds_name ds) = Some vals /\
                       sorted_enum_values (nth_enum (b_enums b) (s_enum s)) = vals /\ sig_size (b_enums b) s = ds_size ds).
    { intros Hk'. destruct (HE s S1 Hk') as [ds' [vals [E1 [E2 [E3 [E4 E5]]]]]]. rewrite S2 in E1.
      assert (ds' = ds) by (apply (isigs_fst_inj dm id ds' ds); assumption). subst ds'. exists vals. auto. }
    assert (Hdec : has_valenc d (dm_id dm, ds_name ds) \/ ~ has_valenc d (dm_id dm, ds_name ds)).
    { destruct (lookup key_eqb (dm_id dm, ds_name ds) se) as [e|] eqn:El; [left; apply Hk; eauto|right; intros Hv; apply Hk in Hv; destruct Hv as [e He]; congruence]. }
    split.
    { destruct Hdec as [Hv|Hv].
      - rewrite (D3 Hv). destruct (Henum (D3 Hv)) as [vals [_ [_ E]]]. exact E.
      - destruct (D4 Hv) as [K1 [K2 _]]. rewrite K1. unfold sig_size. rewrite K1. exact K2. }
    split; [rewrite D2; apply sig_comment_env|]. split; [intros Hc; discriminate Hc|]. split.
    + intros _ Hv. split; [exact (D3 Hv)|]. destruct (Henum (D3 Hv)) as [vals [E1 [E2 _]]]. exists vals. auto.
    + intros _ Hv. destruct (D4 Hv) as [K1 [_ K3]]. split; [exact K1|exact K3].
Qed.

(* C10 as one statement: a successful import is a FAITHFUL and VALID model of the file *)
Theorem import_faithful_valid : forall d b, switch_sizes_ok d -> import d = Ok b ->
  (* faithful: nodes, message heads, every signal *)
  map n_name (b_nodes b) =
    filter not_dummy (d_nodes d) ++ (if existsb (fun dm => String.eqb (dm_tx dm) dummy_node) (d_messages d) then [dummy_node] else []) /\
  map msg_head (b_messages b) = map dmsg_head (d_messages d) /\
  (exists se, (forall k, (exists e, lookup key_eqb k se = Some e) <-> has_valenc d k) /\
     Forall2 (fun dm m => forall ds, In ds (dm_signals dm) -> faithful_sig d b se dm m ds) (d_messages d) (b_messages b)) /\
  (* valid: unique node names and CAN-IDs, sender and receivers resolved, sizes; signal names and ids unique at every depth;
     top-level layout and the layout inside every multiplexer *)
  NoDup (map n_name (b_nodes b)) /\ NoDup (map m_canid (b_messages b)) /\
  Forall (msg_valid (map n_name (b_nodes b))) (b_messages b) /\
  Forall2 (fun dm m => names_ids_ok dm (m_signals m)) (d_messages d) (b_messages b) /\
  Forall (fun m => tops_valid (b_enums b) (m_size m * 8) (m_signals m)) (b_messages b) /\
  Forall (fun m => ProofsGroups.groups_valid (b_enums b) (m_signals m)) (b_messages b).
Proof.
  intros d b Hsz H.
  destruct (import_valid d b H) as [V1 [V2 V3]].
  refine (conj (import_nodes_thm d b H) (conj (import_messages_heads d b H) (conj (import_faithful_full d b Hsz H)
          (conj V1 (conj V2 (conj V3 (conj (import_names_ids_unique d b H) (conj (ProofsLayout.import_layout_valid d b H) (ProofsGroups.import_group_layout_valid d b H))))))))).
Qed.

(* the hypothesis is satisfiable: the example document of Proofs.v (it has no multiplexor switch at all), and a
   document with a 2-bit switch *)
Example switch_sizes_ok_example : switch_sizes_ok example_doc.
Proof.
  intros dm ds Hdm Hds Hm. unfold example_doc in Hdm. cbn [d_messages] in Hdm.
  repeat (destruct Hdm as [<-|Hdm]; [cbn [dm_signals] in Hds; repeat (destruct Hds as [<-|Hds]; [cbn in Hm; discriminate Hm|]); destruct Hds|]). destruct Hdm.
Qed.

(* the hypothesis is needed: the model accepts a switch of size -1 (one group) and gives it the selector width 1 *)
Local Open Scope string_scope.
Definition neg_switch_doc : doc :=
  mkdoc "n.dbc" ["ECU"] []
    [ mkdmessage 256 "M" 2 "ECU"
        [ mkdsignal "sw" true false 0 (-1) 0 LittleEndian false fl_one fl_zero fl_zero fl_one "" ["Vector__XXX"] ] ]
    [] [] [] [] [] [].
Example negative_switch_size_accepted :
  exists b, import neg_switch_doc = Ok b /\
    map (fun m => map (fun s => (s_name s, s_kind s, sel_width s)) (m_signals m)) (b_messages b) = [[("sw", KMux, 1)]].
Proof. eexists. split; [vm_compute; reflexivity|]. vm_compute. reflexivity. Qed.
