(* C10 — layout validity INSIDE multiplexers, every message, every nesting depth: the children of one
   multiplexer that share a group (a fixed child shares every group) are pairwise disjoint, every child lies
   inside the group size of its multiplexer, and its group ids are below the group count.  Sizes are read in
   the FINAL enum table.  Together with ProofsLayout.import_layout_valid (top level). *)
From Coq Require Import String Ascii ZArith List Bool Lia Permutation.
From Coq Require Import ZifyBool.
From Acme.C10 Require Import DbcDoc BusModel Import Bits Proofs ProofsEnum ProofsLayout ProofsFaithful ProofsMux ProofsExtMux ProofsIds ProofsExtAbs.
Import ListNotations.
Open Scope Z_scope.

Definition nonoverlap (es : list enum_def) (x y : signal) : Prop :=
  overlaps (s_rel x) (s_rel x + sig_size es x) (s_rel y) (s_rel y + sig_size es y) = false.
Definition share (x y : signal) : Prop :=
  s_groups x = [] \/ s_groups y = [] \/ exists g, In g (s_groups x) /\ In g (s_groups y).

Lemma nonoverlap_sym : forall es x y, nonoverlap es x y -> nonoverlap es y x.
Proof. intros es x y H. unfold nonoverlap in *. rewrite overlaps_sym. exact H. Qed.
Lemma share_sym : forall x y, share x y -> share y x.
Proof. intros x y [H|[H|[g [H1 H2]]]]; [right; left; assumption|left; assumption|right; right; exists g; auto]. Qed.

(* a child relative to the data of its multiplexer *)
Definition kid_in (es : list enum_def) (gsize gcount : Z) (x : signal) : Prop :=
  0 <= s_rel x /\ s_rel x + sig_size es x <= gsize /\ forall g, In g (s_groups x) -> 0 <= g < gcount.

(* validity of a collection of signals given as a predicate: B lists the ids of the multiplexers built so far *)
Definition GV (es : list enum_def) (B : list Z) (mem : signal -> Prop) : Prop :=
  (forall x p, mem x -> s_parent x = Some p -> In p B) /\
  (forall x y p, mem x -> mem y -> s_id x <> s_id y -> s_parent x = Some p -> s_parent y = Some p -> share x y -> nonoverlap es x y) /\
  (forall x p, mem x -> s_parent x = Some p ->
     exists mx, mem mx /\ s_id mx = p /\ s_kind mx = KMux /\ kid_in es (s_gsize mx) (s_gcount mx) x).

Lemma GV_ext : forall es B (m1 m2 : signal -> Prop), (forall x, m1 x <-> m2 x) -> GV es B m1 -> GV es B m2.
Proof.
  intros es B m1 m2 He [G1 [G2 G3]]. split; [|split].
  - intros x p Hx. apply G1. apply He. assumption.
  - intros x y p Hx Hy. apply G2; apply He; assumption.
  - intros x p Hx Hp. destruct (G3 x p (proj2 (He x) Hx) Hp) as [mx [H1 H2]]. exists mx. split; [apply He; assumption|assumption].
Qed.

Lemma GV_flat : forall es (mem : signal -> Prop), (forall x, mem x -> s_parent x = None) -> GV es [] mem.
Proof.
  intros es mem H. split; [|split].
  - intros x p Hx Hp. rewrite (H x Hx) in Hp. discriminate.
  - intros x y p Hx _ _ Hp. rewrite (H x Hx) in Hp. discriminate.
  - intros x p Hx Hp. rewrite (H x Hx) in Hp. discriminate.
Qed.

(* ---------------- MultiplexerSignal.InsertSignal ---------------- *)
Lemma verify_fold : forall es mx kids size rel dg u,
  fold_left (fun acc g => do _ <- acc;
               if (g <? 0) || (g >=? s_gcount mx) then Err "group id out of bounds"%string
               else verify_insert es (s_gsize mx) (filter (fun k => in_group k g) kids) size rel) dg (Ok tt) = Ok u ->
  forall g, In g dg -> 0 <= g < s_gcount mx /\ verify_insert es (s_gsize mx) (filter (fun k => in_group k g) kids) size rel = Ok tt.
Proof.
  intros es mx kids size rel dg. induction dg as [|g0 r IH]; intros u H g Hg; [destruct Hg|]. cbn [fold_left bind] in H.
  destruct ((g0 <? 0) || (g0 >=? s_gcount mx)) eqn:Eb.
  { rewrite fold_result_err in H; [discriminate|intros x w; reflexivity]. }
  destruct (verify_insert es (s_gsize mx) (filter (fun k => in_group k g0) kids) size rel) as [[]|w] eqn:Ev.
  2:{ rewrite fold_result_err in H; [discriminate|intros x w'; reflexivity]. }
  destruct Hg as [<-|Hg]; [split; [lia|exact Ev]|]. apply (IH u H g Hg).
Qed.

Lemma dedup_z_in : forall l seen x, In x (dedup_z seen l) -> In x l.
Proof.
  induction l as [|y r IH]; intros seen x H; cbn [dedup_z] in H; [destruct H|].
  destruct (mem_z y seen); [right; eapply IH; eauto|]. destruct H as [<-|H]; [left; reflexivity|right; eapply IH; eauto].
Qed.
Lemma dedup_z_nonempty : forall g r, dedup_z [] (g :: r) <> [].
Proof. intros g r. cbn. discriminate. Qed.

Lemma mux_insert_valid : forall es mx kids c rel gids c',
  mux_insert es mx kids c rel gids = Ok c' ->
  c' = place c rel (Some (s_id mx)) (norm_groups gids) /\
  kid_in es (s_gsize mx) (s_gcount mx) c' /\
  forall k, In k kids -> share k c' -> nonoverlap es k c'.
Proof.
  intros es mx kids c rel gids c' H. pose proof (mux_insert_spec _ _ _ _ _ _ _ H) as Hc. split; [exact Hc|].
  unfold mux_insert in H. destruct (mem_str _ _); [discriminate|]. destruct gids as [|g0 gr].
  - apply bind_ok in H. destruct H as [[] [Hv _]]. apply verify_insert_inv in Hv. destruct Hv as [V1 [V2 V3]].
    subst c'. unfold kid_in, nonoverlap. cbn [s_rel s_groups place norm_groups]. rewrite sig_size_place.
    split; [split; [assumption|split; [assumption|intros g []]]|].
    intros k Hk _. rewrite overlaps_sym. apply V3. assumption.
  - apply bind_ok in H. destruct H as [u [Hf _]]. pose proof (verify_fold _ _ _ _ _ _ _ Hf) as HV.
    assert (Hne : dedup_z [] (g0 :: gr) <> []) by apply dedup_z_nonempty.
    destruct (dedup_z [] (g0 :: gr)) as [|d0 dr] eqn:Ed; [contradiction|]. rewrite <- Ed in *.
    assert (Hd0 : In d0 (dedup_z [] (g0 :: gr))) by (rewrite Ed; left; reflexivity).
    subst c'. unfold kid_in, nonoverlap. cbn [s_rel s_groups place norm_groups]. rewrite sig_size_place.
    destruct (HV d0 Hd0) as [_ Hv0]. apply verify_insert_inv in Hv0. destruct Hv0 as [V1 [V2 _]].
    split; [split; [assumption|split; [assumption|]]|].
    + intros g Hg. apply In_sort_by in Hg. apply (HV g Hg).
    + intros k Hk Hsh.
      assert (Hg : exists g, In g (dedup_z [] (g0 :: gr)) /\ in_group k g = true).
      { destruct Hsh as [Hk0|[Hc0|[g [G1 G2]]]].
        - exists d0. split; [assumption|]. unfold in_group. rewrite Hk0. reflexivity.
        - exfalso. cbn [s_groups place norm_groups] in Hc0.
          assert (Hin : In d0 (sort_by Z.ltb (dedup_z [] (g0 :: gr)))) by (apply In_sort_by; assumption).
          rewrite Hc0 in Hin. destruct Hin.
        - cbn [s_groups place norm_groups] in G2. apply In_sort_by in G2. exists g. split; [assumption|].
          unfold in_group. destruct (s_groups k) as [|a q] eqn:Ek; [reflexivity|]. unfold mem_z. apply existsb_exists. exists g. split; [assumption|apply Z.eqb_refl]. }
      destruct Hg as [g [Hg1 Hg2]]. destruct (HV g Hg1) as [_ Hv]. apply verify_insert_inv in Hv. destruct Hv as [_ [_ V3]].
      rewrite overlaps_sym. apply V3. apply filter_In. auto.
Qed.

Lemma app_cons_snoc : forall {A} (a : list A) x r, a ++ x :: r = (a ++ [x]) ++ r.
Proof. intros. rewrite <- app_assoc. reflexivity. Qed.

(* ---------------- the children of one multiplexer ---------------- *)
Definition in_items (x : signal) (l : list (subtree * dsignal)) : Prop :=
  exists it, In it l /\ (x = fst (fst it) \/ In x (snd (fst it))).

Lemma mux_children_valid : forall env es msgid mx mstart msize muxed kids belows,
  mux_children env es msgid mx mstart msize muxed = Ok (kids, belows) ->
  (forall x y, In x kids -> In y kids -> s_id x <> s_id y -> share x y -> nonoverlap es x y) /\
  (forall x, In x kids -> s_parent x = Some (s_id mx) /\ kid_in es (s_gsize mx) (s_gcount mx) x /\
             exists it rel g, In it muxed /\ x = place (fst (fst it)) rel (Some (s_id mx)) g) /\
  (forall it, In it muxed -> exists rel g, In (place (fst (fst it)) rel (Some (s_id mx)) g) kids) /\
  (forall x, In x belows <-> exists it, In it muxed /\ In x (snd (fst it))).
Proof.
  intros env es msgid mx mstart msize muxed kids belows H. unfold mux_children in H.
  set (PK := fun (l : list (subtree * dsignal)) (kids belows : list signal) =>
    (forall x y, In x kids -> In y kids -> s_id x <> s_id y -> share x y -> nonoverlap es x y) /\
    (forall x, In x kids -> s_parent x = Some (s_id mx) /\ kid_in es (s_gsize mx) (s_gcount mx) x /\
               exists it rel g, In it l /\ x = place (fst (fst it)) rel (Some (s_id mx)) g) /\
    (forall it, In it l -> exists rel g, In (place (fst (fst it)) rel (Some (s_id mx)) g) kids) /\
    (forall x, In x belows <-> exists it, In it l /\ In x (snd (fst it)))).
  assert (Hgen : forall l done k0 b0 k1 b1, PK done k0 b0 ->
            fold_left (fun acc (p : subtree * dsignal) =>
               do (kids, belows) <- acc;
               let rel := get_start_bit (snd p) - mstart - msize in
               do gids <- child_groups env msgid (s_gcount mx) (fst (fst p)) (snd p);
               do c <- mux_insert es mx kids (fst (fst p)) rel gids;
               Ok (kids ++ [c], belows ++ snd (fst p))) l (Ok (k0, b0)) = Ok (k1, b1) ->
            PK (done ++ l) k1 b1).
  { induction l as [|[[s below] ds] r IH]; intros done k0 b0 k1 b1 H0 Hfold; cbn [fold_left] in Hfold.
    - inversion Hfold; subst. rewrite app_nil_r. exact H0.
    - cbn [bind fst snd] in Hfold.
      destruct (child_groups env msgid (s_gcount mx) s ds) as [g|w]; cbn [bind] in Hfold.
      2:{ rewrite fold_result_err in Hfold; [discriminate|intros x w'; reflexivity]. }
      destruct (mux_insert es mx k0 s (get_start_bit ds - mstart - msize) g) as [c|w] eqn:Ec; cbn [bind] in Hfold.
      2:{ rewrite fold_result_err in Hfold; [discriminate|intros x w'; reflexivity]. }
      rewrite app_cons_snoc. apply (IH _ (k0 ++ [c]) (b0 ++ below) k1 b1); [|exact Hfold].
      destruct (mux_insert_valid _ _ _ _ _ _ _ Ec) as [Hc [Hkid Hno]]. destruct H0 as [P1 [P2 [P3 P4]]].
      assert (Hcid : s_id c = s_id s) by (rewrite Hc; reflexivity).
      split; [|split; [|split]].
      + intros x y Hx Hy Hne Hsh. apply in_app_or in Hx. apply in_app_or in Hy.
        destruct Hx as [Hx|[<-|[]]], Hy as [Hy|[<-|[]]].
        * apply P1; assumption.
        * apply Hno; assumption.
        * apply nonoverlap_sym. apply Hno; [assumption|apply share_sym; assumption].
        * exfalso. apply Hne. reflexivity.
      + intros x Hx. apply in_app_or in Hx. destruct Hx as [Hx|[<-|[]]].
        * destruct (P2 x Hx) as [Q1 [Q2 [it [rel [g' [Q3 Q4]]]]]]. split; [assumption|]. split; [assumption|].
          exists it, rel, g'. split; [apply in_or_app; left; assumption|assumption].
        * split; [rewrite Hc; reflexivity|]. split; [assumption|].
          exists (s, below, ds), (get_start_bit ds - mstart - msize), (norm_groups g). split; [apply in_or_app; right; left; reflexivity|exact Hc].
      + intros it Hit. apply in_app_or in Hit. destruct Hit as [Hit|[<-|[]]].
        * destruct (P3 it Hit) as [rel [g' Hin]]. exists rel, g'. apply in_or_app. left. assumption.
        * exists (get_start_bit ds - mstart - msize), (norm_groups g). apply in_or_app. right. left. cbn [fst]. exact Hc.
      + intros x. rewrite in_app_iff, P4. split.
        * intros [[it [H1 H2]]|Hx]; [exists it; split; [apply in_or_app; left; assumption|assumption]|].
          exists (s, below, ds). split; [apply in_or_app; right; left; reflexivity|exact Hx].
        * intros [it [H1 H2]]. apply in_app_or in H1. destruct H1 as [H1|[<-|[]]]; [left; exists it; auto|right; exact H2]. }
  apply (Hgen muxed [] [] [] kids belows); [|exact H].
  unfold PK. split; [intros x y []|]. split; [intros x []|]. split; [intros it []|].
  intros x. split; [intros []|intros [it [[] _]]].
Qed.

(* ---------------- building a multiplexer from the items pending for it ---------------- *)
Lemma mux_build_valid : forall env st mpos msgid msize id dmx muxed mx1 below st' B (L : signal -> Prop),
  import_mux_signal env st mpos msgid msize id dmx muxed = Ok ((mx1, below), st') ->
  GV (is_enums st) B (fun x => L x \/ in_items x muxed) -> ~ In id B ->
  forall root', (root' = mx1 \/ exists start, root' = place mx1 start None []) ->
  GV (is_enums st) (id :: B) (fun x => L x \/ x = root' \/ In x below) /\
  s_id mx1 = id /\ s_parent root' = None.
Proof.
  intros env st mpos msgid msize id dmx muxed mx1 below st' B L H [G1 [G2 G3]] HnB root' Hroot.
  unfold import_mux_signal in H.
  repeat match type of H with (if ?c then _ else _) = _ => destruct c; [discriminate|] end.
  apply bind_ok in H. destruct H as [[kids belows] [Hk H]]. inversion H; subst mx1 below st'. clear H. cbn [fst snd].
  set (es := is_enums st) in *.
  match type of Hk with mux_children _ _ _ ?m _ _ _ = _ => set (mx := m) in * end.
  destruct (mux_children_valid _ _ _ _ _ _ _ _ _ Hk) as [K1 [K2 [K3 K4]]].
  set (mx1 := match lookup key_eqb (msgid, ds_name dmx) (ie_sig_desc env) with Some d => set_desc mx d | None => mx end) in *.
  assert (Hmx1 : s_id mx1 = id /\ s_kind mx1 = KMux /\ s_gsize mx1 = s_gsize mx /\ s_gcount mx1 = s_gcount mx /\ s_parent mx1 = None)
    by (unfold mx1; destruct (lookup key_eqb _ (ie_sig_desc env)); cbn; auto).
  destruct Hmx1 as [M1 [M2 [M3 [M4 M5]]]].
  assert (Hr : s_id root' = id /\ s_kind root' = KMux /\ s_gsize root' = s_gsize mx /\ s_gcount root' = s_gcount mx /\ s_parent root' = None).
  { destruct Hroot as [->|[start ->]]; cbn [s_id s_kind s_gsize s_gcount s_parent place]; auto. }
  destruct Hr as [R1 [R2 [R3 [R4 R5]]]].
  assert (Hidmx : s_id mx = id) by reflexivity.
  split; [|split; [exact M1|exact R5]].
  (* classification of the new members *)
  assert (Hcls : forall x, (L x \/ x = root' \/ In x (kids ++ belows)) ->
            (x = root') \/ In x kids \/ ((L x \/ in_items x muxed) /\ True)).
  { intros x [Hx|[Hx|Hx]]; [right; right; split; [left; assumption|exact I]|left; assumption|].
    apply in_app_or in Hx. destruct Hx as [Hx|Hx]; [right; left; assumption|].
    right. right. split; [|exact I]. right. apply K4 in Hx. destruct Hx as [it [H1 H2]]. exists it. auto. }
  split; [|split].
  - intros x p Hx Hp. destruct (Hcls x Hx) as [->|[Hk'|[Ho _]]].
    + rewrite R5 in Hp. discriminate.
    + destruct (K2 x Hk') as [Q1 _]. rewrite Q1 in Hp. inversion Hp as [Hq]. left. reflexivity.
    + right. eapply G1; eauto.
  - intros x y p Hx Hy Hne Hpx Hpy Hsh. destruct (Hcls x Hx) as [->|[Hkx|[Hox _]]]; [rewrite R5 in Hpx; discriminate| |];
      destruct (Hcls y Hy) as [->|[Hky|[Hoy _]]]; try (rewrite R5 in Hpy; discriminate).
    + apply K1; assumption.
    + exfalso. destruct (K2 x Hkx) as [Q1 _]. rewrite Q1 in Hpx. inversion Hpx; subst p. apply HnB. apply (G1 y _ Hoy Hpy).
    + exfalso. destruct (K2 y Hky) as [Q1 _]. rewrite Q1 in Hpy. inversion Hpy; subst p. apply HnB. apply (G1 x _ Hox Hpx).
    + eapply G2; eauto.
  - intros x p Hx Hp. destruct (Hcls x Hx) as [->|[Hk'|[Ho _]]].
    + rewrite R5 in Hp. discriminate.
    + destruct (K2 x Hk') as [Q1 [Q2 _]]. rewrite Q1 in Hp. inversion Hp; subst p.
      exists root'. split; [right; left; reflexivity|]. split; [assumption|]. split; [assumption|]. rewrite R3, R4. exact Q2.
    + destruct (G3 x p Ho Hp) as [w [Hw [W1 [W2 W3]]]].
      destruct Hw as [Hw|[it [Hit [Hw|Hw]]]].
      * exists w. split; [left; assumption|auto].
      * (* the witness was the root of a consumed item: its placed version is among the children *)
        destruct (K3 it Hit) as [rel [g Hin]]. exists (place (fst (fst it)) rel (Some (s_id mx)) g).
        split; [right; right; apply in_or_app; left; assumption|]. subst w. cbn [s_id s_kind s_gsize s_gcount place]. auto.
      * exists w. split; [right; right; apply in_or_app; right; apply K4; exists it; auto|auto].
Qed.

(* ---------------- one message ---------------- *)
Lemma import_signal_parent : forall env st mpos msgid id ds s st',
  import_signal env st mpos msgid id ds = Ok (s, st') -> s_parent s = None.
Proof.
  intros env st mpos msgid id ds s st' H. unfold import_signal in H.
  apply bind_ok in H. destruct H as [[s0 st2] [H0 H]]. inversion H; subst s st'. clear H.
  assert (Hz : s_parent s0 = None).
  { destruct (lookup key_eqb (msgid, ds_name ds) (ie_sig_enums env)).
    - apply bind_ok in H0. destruct H0 as [[ei es1] [_ H0]]. inversion H0; subst. reflexivity.
    - apply bind_ok in H0. destruct H0 as [s1 [H1 H0]]. inversion H0; subst. unfold import_standard in H1.
      destruct (ds_size ds <=? 0); [discriminate|]. inversion H1; subst. reflexivity. }
  destruct (lookup key_eqb _ (ie_sig_desc env)); exact Hz.
Qed.

Definition flat_items (l : list (subtree * dsignal)) : Prop :=
  forall it, In it l -> s_parent (fst (fst it)) = None /\ snd (fst it) = [].

Lemma flat_items_snoc : forall l it, flat_items l -> s_parent (fst (fst it)) = None -> snd (fst it) = [] -> flat_items (l ++ [it]).
Proof. intros l it H H1 H2 x Hx. apply in_app_or in Hx. destruct Hx as [Hx|[<-|[]]]; [apply H; assumption|auto]. Qed.

Lemma in_items_flat : forall x l, flat_items l -> in_items x l -> s_parent x = None.
Proof. intros x l Hf [it [Hit [->|Hx]]]; destruct (Hf it Hit) as [H1 H2]; [assumption|rewrite H2 in Hx; destruct Hx]. Qed.

Lemma msg_insert_flat : forall es msize sigs s start sigs',
  (forall x, In x sigs -> s_parent x = None) -> msg_insert es msize sigs (s, []) start = Ok sigs' ->
  forall x, In x sigs' -> s_parent x = None.
Proof.
  intros es msize sigs s start sigs' Hs H x Hx. apply msg_insert_form in H. subst sigs'. cbn [fst snd app] in Hx.
  apply in_app_or in Hx. destruct Hx as [Hx|[<-|[]]]; [apply Hs; assumption|reflexivity].
Qed.

Definition live (m : nat) (sg : list signal) (groups : list (list (subtree * dsignal))) (x : signal) : Prop :=
  In x sg \/ exists k, (k < m)%nat /\ in_items x (nth k groups []).

Lemma nth_app_nth_in : forall {A} mi k (p it : A) groups, (mi < length groups)%nat ->
  (In it (nth k (app_nth mi p groups) []) <-> In it (nth k groups []) \/ (k = mi /\ it = p)).
Proof.
  intros A mi k p it groups Hl. unfold app_nth. destruct (Nat.eq_dec mi k) as [->|Hne].
  - rewrite replace_nth_same by assumption. rewrite in_app_iff. cbn [In]. intuition.
  - rewrite replace_nth_other by assumption. intuition. exfalso. apply Hne. symmetry. assumption.
Qed.

Lemma skipn_nth_cons : forall {A} (l : list A) j d, (j < length l)%nat -> skipn j l = nth j l d :: skipn (S j) l.
Proof.
  intros A l. induction l as [|x r IH]; intros j d Hj; [cbn in Hj; lia|]. destruct j; [reflexivity|]. cbn [skipn nth]. apply IH. cbn in Hj. lia.
Qed.

Lemma nth_not_in_skipn : forall {A B} (f : A -> B) (l : list A) j d, NoDup (map f l) -> (j < length l)%nat ->
  ~ In (f (nth j l d)) (map f (skipn (S j) l)).
Proof.
  intros A B f l. induction l as [|x r IH]; intros j d Hnd Hj; [cbn in Hj; lia|]. cbn [map] in Hnd. inversion Hnd as [|? ? Hni Hr]; subst.
  destruct j; cbn [nth skipn].
  - exact Hni.
  - apply IH; [assumption|cbn in Hj; lia].
Qed.

Theorem import_message_signals_groups : forall env st mpos dm st' sigs,
  import_message_signals env st mpos dm = Ok (st', sigs) ->
  exists B, GV (is_enums st') B (fun x => In x sigs).
Proof.
  intros env st mpos dm st' sigs H.
  unfold import_message_signals in H. cbv zeta in H. fold (sorted_signals dm) in H.
  set (isigs := index_from 0 (sorted_signals dm)) in *. set (msgid := dm_id dm) in *.
  destruct (filter (fun p : Z * dsignal => ds_muxor (snd p)) isigs) as [|[mid dmx] [|m2 mr]] eqn:Emux.
  - (* no switch: every signal is top level *)
    destruct (existsb _ _); [discriminate|]. exists []. apply GV_flat.
    assert (Pf : forall x, In x (snd (st', sigs)) -> s_parent x = None); [|exact Pf].
    revert H. apply (fold_result_inv_in _ (fun a => forall x, In x (snd a) -> s_parent x = None)); [intros [i x] w; reflexivity| |intros x []].
    intros [st0 sg] [id ds] [st2 sg2] Hin Pa Hx. cbn [bind fst snd] in *.
    destruct (import_signal env st0 mpos msgid id ds) as [[s st1]|w] eqn:E; cbn [bind] in Hx; [|discriminate].
    apply bind_ok in Hx. destruct Hx as [sg' [Hins Hx]]. inversion Hx; subst.
    eapply msg_insert_flat; eauto.
  - (* one switch *)
    destruct (ds_muxed dmx); [discriminate|].
    apply bind_ok in H. destruct H as [[[[st1 muxed] stds] last] [H1 H]].
    assert (P1 : flat_items muxed /\ flat_items stds).
    { assert (Pf : flat_items (snd (fst (fst (st1, muxed, stds, last)))) /\ flat_items (snd (fst (st1, muxed, stds, last)))); [|exact Pf].
      revert H1. apply (fold_result_inv_in _ (fun a => flat_items (snd (fst (fst a))) /\ flat_items (snd (fst a))));
        [intros [i x] w; reflexivity| |cbn [fst snd]; split; intros it []].
      intros [[[st0 mu] sd] la] [id ds] a' Hin [Pm Ps] Hx. cbn [bind fst snd] in *.
      destruct (id =? mid); [inversion Hx; subst; cbn [fst snd]; auto|].
      destruct (import_signal env st0 mpos msgid id ds) as [[s st2]|w] eqn:E; cbn [bind] in Hx; [|discriminate].
      pose proof (import_signal_parent _ _ _ _ _ _ _ _ E) as Hp.
      destruct (ds_muxed ds); inversion Hx; subst; cbn [fst snd]; split; try assumption; apply flat_items_snoc; auto. }
    destruct P1 as [Pm Ps].
    apply bind_ok in H. destruct H as [[[st2 sg] muxed2] [H2 H]].
    assert (P2 : ((forall x, In x sg -> s_parent x = None) /\ flat_items muxed2) /\ st2 = st1).
    { revert H2. revert Ps. generalize stds. intros l Ps.
      assert (G : forall l sg0 mu0 r, flat_items l -> (forall x, In x sg0 -> s_parent x = None) -> flat_items mu0 ->
                fold_left (fun acc (p : subtree * dsignal) => let '(t, ds) := p in
                    do (ms, muxed2) <- acc;
                    (let sp := get_start_bit ds in
                     if (sp >? get_start_bit dmx) && (sp <? last) then Ok (ms, muxed2 ++ [(t, ds)])
                     else do ms' <- (let '(st0, sigs0) := ms in
                                     do sigs' <- msg_insert (is_enums st0) (dm_size dm) sigs0 t sp; Ok (st0, sigs'));
                          Ok (ms', muxed2))) l (Ok ((st1, sg0), mu0)) = Ok r ->
                ((forall x, In x (snd (fst r)) -> s_parent x = None) /\ flat_items (snd r)) /\ fst (fst r) = st1).
      { induction l0 as [|[t ds] q IH]; intros sg0 mu0 r Hl Hlay Hmu Hf; cbn [fold_left] in Hf.
        - inversion Hf; subst. cbn. auto.
        - assert (Ht : s_parent (fst t) = None /\ snd t = []) by (apply (Hl (t, ds)); left; reflexivity).
          assert (Hq : flat_items q) by (intros it Hit; apply Hl; right; assumption).
          cbn [bind] in Hf.
          destruct ((get_start_bit ds >? get_start_bit dmx) && (get_start_bit ds <? last)).
          + eapply IH; [exact Hq|exact Hlay| |exact Hf]. apply flat_items_snoc; [assumption|apply Ht|apply Ht].
          + destruct (msg_insert (is_enums st1) (dm_size dm) sg0 t (get_start_bit ds)) as [sg'|w] eqn:Ei; cbn [bind] in Hf.
            * eapply IH; [exact Hq| |exact Hmu|exact Hf]. destruct t as [s bl]. destruct Ht as [_ Hbl]. cbn [snd] in Hbl. subst bl.
              eapply msg_insert_flat; eauto.
            * rewrite fold_result_err in Hf; [discriminate|intros [x y] w'; reflexivity]. }
      intros Hf. specialize (G l [] muxed _ Ps (fun x (F : In x []) => match F with end) Pm Hf). cbn [fst snd] in G. exact G. }
    destruct P2 as [[Play Pm2] ->].
    apply bind_ok in H. destruct H as [[[mx1 below] st3] [H3 H]].
    apply bind_ok in H. destruct H as [sg' [Hins H]]. inversion H; subst. clear H.
    pose proof (import_mux_signal_state _ _ _ _ _ _ _ _ _ _ H3) as [Hes _].
    apply msg_insert_form in Hins. cbn [fst snd] in Hins. subst sigs.
    exists [mid]. rewrite Hes.
    destruct (mux_build_valid env st1 mpos msgid (dm_size dm) mid dmx muxed2 mx1 below st' [] (fun x => In x sg) H3) with (root' := place mx1 (get_start_bit dmx) None []) as [GVn _].
    + apply GV_flat. intros x [Hx|Hx]; [apply Play; assumption|eapply in_items_flat; eauto].
    + intros [].
    + right. eexists. reflexivity.
    + eapply GV_ext; [|exact GVn]. intros x. cbn beta. rewrite !in_app_iff. cbn [In]. intuition.
  - (* several switches *)
    set (muxes := (mid, dmx) :: m2 :: mr) in *. set (n := length muxes) in *.
    set (dflt := (0, mkdsignal EmptyString false false 0 0 0 LittleEndian false fl_one fl_zero fl_zero fl_zero EmptyString [])) in *.
    assert (Hmnd : NoDup (map fst muxes)).
    { rewrite <- Emux. apply NoDup_map_fst_filter. apply index_from_fst_nodup. }
    apply bind_ok in H. destruct H as [[[st1 sg1] groups1] [H1 H]].
    assert (P1 : (forall x, In x sg1 -> s_parent x = None) /\ Forall flat_items groups1 /\ length groups1 = n).
    { assert (Pf : (forall x, In x (snd (fst (st1, sg1, groups1))) -> s_parent x = None) /\ Forall flat_items (snd (st1, sg1, groups1)) /\ length (snd (st1, sg1, groups1)) = n); [|exact Pf].
      revert H1. apply (fold_result_inv_in _ (fun a => (forall x, In x (snd (fst a)) -> s_parent x = None) /\ Forall flat_items (snd a) /\ length (snd a) = n));
        [intros [i x] w; reflexivity| |].
      2:{ cbn [fst snd]. split; [intros x []|]. split; [|apply repeat_length].
          apply Forall_forall. intros x Hx. apply repeat_spec in Hx. subst. intros it []. }
      intros [[st0 sg0] gr] [id ds] a' Hin [Pl [Pg Plen]] Hx. cbn [bind fst snd] in *.
      destruct (ds_muxor ds); [inversion Hx; subst; cbn [fst snd]; auto|].
      destruct (import_signal env st0 mpos msgid id ds) as [[s st2]|w] eqn:E; cbn [bind] in Hx; [|discriminate].
      pose proof (import_signal_parent _ _ _ _ _ _ _ _ E) as Hp.
      destruct (ds_muxed ds).
      - destruct (lookup key_eqb _ (ie_ext_muxes env)); [|discriminate].
        destruct (lookup String.eqb _ _) as [mi|]; [|discriminate]. inversion Hx; subst. cbn [fst snd].
        split; [assumption|]. split; [|rewrite app_nth_length; assumption].
        unfold app_nth. apply replace_nth_Forall; [assumption|]. apply flat_items_snoc; [|exact Hp|reflexivity].
        apply nth_Forall_default; [assumption|intros it []].
      - apply bind_ok in Hx. destruct Hx as [[st3 sg3] [Hy Hx]]. inversion Hx; subst. cbn [fst snd].
        apply bind_ok in Hy. destruct Hy as [sg' [Hins Hy]]. inversion Hy; subst.
        split; [|split; assumption]. eapply msg_insert_flat; eauto. }
    destruct P1 as [Q1 [Q2 Q3]].
    apply bind_ok in H. destruct H as [[[st2 sg2] groups2] [H2 H]]. inversion H; subst st2 sg2. clear H.
    set (es := is_enums st1).
    set (J := fun (m : nat) (a : mstate * list (list (subtree * dsignal))) =>
                length (snd a) = n /\ is_enums (fst (fst a)) = es /\ GV es (map fst (skipn m muxes)) (live m (snd (fst a)) (snd a))).
    match type of H2 with fold_left ?f _ _ = _ => set (step := f) in * end.
    assert (G : forall m, (m <= n)%nat -> forall a r, J m a -> fold_left step (rev (seq 0 m)) (Ok a) = Ok r -> J 0%nat r).
    { induction m as [|m IHm]; intros Hm a r Ja Hf.
      - cbn in Hf. inversion Hf; subst. exact Ja.
      - rewrite seq_S, rev_unit in Hf. cbn [plus fold_left] in Hf.
        destruct (step (Ok a) m) as [a1|w] eqn:Es.
        2:{ rewrite fold_result_err in Hf; [discriminate|intros x w'; reflexivity]. }
        apply (IHm ltac:(lia) a1 r); [|exact Hf]. clear Hf IHm.
        destruct a as [[st0 sg0] gr]. destruct Ja as [Jl [Je Jg]]. cbn [fst snd] in Jl, Je, Jg.
        unfold step in Es. cbn [bind fst snd] in Es.
        assert (Hmn : (m < length muxes)%nat) by (fold n; lia).
        fold dflt in Es. destruct (nth m muxes dflt) as [mid' dmx'] eqn:En.
        destruct (import_mux_signal env st0 mpos msgid (dm_size dm) mid' dmx' (nth m gr [])) as [[[mx1 below] st3]|w] eqn:Em; cbn [bind] in Es; [|discriminate].
        pose proof (import_mux_signal_state _ _ _ _ _ _ _ _ _ _ Em) as [Hes _].
        set (L := fun x => In x sg0 \/ exists k, (k < m)%nat /\ in_items x (nth k gr [])).
        assert (HB : map fst (skipn m muxes) = mid' :: map fst (skipn (S m) muxes)).
        { rewrite (skipn_nth_cons muxes m dflt Hmn), En. reflexivity. }
        assert (HnB : ~ In mid' (map fst (skipn (S m) muxes))).
        { pose proof (nth_not_in_skipn fst muxes m dflt Hmnd Hmn) as Hn. rewrite En in Hn. exact Hn. }
        assert (Hpre : GV (is_enums st0) (map fst (skipn (S m) muxes)) (fun x => L x \/ in_items x (nth m gr []))).
        { rewrite Je. eapply GV_ext; [|exact Jg]. intros x. unfold live, L. split.
          - intros [Hx|[k [Hk Hx]]]; [left; left; assumption|]. destruct (Nat.eq_dec k m) as [->|Hne]; [right; assumption|left; right; exists k; split; [lia|assumption]].
          - intros [[Hx|[k [Hk Hx]]]|Hx]; [left; assumption|right; exists k; split; [lia|assumption]|right; exists m; split; [lia|assumption]]. }
        destruct (lookup key_eqb (msgid, ds_name dmx') (ie_ext_muxes env)) as [em|].
        + destruct (lookup String.eqb _ _) as [mi|]; [|discriminate].
          destruct (Nat.leb m mi) eqn:Ele; [discriminate|]. apply Nat.leb_gt in Ele.
          inversion Es; subst a1. clear Es. unfold J. cbn [fst snd].
          split; [rewrite app_nth_length; assumption|]. split; [rewrite Hes; assumption|].
          destruct (mux_build_valid env st0 mpos msgid (dm_size dm) mid' dmx' (nth m gr []) mx1 below st3 _ L Em Hpre HnB mx1 (or_introl eq_refl)) as [GVn _].
          rewrite HB, <- Je. eapply GV_ext; [|exact GVn]. intros x. unfold live, L. split.
          * intros [[Hx|[k [Hk Hx]]]|[->|Hx]].
            -- left. assumption.
            -- right. exists k. split; [assumption|]. destruct Hx as [it [Hit Hx]]. exists it. split; [apply app_nth_keeps; assumption|assumption].
            -- right. exists mi. split; [assumption|]. exists ((mx1, below), dmx'). split; [apply app_nth_adds; lia|left; reflexivity].
            -- right. exists mi. split; [assumption|]. exists ((mx1, below), dmx'). split; [apply app_nth_adds; lia|right; exact Hx].
          * intros [Hx|[k [Hk [it [Hit Hx]]]]]; [left; left; assumption|].
            apply nth_app_nth_in in Hit; [|lia]. destruct Hit as [Hit|[_ ->]].
            -- left. right. exists k. split; [assumption|]. exists it. auto.
            -- cbn [fst snd] in Hx. right. exact Hx.
        + destruct (ds_muxed dmx'); [discriminate|].
          apply bind_ok in Es. destruct Es as [[st4 sg4] [Hy Es]]. inversion Es; subst a1. clear Es.
          apply bind_ok in Hy. destruct Hy as [sg' [Hins Hy]]. inversion Hy; subst st4 sg4. clear Hy.
          apply msg_insert_form in Hins. cbn [fst snd] in Hins. subst sg'. unfold J. cbn [fst snd].
          split; [assumption|]. split; [rewrite Hes; assumption|].
          destruct (mux_build_valid env st0 mpos msgid (dm_size dm) mid' dmx' (nth m gr []) mx1 below st3 _ L Em Hpre HnB
                      (place mx1 (get_start_bit dmx') None []) (or_intror (ex_intro _ _ eq_refl))) as [GVn _].
          rewrite HB, <- Je. eapply GV_ext; [|exact GVn]. intros x. unfold live, L. rewrite !in_app_iff. cbn [In]. intuition. }
    assert (J0 : J n (st1, sg1, groups1)).
    { unfold J. cbn [fst snd]. split; [assumption|]. split; [reflexivity|].
      replace (skipn n muxes) with (@nil (Z * dsignal)) by (symmetry; apply skipn_all). cbn [map]. apply GV_flat.
      intros x [Hx|[k [_ Hx]]]; [apply Q1; assumption|]. eapply in_items_flat; [|exact Hx].
      apply nth_Forall_default; [assumption|intros it []]. }
    destruct (G n (Nat.le_refl _) _ _ J0 H2) as [_ [Je Jg]]. cbn [fst snd] in Je, Jg.
    exists (map fst (skipn 0 muxes)). rewrite Je. eapply GV_ext; [|exact Jg].
    intros x. unfold live. split; [intros [Hx|[k [Hk _]]]; [assumption|lia]|intros Hx; left; assumption].
Qed.

(* ---------------- messages, the final enum table, the attribute phase ---------------- *)
Definition groups_valid (es : list enum_def) (sigs : list signal) : Prop :=
  (forall x y p, In x sigs -> In y sigs -> s_id x <> s_id y -> s_parent x = Some p -> s_parent y = Some p -> share x y -> nonoverlap es x y) /\
  (forall x p, In x sigs -> s_parent x = Some p ->
     exists mx, In mx sigs /\ s_id mx = p /\ s_kind mx = KMux /\ kid_in es (s_gsize mx) (s_gcount mx) x).

Lemma groups_valid_ext : forall es es' sigs, (forall s, In s sigs -> sig_size es' s = sig_size es s) ->
  groups_valid es sigs -> groups_valid es' sigs.
Proof.
  intros es es' sigs He [G1 G2]. split.
  - intros x y p Hx Hy Hne Hpx Hpy Hsh. specialize (G1 x y p Hx Hy Hne Hpx Hpy Hsh). unfold nonoverlap in *. rewrite !He by assumption. exact G1.
  - intros x p Hx Hp. destruct (G2 x p Hx Hp) as [mx [M1 [M2 [M3 [K1 [K2 K3]]]]]]. exists mx. split; [assumption|]. split; [assumption|]. split; [assumption|].
    unfold kid_in. rewrite He by assumption. auto.
Qed.

Lemma sig_size_skel : forall es s s', sig_skel s' = sig_skel s -> sig_size es s' = sig_size es s.
Proof. intros es s s' H. destruct s, s'. unfold sig_skel in H. cbn in H. inversion H; subst. reflexivity. Qed.

Lemma groups_valid_skel : forall es l l', map sig_skel l = map sig_skel l' -> groups_valid es l -> groups_valid es l'.
Proof.
  intros es l l' Hk [G1 G2]. pose proof Hk as Hk'. symmetry in Hk'.
  assert (Hback : forall x', In x' l' -> exists x, In x l /\ sig_skel x = sig_skel x') by (intros x' Hx'; apply (skel_in _ _ _ Hk' Hx')).
  assert (Hf : forall a b, sig_skel a = sig_skel b ->
            s_id a = s_id b /\ s_rel a = s_rel b /\ s_parent a = s_parent b /\ s_groups a = s_groups b /\ s_kind a = s_kind b /\
            s_gsize a = s_gsize b /\ s_gcount a = s_gcount b).
  { intros a b H. destruct a, b. unfold sig_skel in H. cbn in H. inversion H; subst. cbn. auto 10. }
  split.
  - intros x' y' p Hx' Hy' Hne Hpx Hpy Hsh. destruct (Hback x' Hx') as [x [Hx Ex]]. destruct (Hback y' Hy') as [y [Hy Ey]].
    destruct (Hf _ _ Ex) as [X1 [X2 [X3 [X4 _]]]]. destruct (Hf _ _ Ey) as [Y1 [Y2 [Y3 [Y4 _]]]].
    assert (Hn : nonoverlap es x y).
    { apply (G1 x y p Hx Hy); try congruence. unfold share in *. rewrite X4, Y4. exact Hsh. }
    unfold nonoverlap in *. rewrite <- X2, <- Y2, <- (sig_size_skel es x' x), <- (sig_size_skel es y' y) by (first [assumption|symmetry; assumption]). exact Hn.
  - intros x' p Hx' Hp. destruct (Hback x' Hx') as [x [Hx Ex]]. destruct (Hf _ _ Ex) as [X1 [X2 [X3 [X4 _]]]].
    destruct (G2 x p Hx ltac:(congruence)) as [mx [M0 [M1 [M2 [K1 [K2 K3]]]]]].
    destruct (skel_in _ _ _ Hk M0) as [mx' [M0' Em]]. destruct (Hf _ _ Em) as [Z1 [_ [_ [_ [Z5 [Z6 Z7]]]]]].
    exists mx'. split; [assumption|]. split; [congruence|]. split; [congruence|].
    unfold kid_in. rewrite Z6, Z7, <- X2, <- X4, <- (sig_size_skel es x' x) by (first [assumption|symmetry; assumption]). auto.
Qed.

Lemma import_messages_groups : forall env nodes dms st msgs st' msgs',
  fold_left (fun acc dm => do a <- acc; import_message env a nodes dm) dms (Ok (st, msgs)) = Ok (st', msgs') ->
  env_valid env (length (is_enums st)) -> refs_valid st ->
  msgs_lay st msgs -> Forall (fun m => groups_valid (is_enums st) (m_signals m)) msgs ->
  Forall (fun m => groups_valid (is_enums st') (m_signals m)) msgs'.
Proof.
  intros env nodes dms. induction dms as [|dm r IH]; intros st msgs st' msgs' H Hev Hrv Hl Hg; cbn [fold_left] in H.
  - inversion H; subst. assumption.
  - cbn [bind] in H.
    destruct (import_message env (st, msgs) nodes dm) as [[st1 msgs1]|w] eqn:E.
    2:{ rewrite fold_result_err in H by reflexivity. discriminate. }
    apply import_message_inv in E.
    destruct E as [m [sigs [Hm [Hh [Hsg [Hsig _]]]]]]. subst msgs1.
    pose proof (import_message_signals_evolves _ _ _ _ _ _ Hev Hrv Hsig) as [Hle Hrv1].
    pose proof (import_message_signals_lay _ _ _ _ _ _ Hev Hrv Hsig) as Hlay.
    destruct (import_message_signals_groups _ _ _ _ _ _ Hsig) as [B [_ [G2 G3]]].
    apply (IH st1 (msgs ++ [m]) st' msgs' H).
    + eapply env_valid_mono; [apply Hle|exact Hev].
    + exact Hrv1.
    + unfold msgs_lay. apply Forall_app. split.
      * eapply Forall_impl; [|exact Hl]. intros x Hx. eapply lay_inv_mono; eauto.
      * constructor; [|constructor]. unfold msg_head, dmsg_head in Hh. injection Hh as _ _ Hsz _ _ _.
        rewrite Hsz, Hsg. exact Hlay.
    + apply Forall_app. split.
      * unfold msgs_lay in Hl. rewrite Forall_forall in Hl, Hg. apply Forall_forall. intros x Hx.
        eapply groups_valid_ext; [|apply (Hg x Hx)]. intros s Hs. destruct (Hl x Hx) as [Hrefs _].
        apply sig_size_frozen; [assumption|apply Hrefs; assumption].
      * constructor; [|constructor]. rewrite Hsg. split; [exact G2|exact G3].
Qed.

Theorem import_group_layout_valid : forall d b, import d = Ok b ->
  Forall (fun m => groups_valid (b_enums b) (m_signals m)) (b_messages b).
Proof.
  intros d b H. apply import_inv in H.
  destruct H as [reg [es [se [nodes [st4 [msgs [b1 [_ [Hv [_ [Hm [Hb Hbb]]]]]]]]]]]].
  apply import_attributes_skel in Hb. unfold bus_skel in Hb.
  cbn [b_name b_desc b_nodes b_enums b_messages] in Hb.
  assert (Hk : map msg_skel msgs = map msg_skel (b_messages b1)) by congruence.
  assert (He : b_enums b1 = is_enums st4) by congruence.
  assert (Hb' : b_messages b = b_messages b1 /\ b_enums b = b_enums b1) by (subst b; destruct (existsb _ _); split; reflexivity).
  destruct Hb' as [Hb1 Hb2]. rewrite Hb1, Hb2, He.
  pose proof (env_valid_doc _ _ _ _ Hv) as Hev.
  pose proof (import_messages_groups _ _ _ _ _ _ _ Hm) as Hl. cbn [is_enums is_enum_refs] in Hl.
  specialize (Hl Hev (fun r (F : In r []) => match F with end) (Forall_nil _) (Forall_nil _)).
  clear - Hk Hl. revert Hk Hl. generalize (b_messages b1) as l1.
  induction msgs as [|m r IH]; intros l1 Hk Hl; destruct l1 as [|m1 r1]; try discriminate; [constructor|].
  cbn [map] in Hk. apply cons_inj in Hk. destruct Hk as [Hs Hr]. inversion Hl as [|? ? Hm Hrl]; subst.
  constructor; [|apply IH; assumption].
  unfold msg_skel in Hs. inversion Hs. eapply groups_valid_skel; [eassumption|exact Hm].
Qed.
