(* C10 — every imported message: the signal names are distinct at every depth
   (Message.verifyNestedSignalNames + the name registry), every imported signal carries the index and the
   name of a signal of the file, hence the signal ids are distinct.  Through the three cases of
   importMessage (no switch / one switch / several switches). *)
From Coq Require Import String Ascii ZArith List Bool Lia.
From Acme.C10 Require Import DbcDoc BusModel Import Proofs ProofsEnum ProofsLayout ProofsFaithful ProofsMux.
Import ListNotations.
Open Scope Z_scope.

Lemma fold_result_inv_in : forall {A B} (f : result A -> B -> result A) (P : A -> Prop),
  (forall x w, f (Err w) x = Err w) ->
  forall l, (forall a x a', In x l -> P a -> f (Ok a) x = Ok a' -> P a') ->
  forall a0 a, P a0 -> fold_left f l (Ok a0) = Ok a -> P a.
Proof.
  intros A B f P Herr l. induction l as [|x r IH]; intros Hstep a0 a H0 H; cbn in H.
  - inversion H; subst; assumption.
  - destruct (f (Ok a0) x) as [a1|w] eqn:E.
    + eapply IH; [|eapply Hstep; [left; reflexivity|exact H0|exact E]|exact H].
      intros b y b' Hy. apply Hstep. right. assumption.
    + rewrite fold_result_err in H by assumption. discriminate.
Qed.

Lemma dedup_str_len_le : forall l seen, (length (dedup_str seen l) <= length l)%nat.
Proof.
  induction l as [|x r IH]; intros seen; cbn [dedup_str length]; [lia|].
  destruct (mem_str x seen); cbn [length]; [specialize (IH seen)|specialize (IH (x :: seen))]; lia.
Qed.
Lemma dedup_str_full : forall l seen, length (dedup_str seen l) = length l ->
  NoDup l /\ forall x, In x l -> ~ In x seen.
Proof.
  induction l as [|x r IH]; intros seen H; cbn [dedup_str length] in H.
  - split; [constructor|intros x []].
  - destruct (mem_str x seen) eqn:E.
    + pose proof (dedup_str_len_le r seen). lia.
    + cbn [length] in H. assert (H' : length (dedup_str (x :: seen) r) = length r) by lia.
      destruct (IH _ H') as [Hnd Hns]. apply mem_str_false_not_in in E. split.
      * constructor; [|assumption]. intros Hin. apply (Hns x Hin). left. reflexivity.
      * intros y [<-|Hy]; [assumption|]. intros Hs. apply (Hns y Hy). right. assumption.
Qed.

Section OneMessage.
  Variable SRC : list (Z * string).
  Definition P (s : signal) : Prop := In (s_id s, s_name s) SRC.
  Definition tree_P (t : subtree) : Prop := P (fst t) /\ forall d, In d (snd t) -> P d.
  Definition sigs_inv (sigs : list signal) : Prop := (forall x, In x sigs -> P x) /\ NoDup (map s_name sigs).
  Definition pend (l : list (subtree * dsignal)) : Prop := Forall (fun p => tree_P (fst p)) l.

  Lemma P_place : forall s rel p g, P s -> P (place s rel p g).
  Proof. intros s rel p g H. exact H. Qed.

  Lemma msg_insert_src : forall es msize sigs t start sigs',
    sigs_inv sigs -> tree_P t -> msg_insert es msize sigs t start = Ok sigs' -> sigs_inv sigs'.
  Proof.
    intros es msize sigs [s below] start sigs' [I1 I2] [T1 T2] H. unfold msg_insert in H.
    destruct (mem_str (s_name s) (map s_name sigs)) eqn:E1; [discriminate|].
    destruct (existsb _ below) eqn:E2; [discriminate|].
    match type of H with (if ?c then _ else _) = _ => destruct c eqn:E3; [discriminate|] end.
    apply bind_ok in H. destruct H as [u [_ H]]. inversion H; subst sigs'. clear H.
    cbn [fst snd] in *. split.
    - intros x Hx. apply in_app_or in Hx. destruct Hx as [Hx|Hx]; [apply I1; assumption|].
      cbn [app] in Hx. destruct Hx as [<-|Hx]; [exact T1|apply T2; assumption].
    - apply negb_false_iff in E3. apply Nat.eqb_eq in E3. rewrite <- (map_length s_name (s :: below)) in E3.
      apply dedup_str_full in E3. destruct E3 as [Hnd _].
      rewrite map_app. cbn [app map]. change (s_name (place s start None [])) with (s_name s).
      apply mem_str_false_not_in in E1.
      assert (Hbelow : forall x, In x below -> ~ In (s_name x) (map s_name sigs)).
      { intros x Hx. apply mem_str_false_not_in.
        destruct (mem_str (s_name x) (map s_name sigs)) eqn:E; [|reflexivity].
        assert (existsb (fun x0 => mem_str (s_name x0) (map s_name sigs)) below = true)
          by (apply existsb_exists; exists x; auto). congruence. }
      clear - I2 Hnd E1 Hbelow. cbn [map] in Hnd.
      induction sigs as [|y r IH]; cbn [map app]; [exact Hnd|].
      cbn [map] in I2. inversion I2 as [|? ? Hy Hr]; subst. constructor.
      + intros Hin. apply in_app_or in Hin. destruct Hin as [Hin|[Hin|Hin]]; [contradiction| |].
        * apply E1. left. symmetry. assumption.
        * apply in_map_iff in Hin. destruct Hin as [x [Hx1 Hx2]]. apply (Hbelow x Hx2). left. symmetry. assumption.
      + apply IH; [assumption| |].
        * intros Hin. apply E1. right. assumption.
        * intros x Hx Hin. apply (Hbelow x Hx). right. assumption.
  Qed.

  Lemma import_signal_src : forall env st mpos msgid id ds s st',
    In (id, ds_name ds) SRC -> import_signal env st mpos msgid id ds = Ok (s, st') -> tree_P (s, []).
  Proof.
    intros env st mpos msgid id ds s st' Hin H. apply import_signal_spec in H. destruct H as [Hid [Hn _]].
    cbn [s_name place] in Hn. split; [|intros d []]. unfold P. cbn [fst]. rewrite Hid, Hn. assumption.
  Qed.

  Lemma mux_children_src : forall env es msgid mx mstart msize muxed kids belows,
    pend muxed -> mux_children env es msgid mx mstart msize muxed = Ok (kids, belows) ->
    forall d, In d (kids ++ belows) -> P d.
  Proof.
    intros env es msgid mx mstart msize muxed kids belows Hall H. unfold mux_children in H.
    assert (Hgen : forall l k0 b0 k1 b1, pend l -> (forall d, In d (k0 ++ b0) -> P d) ->
              fold_left (fun acc (p : subtree * dsignal) =>
                 do (kids, belows) <- acc;
                 let rel := get_start_bit (snd p) - mstart - msize in
                 do gids <- child_groups env msgid (s_gcount mx) (fst (fst p)) (snd p);
                 do c <- mux_insert es mx kids (fst (fst p)) rel gids;
                 Ok (kids ++ [c], belows ++ snd (fst p))) l (Ok (k0, b0)) = Ok (k1, b1) ->
              forall d, In d (k1 ++ b1) -> P d).
    { induction l as [|[[s below] ds] r IH]; intros k0 b0 k1 b1 Hf H0 Hfold; cbn [fold_left] in Hfold.
      - inversion Hfold; subst. exact H0.
      - cbn [bind fst snd] in Hfold. inversion Hf as [|? ? Hp Hr]; subst.
        destruct (child_groups env msgid (s_gcount mx) s ds) as [g|w]; cbn [bind] in Hfold.
        2:{ rewrite fold_result_err in Hfold; [discriminate|intros x w'; reflexivity]. }
        destruct (mux_insert es mx k0 s (get_start_bit ds - mstart - msize) g) as [c|w] eqn:Ec; cbn [bind] in Hfold.
        2:{ rewrite fold_result_err in Hfold; [discriminate|intros x w'; reflexivity]. }
        eapply IH; [exact Hr| |exact Hfold].
        apply mux_insert_form in Ec. destruct Ec as [g' ->]. destruct Hp as [P1 P2]. cbn [fst snd] in *.
        intros d Hd. apply in_app_or in Hd. destruct Hd as [Hd|Hd].
        + apply in_app_or in Hd. destruct Hd as [Hd|[<-|[]]]; [apply H0; apply in_or_app; left; assumption|exact P1].
        + apply in_app_or in Hd. destruct Hd as [Hd|Hd]; [apply H0; apply in_or_app; right; assumption|apply P2; assumption]. }
    eapply Hgen; [exact Hall| |exact H]. intros d [].
  Qed.

  Lemma import_mux_signal_src : forall env st mpos msgid msize id dm muxed t st',
    In (id, ds_name dm) SRC -> pend muxed ->
    import_mux_signal env st mpos msgid msize id dm muxed = Ok (t, st') -> tree_P t.
  Proof.
    intros env st mpos msgid msize id dm muxed t st' Hin Hall H. unfold import_mux_signal in H.
    repeat match type of H with (if ?c then _ else _) = _ => destruct c; [discriminate|] end.
    apply bind_ok in H. destruct H as [[kids belows] [Hk H]]. inversion H; subst t st'. clear H.
    split; cbn [fst snd].
    - unfold P. destruct (lookup key_eqb (msgid, ds_name dm) (ie_sig_desc env)); cbn [s_id s_name set_desc]; assumption.
    - intros d Hd. eapply mux_children_src; eauto.
  Qed.
End OneMessage.

Definition src_of (dm : dmessage) : list (Z * string) :=
  map (fun p => (fst p, ds_name (snd p))) (index_from 0 (sorted_signals dm)).

Lemma in_src : forall dm id ds, In (id, ds) (index_from 0 (sorted_signals dm)) -> In (id, ds_name ds) (src_of dm).
Proof. intros dm id ds H. unfold src_of. apply in_map_iff. exists (id, ds). auto. Qed.

Lemma pend_snoc : forall SRC l p, pend SRC l -> tree_P SRC (fst p) -> pend SRC (l ++ [p]).
Proof. intros SRC l p H Hp. apply Forall_app. split; [assumption|constructor; [assumption|constructor]]. Qed.
Lemma app_nth_pend : forall SRC n p groups, Forall (pend SRC) groups -> tree_P SRC (fst p) -> Forall (pend SRC) (app_nth n p groups).
Proof.
  intros SRC n p groups Hg Hp. unfold app_nth. apply replace_nth_Forall; [assumption|].
  apply pend_snoc; [|assumption]. apply nth_Forall_default; [assumption|constructor].
Qed.

Lemma import_message_signals_src : forall env st mpos dm st' sigs,
  import_message_signals env st mpos dm = Ok (st', sigs) -> sigs_inv (src_of dm) sigs.
Proof.
  intros env st mpos dm st' sigs H. set (SRC := src_of dm).
  assert (Hempty : sigs_inv SRC []) by (split; [intros x []|constructor]).
  unfold import_message_signals in H. cbv zeta in H. fold (sorted_signals dm) in H.
  set (isigs := index_from 0 (sorted_signals dm)) in *.
  assert (Hsrc : forall id ds, In (id, ds) isigs -> In (id, ds_name ds) SRC) by (intros; apply in_src; assumption).
  destruct (filter (fun p : Z * dsignal => ds_muxor (snd p)) isigs) as [|[mid dmx] [|m2 mr]] eqn:Emux.
  - destruct (existsb _ _); [discriminate|].
    assert (Pf : sigs_inv SRC (snd (st', sigs))); [|exact Pf].
    revert H. apply (fold_result_inv_in _ (fun a => sigs_inv SRC (snd a))); [intros [i x] w; reflexivity| |exact Hempty].
    intros [st0 sg] [id ds] [st2 sg2] Hin Pa Hx. cbn [bind fst snd] in *.
    destruct (import_signal env st0 mpos (dm_id dm) id ds) as [[s st1]|w] eqn:E; cbn [bind] in Hx; [|discriminate].
    apply bind_ok in Hx. destruct Hx as [sg' [Hins Hx]]. inversion Hx; subst.
    eapply msg_insert_src; [exact Pa| |exact Hins]. eapply import_signal_src; [apply Hsrc; exact Hin|exact E].
  - assert (Hmid : In (mid, dmx) isigs).
    { assert (Hf : In (mid, dmx) (filter (fun p : Z * dsignal => ds_muxor (snd p)) isigs)) by (rewrite Emux; left; reflexivity).
      apply filter_In in Hf. tauto. }
    destruct (ds_muxed dmx); [discriminate|].
    apply bind_ok in H. destruct H as [[[[st1 muxed] stds] last] [H1 H]].
    assert (P1 : pend SRC muxed /\ pend SRC stds).
    { assert (Pf : pend SRC (snd (fst (fst (st1, muxed, stds, last)))) /\ pend SRC (snd (fst (st1, muxed, stds, last)))); [|exact Pf].
      revert H1. apply (fold_result_inv_in _ (fun a => pend SRC (snd (fst (fst a))) /\ pend SRC (snd (fst a))));
        [intros [i x] w; reflexivity| |cbn [fst snd]; split; constructor].
      intros [[[st0 mu] sd] la] [id ds] a' Hin [Pm Ps] Hx. cbn [bind fst snd] in *.
      destruct (id =? mid); [inversion Hx; subst; cbn [fst snd]; auto|].
      destruct (import_signal env st0 mpos (dm_id dm) id ds) as [[s st2]|w] eqn:E; cbn [bind] in Hx; [|discriminate].
      pose proof (import_signal_src SRC _ _ _ _ _ _ _ _ (Hsrc _ _ Hin) E) as S3.
      destruct (ds_muxed ds); inversion Hx; subst; cbn [fst snd]; split; try assumption; apply pend_snoc; assumption. }
    destruct P1 as [Pm Ps].
    apply bind_ok in H. destruct H as [[[st2 sg] muxed2] [H2 H]].
    assert (P2 : sigs_inv SRC sg /\ pend SRC muxed2).
    { revert H2. revert Ps. generalize stds. intros l Ps.
      assert (G : forall l sg0 mu0 r, pend SRC l -> sigs_inv SRC sg0 -> pend SRC mu0 ->
                fold_left (fun acc (p : subtree * dsignal) => let '(t, ds) := p in
                    do (ms, muxed2) <- acc;
                    (let sp := get_start_bit ds in
                     if (sp >? get_start_bit dmx) && (sp <? last) then Ok (ms, muxed2 ++ [(t, ds)])
                     else do ms' <- (let '(st0, sigs0) := ms in
                                     do sigs' <- msg_insert (is_enums st0) (dm_size dm) sigs0 t sp; Ok (st0, sigs'));
                          Ok (ms', muxed2))) l (Ok ((st1, sg0), mu0)) = Ok r ->
                sigs_inv SRC (snd (fst r)) /\ pend SRC (snd r)).
      { induction l0 as [|[t ds] q IH]; intros sg0 mu0 r Hl Hlay Hmu Hf; cbn [fold_left] in Hf.
        - inversion Hf; subst. cbn. auto.
        - inversion Hl as [|? ? Ht Hq]; subst. cbn [bind] in Hf.
          destruct ((get_start_bit ds >? get_start_bit dmx) && (get_start_bit ds <? last)).
          + eapply IH; [exact Hq|exact Hlay| |exact Hf]. apply pend_snoc; assumption.
          + destruct (msg_insert (is_enums st1) (dm_size dm) sg0 t (get_start_bit ds)) as [sg'|w] eqn:Ei; cbn [bind] in Hf.
            * eapply IH; [exact Hq| |exact Hmu|exact Hf]. eapply msg_insert_src; eauto.
            * rewrite fold_result_err in Hf; [discriminate|intros [x y] w'; reflexivity]. }
      intros Hf. specialize (G l [] muxed _ Ps Hempty Pm Hf). cbn [fst snd] in G. exact G. }
    destruct P2 as [Play Pm2].
    apply bind_ok in H. destruct H as [[mt st3] [H3 H]].
    apply bind_ok in H. destruct H as [sg' [Hins H]]. inversion H; subst.
    eapply msg_insert_src; [exact Play| |exact Hins].
    eapply import_mux_signal_src; [apply Hsrc; exact Hmid|exact Pm2|exact H3].
  - set (muxes := (mid, dmx) :: m2 :: mr) in *.
    assert (Hmuxes : forall j, (j < length muxes)%nat -> In (nth j muxes (0, mkdsignal EmptyString false false 0 0 0 LittleEndian false
                                                          fl_one fl_zero fl_zero fl_zero EmptyString [])) isigs).
    { intros j Hj. assert (Hf : In (nth j muxes (0, mkdsignal EmptyString false false 0 0 0 LittleEndian false
                                                          fl_one fl_zero fl_zero fl_zero EmptyString []))
                                   (filter (fun p : Z * dsignal => ds_muxor (snd p)) isigs)) by (rewrite Emux; apply nth_In; assumption).
      apply filter_In in Hf. tauto. }
    apply bind_ok in H. destruct H as [[[st1 sg1] groups1] [H1 H]].
    assert (P1 : sigs_inv SRC sg1 /\ Forall (pend SRC) groups1).
    { assert (Pf : sigs_inv SRC (snd (fst (st1, sg1, groups1))) /\ Forall (pend SRC) (snd (st1, sg1, groups1))); [|exact Pf].
      revert H1. apply (fold_result_inv_in _ (fun a => sigs_inv SRC (snd (fst a)) /\ Forall (pend SRC) (snd a)));
        [intros [i x] w; reflexivity| |].
      2:{ cbn [fst snd]. split; [apply Hempty|]. apply Forall_forall. intros x Hx. apply repeat_spec in Hx. subst. constructor. }
      intros [[st0 sg0] gr] [id ds] a' Hin [Pl Pg] Hx. cbn [bind fst snd] in *.
      destruct (ds_muxor ds); [inversion Hx; subst; cbn [fst snd]; auto|].
      destruct (import_signal env st0 mpos (dm_id dm) id ds) as [[s st2]|w] eqn:E; cbn [bind] in Hx; [|discriminate].
      pose proof (import_signal_src SRC _ _ _ _ _ _ _ _ (Hsrc _ _ Hin) E) as S3.
      destruct (ds_muxed ds).
      - destruct (lookup key_eqb _ (ie_ext_muxes env)); [|discriminate].
        destruct (lookup String.eqb _ _); [|discriminate]. inversion Hx; subst. cbn [fst snd].
        split; [assumption|]. apply app_nth_pend; assumption.
      - apply bind_ok in Hx. destruct Hx as [[st3 sg3] [Hy Hx]]. inversion Hx; subst. cbn [fst snd].
        apply bind_ok in Hy. destruct Hy as [sg' [Hins Hy]]. inversion Hy; subst.
        split; [|assumption]. eapply msg_insert_src; eauto. }
    apply bind_ok in H. destruct H as [[[st2 sg2] groups2] [H2 H]]. inversion H; subst. clear H.
    assert (P2 : sigs_inv SRC (snd (fst (st', sigs, groups2))) /\ Forall (pend SRC) (snd (st', sigs, groups2))); [|exact (proj1 P2)].
    revert H2. apply (fold_result_inv_in _ (fun a => sigs_inv SRC (snd (fst a)) /\ Forall (pend SRC) (snd a)));
      [intros x w; reflexivity| |exact P1].
    intros [[st0 sg0] gr] j a' Hj [Pl Pg] Hx. cbn [bind fst snd] in *.
    assert (Hjl : (j < length muxes)%nat) by (apply in_rev in Hj; apply in_seq in Hj; lia).
    specialize (Hmuxes j Hjl).
    destruct (nth j muxes _) as [mid' dmx'].
    destruct (import_mux_signal env st0 mpos (dm_id dm) (dm_size dm) mid' dmx' (nth j gr [])) as [[mt st3]|w] eqn:E; cbn [bind] in Hx; [|discriminate].
    assert (Pj : pend SRC (nth j gr [])) by (apply nth_Forall_default; [assumption|constructor]).
    pose proof (import_mux_signal_src SRC _ _ _ _ _ _ _ _ _ _ (Hsrc _ _ Hmuxes) Pj E) as S3.
    destruct (lookup key_eqb _ (ie_ext_muxes env)).
    + destruct (lookup String.eqb _ _); [|discriminate]. destruct (Nat.leb j n); [discriminate|].
      inversion Hx; subst. cbn [fst snd]. split; [assumption|]. apply app_nth_pend; assumption.
    + destruct (ds_muxed dmx'); [discriminate|].
      apply bind_ok in Hx. destruct Hx as [[st4 sg4] [Hy Hx]]. inversion Hx; subst. cbn [fst snd].
      apply bind_ok in Hy. destruct Hy as [sg' [Hins Hy]]. inversion Hy; subst.
      split; [|assumption]. eapply msg_insert_src; eauto.
Qed.

(* ---------------- ids ---------------- *)
Lemma index_from_ge : forall {A} (l : list A) k j w, In (j, w) (index_from k l) -> k <= j.
Proof.
  intros A l. induction l as [|z q IH]; intros k j w H; [destruct H|]. cbn [index_from] in H.
  destruct H as [H|H]; [inversion H; lia|]. apply IH in H. lia.
Qed.
Lemma index_from_fst_nodup : forall {A} (l : list A) i, NoDup (map fst (index_from i l)).
Proof.
  intros A l. induction l as [|x r IH]; intros i; cbn [index_from map]; [constructor|]. constructor; [|apply IH].
  intros Hin. apply in_map_iff in Hin. destruct Hin as [[j y] [Hj Hin]]. cbn [fst] in Hj. subst j.
  apply index_from_ge in Hin. lia.
Qed.

Lemma src_functional : forall dm id n1 n2, In (id, n1) (src_of dm) -> In (id, n2) (src_of dm) -> n1 = n2.
Proof.
  intros dm id n1 n2 H1 H2. unfold src_of in *. pose proof (index_from_fst_nodup (sorted_signals dm) 0) as Hnd.
  induction (index_from 0 (sorted_signals dm)) as [|[j ds] r IH]; [destruct H1|].
  cbn [map fst] in *. inversion Hnd as [|? ? Hni Hr]; subst.
  destruct H1 as [H1|H1], H2 as [H2|H2].
  - congruence.
  - inversion H1; subst. exfalso. apply Hni. apply in_map_iff in H2. destruct H2 as [p [E Hin]].
    apply in_map_iff. exists p. split; [apply (f_equal fst) in E; exact E|assumption].
  - inversion H2; subst. exfalso. apply Hni. apply in_map_iff in H1. destruct H1 as [p [E Hin]].
    apply in_map_iff. exists p. split; [apply (f_equal fst) in E; exact E|assumption].
  - apply IH; assumption.
Qed.

Lemma ids_nodup : forall dm sigs, sigs_inv (src_of dm) sigs -> NoDup (map s_id sigs).
Proof.
  intros dm sigs [HP Hnd]. induction sigs as [|x r IH]; cbn [map]; [constructor|].
  cbn [map] in Hnd. inversion Hnd as [|? ? Hni Hr]; subst. constructor.
  - intros Hin. apply in_map_iff in Hin. destruct Hin as [y [Hy Hin]]. apply Hni.
    assert (s_name y = s_name x).
    { eapply src_functional; [apply (HP y); right; assumption|]. rewrite Hy. apply (HP x). left. reflexivity. }
    rewrite <- H. apply in_map. assumption.
  - apply IH; [|assumption]. intros y Hy. apply HP. right. assumption.
Qed.

Lemma skel_names_ids : forall l l', map sig_skel l = map sig_skel l' -> map s_name l = map s_name l' /\ map s_id l = map s_id l'.
Proof.
  induction l as [|x r IH]; intros [|y r'] H; cbn [map] in H; try discriminate; [split; reflexivity|].
  apply cons_inj in H. destruct H as [Hs Hr]. destruct (IH _ Hr) as [I1 I2].
  destruct x, y. unfold sig_skel in Hs. cbn in Hs. inversion Hs; subst. cbn [map s_name s_id]. rewrite I1, I2. split; reflexivity.
Qed.

Definition names_ids_ok (dm : dmessage) (sigs : list signal) : Prop :=
  NoDup (map s_name sigs) /\ NoDup (map s_id sigs) /\
  forall s, In s sigs -> exists ds, In (s_id s, ds) (index_from 0 (sorted_signals dm)) /\ s_name s = ds_name ds.

Theorem import_names_ids_unique : forall d b, import d = Ok b ->
  Forall2 (fun dm m => names_ids_ok dm (m_signals m)) (d_messages d) (b_messages b).
Proof.
  intros d b H.
  destruct (import_per_message (fun _ dm sigs => names_ids_ok dm sigs)) with (d := d) (b := b) as [se [_ HF]]; [| |assumption|exact HF].
  - intros env st mpos dm st' sigs Hi. apply import_message_signals_src in Hi. pose proof (ids_nodup _ _ Hi) as Hids.
    destruct Hi as [HP Hnd]. split; [assumption|]. split; [assumption|].
    intros s Hs. specialize (HP s Hs). unfold P, src_of in HP. apply in_map_iff in HP. destruct HP as [[j ds] [E Hin]].
    exists ds. split; [apply (f_equal fst) in E; cbn [fst] in E; rewrite <- E; exact Hin|apply (f_equal snd) in E; cbn [snd] in E; symmetry; exact E].
  - intros env dm l l' Hk [H1 [H2 H3]]. destruct (skel_names_ids _ _ Hk) as [E1 E2]. split; [rewrite <- E1; assumption|].
    split; [rewrite <- E2; assumption|]. intros s' Hs'. symmetry in Hk. destruct (skel_in _ _ _ Hk Hs') as [s [Hs Hsk]].
    destruct (H3 s Hs) as [ds [D1 D2]]. exists ds.
    destruct s, s'. unfold sig_skel in Hsk. cbn in Hsk. inversion Hsk; subst. cbn in *. auto.
Qed.

(* ---------------- absolute positions and selector width in messages with one multiplexor switch ---------------- *)
Lemma find_sig_unique : forall sigs mx, NoDup (map s_id sigs) -> In mx sigs -> find_sig sigs (s_id mx) = Some mx.
Proof.
  unfold find_sig. induction sigs as [|x r IH]; intros mx Hnd Hin; [destruct Hin|]. cbn [find map] in *.
  inversion Hnd as [|? ? Hni Hr]; subst. destruct Hin as [->|Hin].
  - rewrite Z.eqb_refl. reflexivity.
  - destruct (s_id x =? s_id mx) eqn:E; [|apply IH; assumption].
    apply Z.eqb_eq in E. exfalso. apply Hni. rewrite E. apply in_map. assumption.
Qed.

Lemma abs_start_top : forall fuel sigs s, s_parent s = None -> abs_start fuel sigs s = s_rel s.
Proof. intros fuel sigs s H. destruct fuel; cbn; rewrite H; reflexivity. Qed.

Lemma calc_size_sel : forall m, 0 < m < 63 -> calc_size_from_value (2 ^ m - 1) = m.
Proof.
  intros m H.
  assert (E : 2 ^ m = 2 * 2 ^ (m - 1)) by (replace m with (Z.succ (m - 1)) at 1 by lia; apply Z.pow_succ_r; lia).
  assert (Hpos : 0 < 2 ^ (m - 1)) by (apply Z.pow_pos_nonneg; lia).
  assert (Hp : 2 ^ (m - 1) <= 2 ^ m - 1 < 2 ^ m) by lia.
  unfold calc_size_from_value.
  assert (H63 : 2 ^ m <= 2 ^ 62) by (apply Z.pow_le_mono_r; lia).
  replace (2 ^ m - 1 =? 0) with false by lia. replace (2 ^ m - 1 <? 0) with false by lia.
  replace (2 ^ m - 1 <? 2 ^ 63) with true by lia.
  assert (Hl : Z.log2 (2 ^ m - 1) = m - 1).
  { apply Z.log2_unique; [lia|]. replace (Z.succ (m - 1)) with m by lia. exact Hp. }
  rewrite Hl. lia.
Qed.

Lemma switch_width : forall m, 0 <= m -> m <> 0 -> 0 < calc_value_from_size m ->
  calc_size_from_value (calc_value_from_size m - 1) = m.
Proof.
  intros m H0 Hne Hg. unfold calc_value_from_size in *.
  destruct (m <=? 0) eqn:E0; [lia|]. destruct (m <? 63) eqn:E1.
  - apply calc_size_sel. lia.
  - destruct (m =? 63); lia.
Qed.

Definition simple_mux_abs (dm : dmessage) (sigs : list signal) : Prop :=
  forall mid dmx, one_muxor dm mid dmx -> 0 <= ds_size dmx ->
  forall id ds, In (id, ds) (index_from 0 (sorted_signals dm)) ->
    exists s, In s sigs /\ s_id s = id /\ s_name s = ds_name ds /\
              abs_start (length sigs) sigs s = get_start_bit ds /\
              (id = mid -> s_kind s = KMux /\ sel_width s = ds_size ds).

Lemma simple_mux_abs_of : forall env dm sigs,
  simple_mux_faithful env dm sigs -> names_ids_ok dm sigs -> simple_mux_abs dm sigs.
Proof.
  intros env dm sigs HF [_ [Hids _]] mid dmx Hone Hsz id ds Hin.
  destruct (HF mid dmx Hone) as [[mx [Hmx [Hid [Hnm [Hk [Hp [Hrel [Hgc [Hne [Hgpos _]]]]]]]]]] Hall].
  assert (Hw : sel_width mx = ds_size dmx).
  { unfold sel_width. rewrite Hgc. apply switch_width; [assumption|assumption|rewrite <- Hgc; assumption]. }
  destruct (Z.eq_dec id mid) as [->|Hneq].
  - (* the switch itself *)
    assert (ds = dmx).
    { unfold one_muxor in Hone.
      assert (Hf : In (mid, dmx) (filter (fun p : Z * dsignal => ds_muxor (snd p)) (index_from 0 (sorted_signals dm))))
        by (rewrite Hone; left; reflexivity).
      apply filter_In in Hf. destruct Hf as [Hf _].
      pose proof (index_from_fst_nodup (sorted_signals dm) 0) as Hnd.
      clear - Hin Hf Hnd. induction (index_from 0 (sorted_signals dm)) as [|[j d] r IH]; [destruct Hin|].
      cbn [map fst] in Hnd. inversion Hnd as [|? ? Hni Hr]; subst.
      destruct Hin as [Hin|Hin], Hf as [Hf|Hf].
      - congruence.
      - inversion Hin; subst. exfalso. apply Hni. apply (in_map fst) in Hf. exact Hf.
      - inversion Hf; subst. exfalso. apply Hni. apply (in_map fst) in Hin. exact Hin.
      - apply IH; assumption. }
    subst ds. exists mx. split; [assumption|]. split; [assumption|]. split; [assumption|].
    split; [rewrite abs_start_top by assumption; assumption|]. intros _. split; assumption.
  - destruct (Hall id ds Hin Hneq) as [s [Hs [Hsid [Hb Hpos]]]].
    exists s. split; [assumption|]. split; [assumption|].
    destruct Hb as [Hbn _]. cbn [s_name place] in Hbn. split; [assumption|].
    split; [|intros Hc; contradiction].
    destruct Hpos as [[_ [Hsp Hsr]]|[Hsp [Hsr _]]].
    + rewrite abs_start_top by assumption. assumption.
    + destruct sigs as [|x r] eqn:Es; [destruct Hs|]. rewrite <- Es in *. 
      assert (Hlen : length sigs = S (length r)) by (rewrite Es; reflexivity). rewrite Hlen.
      cbn [abs_start]. rewrite Hsp. rewrite <- Hid. rewrite (find_sig_unique sigs mx Hids Hmx).
      rewrite abs_start_top by assumption. rewrite Hw, Hrel, Hsr. lia.
Qed.

Theorem import_simple_mux_abs : forall d b, import d = Ok b ->
  Forall2 (fun dm m => simple_mux_abs dm (m_signals m)) (d_messages d) (b_messages b).
Proof.
  intros d b H.
  destruct (import_per_message (fun env dm sigs => simple_mux_faithful env dm sigs /\ names_ids_ok dm sigs)) with (d := d) (b := b)
    as [se [_ HF]]; [| |assumption|].
  - intros env st mpos dm st' sigs Hi. split.
    + intros mid dmx Hone. eapply import_simple_mux; eauto.
    + pose proof (import_message_signals_src _ _ _ _ _ _ Hi) as Hs. pose proof (ids_nodup _ _ Hs) as Hids.
      destruct Hs as [HP Hnd]. split; [assumption|]. split; [assumption|].
      intros s Hs. specialize (HP s Hs). unfold P, src_of in HP. apply in_map_iff in HP. destruct HP as [[j ds] [E Hin]].
      exists ds. split; [apply (f_equal fst) in E; cbn [fst] in E; rewrite <- E; exact Hin|apply (f_equal snd) in E; cbn [snd] in E; symmetry; exact E].
  - intros env dm l l' Hk [H1 [H2 [H3 H4]]]. split; [eapply simple_mux_faithful_skel; eauto|].
    destruct (skel_names_ids _ _ Hk) as [E1 E2]. split; [rewrite <- E1; assumption|].
    split; [rewrite <- E2; assumption|]. intros s' Hs'. symmetry in Hk. destruct (skel_in _ _ _ Hk Hs') as [s [Hs Hsk]].
    destruct (H4 s Hs) as [ds [D1 D2]]. exists ds.
    destruct s, s'. unfold sig_skel in Hsk. cbn in Hsk. inversion Hsk; subst. cbn in *. auto.
  - eapply ProofsFaithful.Forall2_impl; [|exact HF]. intros dm m [A B]. eapply simple_mux_abs_of; eauto.
Qed.
