(* C10 — layout validity of the imported messages over the plain model: the top-level signals of
   every imported message are inside the payload and pairwise disjoint (sizes read in the FINAL enum
   table: an enum referenced by a signal never changes size afterwards), and every enum signal refers
   to an entry that carries the file's size. *)
From Coq Require Import String Ascii ZArith List Bool Lia.
From Coq Require Import ZifyBool.
From Acme.C10 Require Import DbcDoc BusModel Import Bits Proofs ProofsEnum.
Import ListNotations.
Open Scope Z_scope.

Definition sig_refs_ok (st : istate) (s : signal) : Prop :=
  s_kind s = KEnum -> In (s_enum s) (is_enum_refs st).
Definition subtree_ok (st : istate) (t : subtree) : Prop :=
  sig_refs_ok st (fst t) /\ forall d, In d (snd t) -> s_parent d <> None /\ sig_refs_ok st d.
Definition is_top (s : signal) : bool := match s_parent s with None => true | Some _ => false end.

Fixpoint disjoint_list (es : list enum_def) (l : list signal) : Prop :=
  match l with
  | [] => True
  | s :: r => (forall d, In d r ->
                 overlaps (s_rel s) (s_rel s + sig_size es s) (s_rel d) (s_rel d + sig_size es d) = false)
              /\ disjoint_list es r
  end.
Definition tops_valid (es : list enum_def) (limit : Z) (sigs : list signal) : Prop :=
  (forall s, In s sigs -> is_top s = true -> 0 <= s_rel s /\ s_rel s + sig_size es s <= limit) /\
  disjoint_list es (filter is_top sigs).
Definition lay_inv (st : istate) (limit : Z) (sigs : list signal) : Prop :=
  (forall s, In s sigs -> sig_refs_ok st s) /\ tops_valid (is_enums st) limit sigs.

Lemma sig_size_frozen : forall st st' s, st_le st st' -> sig_refs_ok st s ->
  sig_size (is_enums st') s = sig_size (is_enums st) s.
Proof.
  intros st st' s [_ [_ [H3 _]]] Hr. unfold sig_size. destruct (s_kind s) eqn:E; try reflexivity.
  rewrite (H3 _ (Hr E)). reflexivity.
Qed.
Lemma sig_refs_ok_mono : forall st st' s, st_le st st' -> sig_refs_ok st s -> sig_refs_ok st' s.
Proof. intros st st' s [_ [_ [_ H4]]] Hr Hk. apply H4, Hr, Hk. Qed.
Lemma subtree_ok_mono : forall st st' t, st_le st st' -> subtree_ok st t -> subtree_ok st' t.
Proof.
  intros st st' t Hl [H1 H2]. split; [eapply sig_refs_ok_mono; eauto|].
  intros d Hd. destruct (H2 d Hd). split; [assumption|eapply sig_refs_ok_mono; eauto].
Qed.

Lemma disjoint_list_ext : forall es es' l, (forall s, In s l -> sig_size es' s = sig_size es s) ->
  disjoint_list es l -> disjoint_list es' l.
Proof.
  intros es es' l. induction l as [|s r IH]; intros He H; [exact I|]. destruct H as [H1 H2].
  split; [|apply IH; [intros x Hx; apply He; right; assumption|assumption]].
  intros d Hd. rewrite (He s (or_introl eq_refl)), (He d (or_intror Hd)). apply H1. assumption.
Qed.

Lemma lay_inv_mono : forall st st' limit sigs, st_le st st' -> lay_inv st limit sigs -> lay_inv st' limit sigs.
Proof.
  intros st st' limit sigs Hl [H1 [H2 H3]].
  assert (Hsz : forall s, In s sigs -> sig_size (is_enums st') s = sig_size (is_enums st) s).
  { intros s Hs. apply sig_size_frozen; [assumption|apply H1; assumption]. }
  split; [intros s Hs; eapply sig_refs_ok_mono; eauto|]. split.
  - intros s Hs Ht. rewrite Hsz by assumption. apply H2; assumption.
  - eapply disjoint_list_ext; [|exact H3]. intros s Hs. apply Hsz. apply filter_In in Hs. tauto.
Qed.

Lemma disjoint_snoc : forall es l x, disjoint_list es l ->
  (forall d, In d l -> overlaps (s_rel d) (s_rel d + sig_size es d) (s_rel x) (s_rel x + sig_size es x) = false) ->
  disjoint_list es (l ++ [x]).
Proof.
  intros es l x. induction l as [|s r IH]; intros H Hx; cbn.
  - split; [intros d []|exact I].
  - destruct H as [H1 H2]. split.
    + intros d Hd. apply in_app_or in Hd. destruct Hd as [Hd|[<-|[]]]; [apply H1; assumption|apply Hx; left; reflexivity].
    + apply IH; [assumption|]. intros d Hd. apply Hx. right. assumption.
Qed.

Lemma overlaps_sym : forall a1 a2 b1 b2, overlaps a1 a2 b1 b2 = overlaps b1 b2 a1 a2.
Proof. intros. unfold overlaps. apply andb_comm. Qed.

Lemma verify_insert_inv : forall es lsize members size start,
  verify_insert es lsize members size start = Ok tt ->
  0 <= start /\ start + size <= lsize /\
  forall m, In m members -> overlaps start (start + size) (s_rel m) (s_rel m + sig_size es m) = false.
Proof.
  intros es lsize members size start H. unfold verify_insert in H.
  destruct (start <? 0) eqn:E1; [discriminate|]. destruct (size >? lsize) eqn:E2; [discriminate|].
  destruct (start + size >? lsize) eqn:E3; [discriminate|].
  destruct (existsb _ members) eqn:E4; [discriminate|].
  repeat split; try lia. intros m Hm.
  destruct (overlaps start (start + size) (s_rel m) (s_rel m + sig_size es m)) eqn:Eo; [|reflexivity].
  assert (existsb (fun m => overlaps start (start + size) (s_rel m) (s_rel m + sig_size es m)) members = true)
    by (apply existsb_exists; exists m; auto). congruence.
Qed.

Lemma sig_size_place : forall es s rel p g, sig_size es (place s rel p g) = sig_size es s.
Proof. intros. reflexivity. Qed.

Lemma filter_is_top_nested : forall l, (forall d, In d l -> s_parent d <> None) -> filter is_top l = [].
Proof.
  intros l H. apply filter_nil. intros d Hd. unfold is_top. specialize (H d Hd).
  destruct (s_parent d); [reflexivity|contradiction].
Qed.

Lemma msg_insert_lay : forall st msize sigs t start sigs',
  lay_inv st (msize * 8) sigs -> subtree_ok st t ->
  msg_insert (is_enums st) msize sigs t start = Ok sigs' -> lay_inv st (msize * 8) sigs'.
Proof.
  intros st msize sigs [s below] start sigs' [I1 [I2 I3]] [T1 T2] H. unfold msg_insert in H.
  destruct (mem_str _ _); [discriminate|]. destruct (existsb _ below); [discriminate|].
  match type of H with (if ?c then _ else _) = _ => destruct c; [discriminate|] end.
  apply bind_ok in H. destruct H as [u [Hv H]]. inversion H; subst sigs'. clear H.
  destruct u. apply verify_insert_inv in Hv. destruct Hv as [V1 [V2 V3]].
  cbn [fst snd] in *.
  split; [|split].
  - intros x Hx. apply in_app_or in Hx. destruct Hx as [Hx|Hx]; [apply I1; assumption|].
    cbn [app] in Hx. destruct Hx as [<-|Hx]; [exact T1|]. apply T2. assumption.
  - intros x Hx Ht. apply in_app_or in Hx. destruct Hx as [Hx|Hx]; [apply I2; assumption|].
    cbn [app] in Hx. destruct Hx as [<-|Hx].
    + rewrite sig_size_place. cbn [s_rel place]. lia.
    + destruct (T2 x Hx) as [Hp _]. unfold is_top in Ht. destruct (s_parent x); [discriminate|contradiction].
  - rewrite filter_app. cbn [app filter]. change (is_top (place s start None [])) with true. cbn iota.
    rewrite (filter_is_top_nested below) by (intros d Hd; apply T2; assumption).
    apply disjoint_snoc; [assumption|]. intros d Hd. rewrite sig_size_place. cbn [s_rel place].
    rewrite overlaps_sym. apply V3. exact Hd.
Qed.

(* results of importSignal / importMuxSignal are well-formed subtrees *)
Lemma import_signal_subtree : forall env st mpos msgid id ds s st',
  env_valid env (length (is_enums st)) -> refs_valid st ->
  import_signal env st mpos msgid id ds = Ok (s, st') -> subtree_ok st' (s, []).
Proof.
  intros env st mpos msgid id ds s st' Hev Hrv H.
  pose proof (import_signal_evolves _ _ _ _ _ _ _ _ Hev Hrv H) as [_ Hf].
  pose proof (import_signal_spec _ _ _ _ _ _ _ _ H) as [_ Hs].
  split; [|intros d []]. cbn [fst]. intros Hk.
  unfold sig_faithful in Hs. destruct Hs as [_ [_ [_ [_ [_ Hs]]]]].
  destruct (lookup key_eqb (msgid, ds_name ds) (ie_sig_enums env)) as [ei0|] eqn:E.
  - destruct (Hf ei0 E) as [_ [Hin _]]. exact Hin.
  - destruct Hs as [Hs _]. cbn [s_kind place] in Hs. congruence.
Qed.

Lemma mux_insert_form : forall es mx kids c rel gids c',
  mux_insert es mx kids c rel gids = Ok c' -> exists g, c' = place c rel (Some (s_id mx)) g.
Proof.
  intros es mx kids c rel gids c' H. unfold mux_insert in H.
  destruct (mem_str _ _); [discriminate|]. destruct gids.
  - apply bind_ok in H. destruct H as [u [_ H]]. inversion H. eauto.
  - apply bind_ok in H. destruct H as [u [_ H]]. inversion H. eauto.
Qed.

Lemma mux_children_ok : forall env es msgid mx mstart msize st muxed kids belows,
  Forall (fun p => subtree_ok st (fst p)) muxed ->
  mux_children env es msgid mx mstart msize muxed = Ok (kids, belows) ->
  forall d, In d (kids ++ belows) -> s_parent d <> None /\ sig_refs_ok st d.
Proof.
  intros env es msgid mx mstart msize st muxed kids belows Hall H. unfold mux_children in H.
  assert (Hgen : forall l k0 b0 k1 b1,
            Forall (fun p : subtree * dsignal => subtree_ok st (fst p)) l ->
            (forall d, In d (k0 ++ b0) -> s_parent d <> None /\ sig_refs_ok st d) ->
            fold_left (fun acc (p : subtree * dsignal) =>
               do (kids, belows) <- acc;
               let rel := get_start_bit (snd p) - mstart - msize in
               do gids <- child_groups env msgid (s_gcount mx) (fst (fst p)) (snd p);
               do c <- mux_insert es mx kids (fst (fst p)) rel gids;
               Ok (kids ++ [c], belows ++ snd (fst p))) l (Ok (k0, b0)) = Ok (k1, b1) ->
            forall d, In d (k1 ++ b1) -> s_parent d <> None /\ sig_refs_ok st d).
  { induction l as [|[[s below] ds] r IH]; intros k0 b0 k1 b1 Hf H0 Hfold; cbn [fold_left] in Hfold.
    - inversion Hfold; subst. exact H0.
    - cbn [bind fst snd] in Hfold. inversion Hf as [|? ? Hp Hr]; subst.
      destruct (child_groups env msgid (s_gcount mx) s ds) as [g|w]; cbn [bind] in Hfold.
      2:{ rewrite fold_result_err in Hfold; [discriminate|intros x w'; reflexivity]. }
      destruct (mux_insert es mx k0 s (get_start_bit ds - mstart - msize) g) as [c|w] eqn:Ec; cbn [bind] in Hfold.
      2:{ rewrite fold_result_err in Hfold; [discriminate|intros x w'; reflexivity]. }
      eapply IH; [exact Hr| |exact Hfold].
      apply mux_insert_form in Ec. destruct Ec as [g' ->]. destruct Hp as [P1 P2]. cbn [fst snd] in *.
      intros d Hd. apply in_app_or in Hd. destruct Hd as [Hd|Hd].
      + apply in_app_or in Hd. destruct Hd as [Hd|[<-|[]]]; [apply H0; apply in_or_app; left; assumption|].
        split; [cbn; discriminate|exact P1].
      + apply in_app_or in Hd. destruct Hd as [Hd|Hd]; [apply H0; apply in_or_app; right; assumption|apply P2; assumption]. }
  eapply Hgen; [exact Hall| |exact H]. intros d [].
Qed.

Lemma import_mux_signal_subtree : forall env st mpos msgid msize id dm muxed t st',
  Forall (fun p => subtree_ok st (fst p)) muxed ->
  import_mux_signal env st mpos msgid msize id dm muxed = Ok (t, st') -> subtree_ok st' t.
Proof.
  intros env st mpos msgid msize id dm muxed t st' Hall H.
  pose proof (import_mux_signal_state _ _ _ _ _ _ _ _ _ _ H) as [He Hr].
  unfold import_mux_signal in H.
  repeat match type of H with (if ?c then _ else _) = _ => destruct c; [discriminate|] end.
  apply bind_ok in H. destruct H as [[kids belows] [Hk H]]. inversion H; subst t st'. clear H.
  assert (Hsame : forall s, sig_refs_ok st s -> sig_refs_ok (set_sigmap st (((msgid, ds_name dm), (mpos, id)) :: is_sigmap st)) s)
    by (intros s Hs; exact Hs).
  split; cbn [fst snd].
  - intros Hkind. destruct (lookup key_eqb (msgid, ds_name dm) (ie_sig_desc env)); cbn in Hkind; discriminate.
  - intros d Hd. destruct (mux_children_ok _ _ _ _ _ _ st _ _ _ Hall Hk d Hd). auto.
Qed.

(* ------------------------------------------------------------------------------------------ *)
(* the invariant through importMessage's three cases                                           *)
(* ------------------------------------------------------------------------------------------ *)
Definition pend_ok (st : istate) (l : list (subtree * dsignal)) : Prop := Forall (fun p => subtree_ok st (fst p)) l.

Lemma pend_ok_mono : forall st st' l, st_le st st' -> pend_ok st l -> pend_ok st' l.
Proof. intros st st' l Hl H. unfold pend_ok in *. eapply Forall_impl; [|exact H]. intros p Hp. eapply subtree_ok_mono; eauto. Qed.
Lemma pend_ok_snoc : forall st l p, pend_ok st l -> subtree_ok st (fst p) -> pend_ok st (l ++ [p]).
Proof. intros st l p H Hp. unfold pend_ok. apply Forall_app. split; [assumption|constructor; [assumption|constructor]]. Qed.

Lemma st_le_same : forall st st', is_enums st' = is_enums st -> is_enum_refs st' = is_enum_refs st -> st_le st st'.
Proof. intros st st' He Hr. unfold st_le. rewrite He, Hr. repeat split; auto. apply incl_refl. Qed.

Lemma replace_nth_Forall : forall {A} (Q : A -> Prop) n x l, Forall Q l -> Q x -> Forall Q (replace_nth n x l).
Proof.
  intros A Q n x l. revert n. induction l as [|y r IH]; intros [|n] Hl Hx; cbn; try constructor; inversion Hl; subst; auto.
Qed.
Lemma nth_Forall_default : forall {A} (Q : A -> Prop) n l d, Forall Q l -> Q d -> Q (nth n l d).
Proof.
  intros A Q n l d. revert n. induction l as [|y r IH]; intros [|n] Hl Hd; cbn; auto; inversion Hl; subst; auto.
Qed.
Lemma app_nth_ok : forall st n p groups, Forall (pend_ok st) groups -> subtree_ok st (fst p) ->
  Forall (pend_ok st) (app_nth n p groups).
Proof.
  intros st n p groups H Hp. unfold app_nth. apply replace_nth_Forall; [assumption|].
  apply pend_ok_snoc; [|assumption]. apply nth_Forall_default; [assumption|constructor].
Qed.

Lemma import_message_signals_lay : forall env st mpos dm st' sigs,
  env_valid env (length (is_enums st)) -> refs_valid st ->
  import_message_signals env st mpos dm = Ok (st', sigs) -> lay_inv st' (dm_size dm * 8) sigs.
Proof.
  intros env st mpos dm st' sigs Hev Hrv H.
  set (L := dm_size dm * 8).
  assert (Hbase : evolved st st) by (split; [apply st_le_refl|assumption]).
  assert (Hempty : forall s, lay_inv s L []).
  { intros s. split; [intros x []|]. split; [intros x []|exact I]. }
  (* one importSignal step: new state, transported facts *)
  assert (Hsig : forall st1 id ds s st2, evolved st st1 -> import_signal env st1 mpos (dm_id dm) id ds = Ok (s, st2) ->
             evolved st st2 /\ st_le st1 st2 /\ subtree_ok st2 (s, [])).
  { intros st1 id ds s st2 [Hl Hv] Hi.
    assert (Hev1 : env_valid env (length (is_enums st1))) by (eapply env_valid_mono; [apply Hl|exact Hev]).
    pose proof (import_signal_subtree _ _ _ _ _ _ _ _ Hev1 Hv Hi) as Hsub.
    apply import_signal_evolves in Hi; [|exact Hev1|exact Hv]. destruct Hi as [Hi _].
    split; [apply (evolved_trans st st1 st2 Hrv); [split; assumption|exact Hi]|]. split; [apply Hi|exact Hsub]. }
  assert (Hmux : forall st1 id dmx muxed t st2, evolved st st1 -> pend_ok st1 muxed ->
             import_mux_signal env st1 mpos (dm_id dm) (dm_size dm) id dmx muxed = Ok (t, st2) ->
             evolved st st2 /\ st_le st1 st2 /\ subtree_ok st2 t).
  { intros st1 id dmx muxed t st2 He Hp Hi.
    pose proof (import_mux_signal_subtree _ _ _ _ _ _ _ _ _ _ Hp Hi) as Hsub.
    apply import_mux_signal_state in Hi. destruct Hi as [E1 E2].
    split; [eapply evolved_same_enums; eauto|]. split; [apply st_le_same; assumption|exact Hsub]. }
  assert (Htop : forall st1 sg t start sg', lay_inv st1 L sg -> subtree_ok st1 t ->
             msg_insert (is_enums st1) (dm_size dm) sg t start = Ok sg' -> lay_inv st1 L sg').
  { intros. eapply msg_insert_lay; eauto. }
  unfold import_message_signals in H. cbv zeta in H.
  destruct (filter (fun p : Z * dsignal => ds_muxor (snd p)) _) as [|[mid dmx] [|m2 mr]] eqn:Emux.
  - (* no multiplexor *)
    destruct (existsb _ _); [discriminate|].
    assert (P : evolved st st' /\ lay_inv st' L sigs).
    { revert H. apply (fold_result_inv _ (fun a => evolved st (fst a) /\ lay_inv (fst a) L (snd a)));
        [intros [i x] w; reflexivity| |split; [exact Hbase|apply Hempty]].
      intros [st0 sg] [id ds] [st2 sg2] [Pa Pl] Hx. cbn [bind fst snd] in *.
      destruct (import_signal env st0 mpos (dm_id dm) id ds) as [[s st1]|w] eqn:E; cbn [bind] in Hx; [|discriminate].
      apply bind_ok in Hx. destruct Hx as [sg' [Hins Hx]]. inversion Hx; subst.
      destruct (Hsig _ _ _ _ _ Pa E) as [S1 [S2 S3]]. split; [exact S1|].
      eapply Htop; [eapply lay_inv_mono; eauto|exact S3|exact Hins]. }
    apply P.
  - (* one multiplexor *)
    destruct (ds_muxed dmx); [discriminate|].
    apply bind_ok in H. destruct H as [[[[st1 muxed] stds] last] [H1 H]].
    assert (P1 : evolved st st1 /\ pend_ok st1 muxed /\ pend_ok st1 stds).
    { revert H1. apply (fold_result_inv _ (fun a => evolved st (fst (fst (fst a))) /\ pend_ok (fst (fst (fst a))) (snd (fst (fst a)))
                                                   /\ pend_ok (fst (fst (fst a))) (snd (fst a))));
        [intros [i x] w; reflexivity| |cbn [fst snd]; split; [exact Hbase|split; constructor]].
      intros [[[st0 mu] sd] la] [id ds] a' [Pa [Pm Ps]] Hx. cbn [bind fst snd] in *.
      destruct (id =? mid); [inversion Hx; subst; cbn [fst snd]; auto|].
      destruct (import_signal env st0 mpos (dm_id dm) id ds) as [[s st2]|w] eqn:E; cbn [bind] in Hx; [|discriminate].
      destruct (Hsig _ _ _ _ _ Pa E) as [S1 [S2 S3]].
      destruct (ds_muxed ds); inversion Hx; subst; cbn [fst snd]; (split; [exact S1|]); split.
      + apply pend_ok_snoc; [eapply pend_ok_mono; eauto|exact S3].
      + eapply pend_ok_mono; eauto.
      + eapply pend_ok_mono; eauto.
      + apply pend_ok_snoc; [eapply pend_ok_mono; eauto|exact S3]. }
    destruct P1 as [E1 [Pm Ps]].
    apply bind_ok in H. destruct H as [[[st2 sg] muxed2] [H2 H]].
    assert (P2 : st2 = st1 /\ lay_inv st1 L sg /\ pend_ok st1 muxed2).
    { revert H2. revert Ps. generalize stds. intros l Ps.
      assert (G : forall l sg0 mu0 r, pend_ok st1 l -> lay_inv st1 L sg0 -> pend_ok st1 mu0 ->
                fold_left (fun acc (p : subtree * dsignal) => let '(t, ds) := p in
                    do (ms, muxed2) <- acc;
                    (let sp := get_start_bit ds in
                     if (sp >? get_start_bit dmx) && (sp <? last) then Ok (ms, muxed2 ++ [(t, ds)])
                     else do ms' <- (let '(st0, sigs0) := ms in
                                     do sigs' <- msg_insert (is_enums st0) (dm_size dm) sigs0 t sp; Ok (st0, sigs'));
                          Ok (ms', muxed2))) l (Ok ((st1, sg0), mu0)) = Ok r ->
                fst (fst r) = st1 /\ lay_inv st1 L (snd (fst r)) /\ pend_ok st1 (snd r)).
      { induction l0 as [|[t ds] q IH]; intros sg0 mu0 r Hl Hlay Hmu Hf; cbn [fold_left] in Hf.
        - inversion Hf; subst. cbn. auto.
        - inversion Hl as [|? ? Ht Hq]; subst. cbn [bind] in Hf.
          destruct ((get_start_bit ds >? get_start_bit dmx) && (get_start_bit ds <? last)).
          + eapply IH; [exact Hq|exact Hlay| |exact Hf]. apply pend_ok_snoc; assumption.
          + destruct (msg_insert (is_enums st1) (dm_size dm) sg0 t (get_start_bit ds)) as [sg'|w] eqn:Ei; cbn [bind] in Hf.
            * eapply IH; [exact Hq| |exact Hmu|exact Hf]. eapply Htop; eauto.
            * rewrite fold_result_err in Hf; [discriminate|intros [x y] w'; reflexivity]. }
      intros Hf. specialize (G l [] muxed _ Ps (Hempty st1) Pm Hf). cbn [fst snd] in G. exact G. }
    destruct P2 as [-> [Play Pm2]].
    apply bind_ok in H. destruct H as [[mt st3] [H3 H]].
    apply bind_ok in H. destruct H as [sg' [Hins H]]. inversion H; subst.
    destruct (Hmux _ _ _ _ _ _ E1 Pm2 H3) as [S1 [S2 S3]].
    eapply Htop; [eapply lay_inv_mono; eauto|exact S3|exact Hins].
  - (* several multiplexors *)
    apply bind_ok in H. destruct H as [[[st1 sg1] groups1] [H1 H]].
    assert (P1 : evolved st st1 /\ lay_inv st1 L sg1 /\ Forall (pend_ok st1) groups1).
    { revert H1. apply (fold_result_inv _ (fun a => evolved st (fst (fst a)) /\ lay_inv (fst (fst a)) L (snd (fst a))
                                                   /\ Forall (pend_ok (fst (fst a))) (snd a)));
        [intros [i x] w; reflexivity| |].
      2:{ cbn [fst snd]. split; [exact Hbase|]. split; [apply Hempty|].
          apply Forall_forall. intros x Hx. apply repeat_spec in Hx. subst. constructor. }
      intros [[st0 sg0] gr] [id ds] a' [Pa [Pl Pg]] Hx. cbn [bind fst snd] in *.
      destruct (ds_muxor ds); [inversion Hx; subst; cbn [fst snd]; auto|].
      destruct (import_signal env st0 mpos (dm_id dm) id ds) as [[s st2]|w] eqn:E; cbn [bind] in Hx; [|discriminate].
      destruct (Hsig _ _ _ _ _ Pa E) as [S1 [S2 S3]].
      assert (Pg' : Forall (pend_ok st2) gr) by (eapply Forall_impl; [|exact Pg]; intros l Hl; eapply pend_ok_mono; eauto).
      destruct (ds_muxed ds).
      - destruct (lookup key_eqb _ (ie_ext_muxes env)); [|discriminate].
        destruct (lookup String.eqb _ _); [|discriminate]. inversion Hx; subst. cbn [fst snd].
        split; [exact S1|]. split; [eapply lay_inv_mono; eauto|]. apply app_nth_ok; assumption.
      - apply bind_ok in Hx. destruct Hx as [[st3 sg3] [Hy Hx]]. inversion Hx; subst. cbn [fst snd].
        apply bind_ok in Hy. destruct Hy as [sg' [Hins Hy]]. inversion Hy; subst.
        split; [exact S1|]. split; [|exact Pg']. eapply Htop; [eapply lay_inv_mono; eauto|exact S3|exact Hins]. }
    apply bind_ok in H. destruct H as [[[st2 sg2] groups2] [H2 H]]. inversion H; subst. clear H.
    assert (P2 : evolved st st' /\ lay_inv st' L sigs /\ Forall (pend_ok st') groups2).
    { revert H2. apply (fold_result_inv _ (fun a => evolved st (fst (fst a)) /\ lay_inv (fst (fst a)) L (snd (fst a))
                                                   /\ Forall (pend_ok (fst (fst a))) (snd a)));
        [intros x w; reflexivity| |exact P1].
      intros [[st0 sg0] gr] j a' [Pa [Pl Pg]] Hx. cbn [bind fst snd] in *.
      destruct (nth j _ _) as [mid' dmx'].
      destruct (import_mux_signal env st0 mpos (dm_id dm) (dm_size dm) mid' dmx' (nth j gr [])) as [[mt st3]|w] eqn:E; cbn [bind] in Hx; [|discriminate].
      assert (Pj : pend_ok st0 (nth j gr [])) by (apply nth_Forall_default; [assumption|constructor]).
      destruct (Hmux _ _ _ _ _ _ Pa Pj E) as [S1 [S2 S3]].
      assert (Pg' : Forall (pend_ok st3) gr) by (eapply Forall_impl; [|exact Pg]; intros l Hl; eapply pend_ok_mono; eauto).
      destruct (lookup key_eqb _ (ie_ext_muxes env)).
      + destruct (lookup String.eqb _ _); [|discriminate]. destruct (Nat.leb j n); [discriminate|].
        inversion Hx; subst. cbn [fst snd]. split; [exact S1|]. split; [eapply lay_inv_mono; eauto|].
        apply app_nth_ok; assumption.
      + destruct (ds_muxed dmx'); [discriminate|].
        apply bind_ok in Hx. destruct Hx as [[st4 sg4] [Hy Hx]]. inversion Hx; subst. cbn [fst snd].
        apply bind_ok in Hy. destruct Hy as [sg' [Hins Hy]]. inversion Hy; subst.
        split; [exact S1|]. split; [|exact Pg']. eapply Htop; [eapply lay_inv_mono; eauto|exact S3|exact Hins]. }
    apply P2.
Qed.

(* ------------------------------------------------------------------------------------------ *)
(* all messages, then the whole import                                                         *)
(* ------------------------------------------------------------------------------------------ *)
Definition msgs_lay (st : istate) (msgs : list message) : Prop :=
  Forall (fun m => lay_inv st (m_size m * 8) (m_signals m)) msgs.

Lemma import_messages_lay : forall env nodes dms st msgs st' msgs',
  fold_left (fun acc dm => do a <- acc; import_message env a nodes dm) dms (Ok (st, msgs)) = Ok (st', msgs') ->
  env_valid env (length (is_enums st)) -> refs_valid st -> msgs_lay st msgs ->
  evolved st st' /\ msgs_lay st' msgs'.
Proof.
  intros env nodes dms. induction dms as [|dm r IH]; intros st msgs st' msgs' H Hev Hrv Hl; cbn [fold_left] in H.
  - inversion H; subst. split; [split; [apply st_le_refl|assumption]|assumption].
  - cbn [bind] in H.
    destruct (import_message env (st, msgs) nodes dm) as [[st1 msgs1]|w] eqn:E.
    2:{ rewrite fold_result_err in H by reflexivity. discriminate. }
    apply import_message_inv in E.
    destruct E as [m [sigs [Hm [Hh [Hsg [Hsig _]]]]]]. subst msgs1.
    pose proof (import_message_signals_evolves _ _ _ _ _ _ Hev Hrv Hsig) as Hevo.
    pose proof (import_message_signals_lay _ _ _ _ _ _ Hev Hrv Hsig) as Hlay.
    destruct Hevo as [Hle Hrv1].
    destruct (IH st1 (msgs ++ [m]) st' msgs' H) as [E1 E2].
    + eapply env_valid_mono; [apply Hle|exact Hev].
    + exact Hrv1.
    + unfold msgs_lay. apply Forall_app. split.
      * eapply Forall_impl; [|exact Hl]. intros x Hx. eapply lay_inv_mono; eauto.
      * constructor; [|constructor]. unfold msg_head, dmsg_head in Hh. injection Hh as _ _ Hsz _ _ _.
        rewrite Hsz, Hsg. exact Hlay.
    + split; [|exact E2]. apply (evolved_trans st st1 st' Hrv); [split; assumption|exact E1].
Qed.

Lemma cons_inj : forall {A} (a b : A) l l', a :: l = b :: l' -> a = b /\ l = l'.
Proof. intros A a b l l' H. inversion H. auto. Qed.

Lemma disjoint_list_skel : forall es l l', map sig_skel l = map sig_skel l' -> disjoint_list es l -> disjoint_list es l'.
Proof.
  intros es l. induction l as [|s r IH]; intros l' Hm H; destruct l' as [|s' r']; try discriminate; [exact I|].
  cbn [map] in Hm. apply cons_inj in Hm. destruct Hm as [Hs Hr]. destruct H as [V1 V2]. split; [|apply IH; assumption].
  assert (Hsz : forall a a', sig_skel a = sig_skel a' -> s_rel a = s_rel a' /\ sig_size es a = sig_size es a').
  { intros a a' Hk. destruct a, a'. unfold sig_skel in Hk. cbn in Hk. inversion Hk; subst. split; reflexivity. }
  intros d' Hd'.
  assert (Hex : exists d, In d r /\ sig_skel d = sig_skel d').
  { clear - Hr Hd'. revert r Hr. induction r' as [|y q IHq]; intros r Hr; [destruct Hd'|].
    destruct r as [|x p]; [cbn in Hr; discriminate Hr|]. cbn [map] in Hr. apply cons_inj in Hr. destruct Hr as [Hx Hp].
    destruct Hd' as [<-|Hd']; [exists x; split; [left; reflexivity|assumption]|].
    destruct (IHq Hd' p Hp) as [d [Hd Hk]]. exists d. split; [right; assumption|assumption]. }
  destruct Hex as [d [Hd Hk]].
  destruct (Hsz _ _ Hs) as [R1 S1]. destruct (Hsz _ _ Hk) as [R2 S2].
  rewrite <- R1, <- S1, <- R2, <- S2. apply V1. assumption.
Qed.

Lemma filter_is_top_skel : forall l l', map sig_skel l = map sig_skel l' ->
  map sig_skel (filter is_top l) = map sig_skel (filter is_top l').
Proof.
  induction l as [|s r IH]; intros l' Hm; destruct l' as [|s' r']; try discriminate; [reflexivity|].
  cbn [map] in Hm. apply cons_inj in Hm. destruct Hm as [Hs Hr]. cbn [filter].
  assert (Ht : is_top s = is_top s') by (destruct s, s'; unfold sig_skel in Hs; cbn in Hs; inversion Hs; subst; reflexivity).
  rewrite Ht. destruct (is_top s'); cbn [map]; [rewrite Hs; f_equal|]; apply IH; assumption.
Qed.

Lemma tops_valid_skel : forall es limit l l', map sig_skel l = map sig_skel l' ->
  tops_valid es limit l -> tops_valid es limit l'.
Proof.
  intros es limit l l' Hm [V1 V2]. split.
  - intros s' Hs' Ht'.
    assert (Hex : exists s, In s l /\ sig_skel s = sig_skel s').
    { clear - Hm Hs'. revert l Hm. induction l' as [|y q IHq]; intros l Hm; [destruct Hs'|].
      destruct l as [|x p]; [cbn in Hm; discriminate Hm|]. cbn [map] in Hm. apply cons_inj in Hm. destruct Hm as [Hx Hp].
      destruct Hs' as [<-|Hs']; [exists x; split; [left; reflexivity|assumption]|].
      destruct (IHq Hs' p Hp) as [d [Hd Hk]]. exists d. split; [right; assumption|assumption]. }
    destruct Hex as [s [Hs Hk]].
    assert (Heq : is_top s = is_top s' /\ s_rel s = s_rel s' /\ sig_size es s = sig_size es s').
    { destruct s, s'. unfold sig_skel in Hk. cbn in Hk. inversion Hk; subst. repeat split; reflexivity. }
    destruct Heq as [E1 [E2 E3]]. rewrite <- E2, <- E3. apply V1; [assumption|congruence].
  - eapply disjoint_list_skel; [apply filter_is_top_skel; exact Hm|exact V2].
Qed.

Lemma env_valid_doc : forall d reg es se,
  fold_left (fun acc ve => do a <- acc; import_value_encoding (length reg) a ve) (d_valencs d) (Ok (reg, [])) = Ok (es, se) ->
  env_valid (doc_env d se) (length es).
Proof.
  intros d reg es se H. apply valenc_fold_resolved in H. destruct H as [_ H].
  intros k i Hl. unfold doc_env in Hl. destruct (import_comments (d_comments d)) as [bd [[nd md] sd]]. cbn [ie_sig_enums] in Hl.
  specialize (H k i Hl). destruct (last_valenc (d_valencs d) k); [tauto|discriminate].
Qed.

(* import_layout_valid: in every imported message the top-level signals lie inside the payload and
   are pairwise disjoint (a multiplexer counts with its selector and group bits) *)
Theorem import_layout_valid : forall d b, import d = Ok b ->
  Forall (fun m => tops_valid (b_enums b) (m_size m * 8) (m_signals m)) (b_messages b).
Proof.
  intros d b H. apply import_inv in H.
  destruct H as [reg [es [se [nodes [st4 [msgs [b1 [_ [Hv [_ [Hm [Hb Hbb]]]]]]]]]]]].
  apply import_attributes_skel in Hb. unfold bus_skel in Hb.
  cbn [b_name b_desc b_nodes b_enums b_messages] in Hb.
  assert (Hk : map msg_skel msgs = map msg_skel (b_messages b1)) by congruence.
  assert (He : b_enums b1 = is_enums st4) by congruence.
  assert (Hb' : b_messages b = b_messages b1 /\ b_enums b = b_enums b1) by (subst b; destruct (existsb _ _); split; reflexivity).
  destruct Hb' as [Hb1 Hb2]. rewrite Hb1, Hb2, He.
  pose proof (env_valid_doc _ _ _ _ Hv) as Hev.
  destruct (import_messages_lay _ _ _ _ _ _ _ Hm) as [_ Hl]; cbn [is_enums is_enum_refs]; try assumption.
  - intros r [].
  - constructor.
  - unfold msgs_lay in Hl. clear - Hk Hl. revert Hk Hl. generalize (b_messages b1) as l1.
    induction msgs as [|m r IH]; intros l1 Hk Hl; destruct l1 as [|m1 r1]; try discriminate; [constructor|].
    cbn [map] in Hk. apply cons_inj in Hk. destruct Hk as [Hs Hr]. inversion Hl as [|? ? [_ Hm] Hrl]; subst.
    constructor; [|apply IH; assumption].
    unfold msg_skel in Hs. inversion Hs.
    replace (m_size m1) with (m_size m) by congruence.
    eapply tops_valid_skel; [eassumption|exact Hm].
Qed.
