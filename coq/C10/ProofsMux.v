(* C10 — messages with ONE multiplexor switch (simple multiplexing, with or without SG_MUL_VAL_
   entries): the switch becomes a top-level multiplexer at its position, every other signal of the
   file is present exactly as the file describes it, either top-level at its position or as a child
   of the multiplexer at its position relative to the end of the switch, in the groups the file
   names (switch value, or SG_MUL_VAL_ ranges; all groups = fixed). *)
From Coq Require Import String Ascii ZArith List Bool Lia.
From Coq Require Import ZifyBool.
From Acme.C10 Require Import DbcDoc BusModel Import Bits Proofs ProofsEnum ProofsLayout.
Import ListNotations.
Open Scope Z_scope.

(* the file's data of a signal, whatever its placement *)
Definition base_faithful (env : ienv) (msgid : Z) (ds : dsignal) (s : signal) : Prop :=
  sig_faithful env msgid ds (place s (get_start_bit ds) None []).

Lemma base_faithful_place : forall env msgid ds s rel p g,
  base_faithful env msgid ds s -> base_faithful env msgid ds (place s rel p g).
Proof. intros. exact H. Qed.

(* group list as MultiplexerSignal.InsertSignal stores it *)
Definition norm_groups (g : list Z) : list Z :=
  match g with [] => [] | _ => sort_by Z.ltb (dedup_z [] g) end.

Lemma msg_insert_form : forall es msize sigs t start sigs',
  msg_insert es msize sigs t start = Ok sigs' -> sigs' = sigs ++ [place (fst t) start None []] ++ snd t.
Proof.
  intros es msize sigs [s below] start sigs' H. unfold msg_insert in H.
  destruct (mem_str _ _); [discriminate|]. destruct (existsb _ below); [discriminate|].
  match type of H with (if ?c then _ else _) = _ => destruct c; [discriminate|] end.
  apply bind_ok in H. destruct H as [u [_ H]]. inversion H. reflexivity.
Qed.

Lemma mux_insert_spec : forall es mx kids c rel gids c',
  mux_insert es mx kids c rel gids = Ok c' -> c' = place c rel (Some (s_id mx)) (norm_groups gids).
Proof.
  intros es mx kids c rel gids c' H. unfold mux_insert in H.
  destruct (mem_str _ _); [discriminate|]. destruct gids as [|g0 gr].
  - apply bind_ok in H. destruct H as [u [_ H]]. inversion H. reflexivity.
  - apply bind_ok in H. destruct H as [u [_ H]]. inversion H. reflexivity.
Qed.

Definition child_of (env : ienv) (msgid : Z) (mx : signal) (mstart msize : Z) (p : subtree * dsignal) (c : signal) : Prop :=
  exists g, child_groups env msgid (s_gcount mx) (fst (fst p)) (snd p) = Ok g /\
            c = place (fst (fst p)) (get_start_bit (snd p) - mstart - msize) (Some (s_id mx)) (norm_groups g).

Lemma mux_children_spec : forall env es msgid mx mstart msize muxed kids belows,
  mux_children env es msgid mx mstart msize muxed = Ok (kids, belows) ->
  Forall2 (child_of env msgid mx mstart msize) muxed kids /\ belows = flat_map (fun p => snd (fst p)) muxed.
Proof.
  intros env es msgid mx mstart msize muxed kids belows H. unfold mux_children in H.
  assert (G : forall l k0 b0 k1 b1,
            fold_left (fun acc (p : subtree * dsignal) =>
               do (kids, belows) <- acc;
               let rel := get_start_bit (snd p) - mstart - msize in
               do gids <- child_groups env msgid (s_gcount mx) (fst (fst p)) (snd p);
               do c <- mux_insert es mx kids (fst (fst p)) rel gids;
               Ok (kids ++ [c], belows ++ snd (fst p))) l (Ok (k0, b0)) = Ok (k1, b1) ->
            exists kn, k1 = k0 ++ kn /\ Forall2 (child_of env msgid mx mstart msize) l kn /\
                       b1 = b0 ++ flat_map (fun p => snd (fst p)) l).
  { induction l as [|p r IH]; intros k0 b0 k1 b1 Hf; cbn [fold_left] in Hf.
    - inversion Hf; subst. exists []. rewrite !app_nil_r. repeat split; constructor.
    - cbn [bind] in Hf.
      destruct (child_groups env msgid (s_gcount mx) (fst (fst p)) (snd p)) as [g|w] eqn:Eg; cbn [bind] in Hf.
      2:{ rewrite fold_result_err in Hf; [discriminate|intros x w'; reflexivity]. }
      destruct (mux_insert es mx k0 (fst (fst p)) (get_start_bit (snd p) - mstart - msize) g) as [c|w] eqn:Ec; cbn [bind] in Hf.
      2:{ rewrite fold_result_err in Hf; [discriminate|intros x w'; reflexivity]. }
      apply IH in Hf. destruct Hf as [kn [Hk [Hall Hb]]].
      apply mux_insert_spec in Ec. exists (c :: kn). rewrite Hk, Hb, <- !app_assoc. repeat split.
      constructor; [|assumption]. exists g. split; assumption. }
  apply G in H. destruct H as [kn [Hk [Hall Hb]]]. cbn [app] in Hk, Hb. subst. auto.
Qed.

Lemma Forall2_in_l : forall {A B} (R : A -> B -> Prop) l l' a, Forall2 R l l' -> In a l -> exists b, In b l' /\ R a b.
Proof.
  intros A B R l l' a H. induction H as [|x y l l' Hxy Hl IH]; intros Hin; [destruct Hin|].
  destruct Hin as [<-|Hin]; [exists y; split; [left; reflexivity|assumption]|].
  destruct (IH Hin) as [b [Hb Hr]]. exists b. split; [right; assumption|assumption].
Qed.

(* ---- the first loop of the one-switch case: every signal but the switch is imported and sorted
   into the multiplexed ones and the plain ones ---- *)
Definition pend1 (env : ienv) (msgid : Z) (id : Z) (ds : dsignal) (l : list (subtree * dsignal)) : Prop :=
  exists s, In ((s, []), ds) l /\ s_id s = id /\ base_faithful env msgid ds s.

Lemma one_mux_loop1 : forall env mpos msgid mid isigs st muxed stds last r,
  fold_left (fun acc (p : Z * dsignal) => let '(id, ds) := p in
      do (st0, muxed, stds, last) <- acc;
      if id =? mid then Ok (st0, muxed, stds, last) else
      do (s, st1) <- import_signal env st0 mpos msgid id ds;
      (let sp := get_start_bit ds in
       if ds_muxed ds
       then Ok (st1, muxed ++ [((s, []), ds)], stds, if sp >? last then sp else last)
       else Ok (st1, muxed, stds ++ [((s, []), ds)], last)))
    isigs (Ok (st, muxed, stds, last)) = Ok r ->
  incl muxed (snd (fst (fst r))) /\ incl stds (snd (fst r)) /\
  forall id ds, In (id, ds) isigs -> id <> mid ->
    (ds_muxed ds = true /\ pend1 env msgid id ds (snd (fst (fst r)))) \/
    (ds_muxed ds = false /\ pend1 env msgid id ds (snd (fst r))).
Proof.
  intros env mpos msgid mid isigs. induction isigs as [|[id ds] q IH]; intros st muxed stds last r H; cbn [fold_left] in H.
  - inversion H; subst. cbn. repeat split; try apply incl_refl. intros id ds [].
  - cbn [bind] in H. destruct (id =? mid) eqn:Eid.
    + apply IH in H. destruct H as [H1 [H2 H3]]. repeat split; try assumption.
      intros id' ds' [Heq|Hin] Hne; [inversion Heq; subst; lia|apply H3; assumption].
    + destruct (import_signal env st mpos msgid id ds) as [[s st1]|w] eqn:E; cbn [bind] in H.
      2:{ rewrite fold_result_err in H; [discriminate|intros [i x] w'; reflexivity]. }
      apply import_signal_spec in E. destruct E as [Hid Hf].
      destruct (ds_muxed ds) eqn:Em; apply IH in H; destruct H as [H1 [H2 H3]]; repeat split;
        try (eapply incl_tran; [|eassumption]; apply incl_appl, incl_refl); try assumption.
      * intros id' ds' [Heq|Hin] Hne; [|apply H3; assumption]. inversion Heq; subst id' ds'. left. split; [assumption|].
        exists s. split; [apply H1; apply in_or_app; right; left; reflexivity|]. split; assumption.
      * intros id' ds' [Heq|Hin] Hne; [|apply H3; assumption]. inversion Heq; subst id' ds'. right. split; [assumption|].
        exists s. split; [apply H2; apply in_or_app; right; left; reflexivity|]. split; assumption.
Qed.

(* ---- the second loop: plain signals between the switch and the last multiplexed start join the
   multiplexer, the others are inserted at top level ---- *)
Lemma one_mux_loop2 : forall msize mstart last stds st sg muxed2 r,
  fold_left (fun acc (p : subtree * dsignal) => let '(t, ds) := p in
      do (ms, muxed2) <- acc;
      (let sp := get_start_bit ds in
       if (sp >? mstart) && (sp <? last) then Ok (ms, muxed2 ++ [(t, ds)])
       else do ms' <- (let '(st0, sigs0) := ms in
                       do sigs' <- msg_insert (is_enums st0) msize sigs0 t sp; Ok (st0, sigs'));
            Ok (ms', muxed2))) stds (Ok ((st, sg), muxed2)) = Ok r ->
  incl muxed2 (snd r) /\ incl sg (snd (fst r)) /\
  forall t ds, In (t, ds) stds ->
    In (t, ds) (snd r) \/ In (place (fst t) (get_start_bit ds) None []) (snd (fst r)).
Proof.
  intros msize mstart last stds. induction stds as [|[t ds] q IH]; intros st sg muxed2 r H; cbn [fold_left] in H.
  - inversion H; subst. cbn. repeat split; try apply incl_refl. intros t ds [].
  - cbn [bind] in H. destruct ((get_start_bit ds >? mstart) && (get_start_bit ds <? last)).
    + apply IH in H. destruct H as [H1 [H2 H3]]. repeat split.
      * eapply incl_tran; [|exact H1]. apply incl_appl, incl_refl.
      * assumption.
      * intros t' ds' [Heq|Hin]; [|apply H3; assumption]. inversion Heq; subst. left. apply H1. apply in_or_app. right. left. reflexivity.
    + destruct (msg_insert (is_enums st) msize sg t (get_start_bit ds)) as [sg'|w] eqn:Ei; cbn [bind] in H.
      2:{ rewrite fold_result_err in H; [discriminate|intros [x y] w'; reflexivity]. }
      apply msg_insert_form in Ei. apply IH in H. destruct H as [H1 [H2 H3]]. repeat split.
      * assumption.
      * eapply incl_tran; [|exact H2]. subst sg'. apply incl_appl, incl_refl.
      * intros t' ds' [Heq|Hin]; [|apply H3; assumption]. inversion Heq; subst t' ds'. right. apply H2. subst sg'.
        apply in_or_app. right. left. reflexivity.
Qed.

Definition one_muxor (dm : dmessage) (mid : Z) (dmx : dsignal) : Prop :=
  filter (fun p : Z * dsignal => ds_muxor (snd p)) (index_from 0 (sorted_signals dm)) = [(mid, dmx)].

(* what the import of a one-switch message yields *)
Theorem import_simple_mux : forall env st mpos dm mid dmx st' sigs,
  one_muxor dm mid dmx ->
  import_message_signals env st mpos dm = Ok (st', sigs) ->
  let mstart := get_start_bit dmx in
  let msize := ds_size dmx in
  (exists mx, In mx sigs /\ s_id mx = mid /\ s_name mx = ds_name dmx /\ s_kind mx = KMux /\ s_parent mx = None /\
              s_rel mx = mstart /\ s_gcount mx = calc_value_from_size msize /\ msize <> 0 /\ 0 < s_gcount mx /\ 0 < s_gsize mx /\
              s_desc mx = sig_comment env (dm_id dm) (ds_name dmx)) /\
  forall id ds, In (id, ds) (index_from 0 (sorted_signals dm)) -> id <> mid ->
    exists s, In s sigs /\ s_id s = id /\ base_faithful env (dm_id dm) ds s /\
      ((ds_muxed ds = false /\ s_parent s = None /\ s_rel s = get_start_bit ds) \/
       (s_parent s = Some mid /\ s_rel s = get_start_bit ds - mstart - msize /\
        exists g, child_groups env (dm_id dm) (calc_value_from_size msize) s ds = Ok g /\ s_groups s = norm_groups g)).
Proof.
  intros env st mpos dm mid dmx st' sigs Hone H mstart msize.
  unfold import_message_signals in H. cbv zeta in H. fold (sorted_signals dm) in H.
  unfold one_muxor in Hone. rewrite Hone in H.
  destruct (ds_muxed dmx); [discriminate|].
  apply bind_ok in H. destruct H as [[[[st1 muxed] stds] last] [H1 H]].
  apply one_mux_loop1 in H1. cbn [fst snd] in H1. destruct H1 as [_ [_ L1]].
  apply bind_ok in H. destruct H as [[[st2 sg] muxed2] [H2 H]].
  apply one_mux_loop2 in H2. cbn [fst snd] in H2. destruct H2 as [M1 [_ M3]].
  apply bind_ok in H. destruct H as [[mt st3] [H3 H]].
  apply bind_ok in H. destruct H as [sg' [Hins H]]. inversion H; subst st' sigs. clear H.
  apply msg_insert_form in Hins.
  (* the multiplexer *)
  unfold import_mux_signal in H3.
  destruct (existsb _ muxed2); [discriminate|].
  destruct (ds_size dmx =? 0) eqn:Ez; [discriminate|].
  destruct (calc_value_from_size (ds_size dmx) <=? 0) eqn:Egc; [discriminate|].
  match type of H3 with (if ?c then _ else _) = _ => destruct c eqn:Egs; [discriminate|] end.
  apply bind_ok in H3. destruct H3 as [[kids belows] [Hk H3]].
  apply mux_children_spec in Hk. destruct Hk as [Hkids Hbel].
  injection H3 as Hmt Hst3. subst mt. cbn [fst snd] in Hins.
  match type of Hkids with
  | Forall2 (child_of _ _ ?m _ _) _ _ => set (mx0 := m) in *
  end.
  split.
  - eexists. split; [rewrite Hins, !in_app_iff; right; left; left; reflexivity|].
    unfold sig_comment. destruct (lookup key_eqb (dm_id dm, ds_name dmx) (ie_sig_desc env));
      cbn; repeat split; try reflexivity; try lia.
  - intros id ds Hin Hne.
    assert (Hchild : forall s, In ((s, []), ds) muxed2 -> s_id s = id -> base_faithful env (dm_id dm) ds s ->
              exists s', In s' sg' /\ s_id s' = id /\ base_faithful env (dm_id dm) ds s' /\
                s_parent s' = Some mid /\ s_rel s' = get_start_bit ds - mstart - msize /\
                exists g, child_groups env (dm_id dm) (calc_value_from_size msize) s' ds = Ok g /\ s_groups s' = norm_groups g).
    { intros s Hs Hid Hb. destruct (Forall2_in_l _ _ _ _ Hkids Hs) as [c [Hc [g [Hg Hcf]]]]. cbn [fst snd] in *.
      exists c. split; [rewrite Hins, !in_app_iff; right; right; left; exact Hc|].
      subst c. split; [exact Hid|]. split; [exact Hb|].
      split; [cbn [s_parent place]; destruct (lookup key_eqb (dm_id dm, ds_name dmx) (ie_sig_desc env)); reflexivity|].
      split; [reflexivity|]. exists g. split; [|reflexivity].
      unfold child_groups in *. cbn [s_name place].
      destruct (lookup key_eqb (dm_id dm, ds_name dmx) (ie_sig_desc env)); exact Hg. }
    destruct (L1 id ds Hin Hne) as [[Hm [s [Hs [Hid Hb]]]]|[Hm [s [Hs [Hid Hb]]]]].
    + destruct (Hchild s (M1 _ Hs) Hid Hb) as [s' [A [B [C D]]]]. exists s'. split; [exact A|]. split; [exact B|]. split; [exact C|]. right. exact D.
    + destruct (M3 _ _ Hs) as [Hmx|Htop].
      * destruct (Hchild s Hmx Hid Hb) as [s' [A [B [C D]]]]. exists s'. split; [exact A|]. split; [exact B|]. split; [exact C|]. right. exact D.
      * cbn [fst] in Htop. exists (place s (get_start_bit ds) None []).
        split; [rewrite Hins, !in_app_iff; left; exact Htop|].
        split; [exact Hid|]. split; [exact Hb|]. left. repeat split; assumption.
Qed.

(* ------------------------------------------------------------------------------------------ *)
(* lifting a per-message fact about importMessage's signals to the imported bus                 *)
(* ------------------------------------------------------------------------------------------ *)
Lemma import_messages_fold_gen : forall env (Q : dmessage -> list signal -> Prop) nodes,
  (forall st mpos dm st' sigs, import_message_signals env st mpos dm = Ok (st', sigs) -> Q dm sigs) ->
  forall dms st msgs st' msgs',
  fold_left (fun acc dm => do a <- acc; import_message env a nodes dm) dms (Ok (st, msgs)) = Ok (st', msgs') ->
  exists new, msgs' = msgs ++ new /\ Forall2 (fun dm m => Q dm (m_signals m)) dms new.
Proof.
  intros env Q nodes HQ dms. induction dms as [|dm r IH]; intros st msgs st' msgs' H; cbn [fold_left] in H.
  - inversion H; subst. exists []. rewrite app_nil_r. split; constructor.
  - cbn [bind] in H.
    destruct (import_message env (st, msgs) nodes dm) as [[st1 msgs1]|w] eqn:E.
    2:{ rewrite fold_result_err in H by reflexivity. discriminate. }
    apply IH in H. destruct H as [new [Hn Hf]]. apply import_message_inv in E.
    destruct E as [m [sigs [Hm [_ [Hsg [Hsig _]]]]]]. subst msgs1.
    exists (m :: new). rewrite Hn, <- app_assoc. split; [reflexivity|].
    constructor; [|assumption]. rewrite Hsg. eapply HQ; eauto.
Qed.

Theorem import_per_message : forall (Q : ienv -> dmessage -> list signal -> Prop),
  (forall env st mpos dm st' sigs, import_message_signals env st mpos dm = Ok (st', sigs) -> Q env dm sigs) ->
  (forall env dm l l', map sig_skel l = map sig_skel l' -> Q env dm l -> Q env dm l') ->
  forall d b, import d = Ok b ->
  exists se : list (key * Z),
    (forall k, (exists e, lookup key_eqb k se = Some e) <-> has_valenc d k) /\
    Forall2 (fun dm m => Q (doc_env d se) dm (m_signals m)) (d_messages d) (b_messages b).
Proof.
  intros Q HQ Hskel d b H. apply import_inv in H.
  destruct H as [reg [es [se [nodes [st4 [msgs [b1 [_ [Hv [_ [Hm [Hb Hbb]]]]]]]]]]]].
  exists se. split.
  - intros k. rewrite lookup_some_in. rewrite (valenc_fold_keys _ _ _ _ _ _ Hv k). cbn [map In]. unfold has_valenc. tauto.
  - apply (import_messages_fold_gen _ (Q (doc_env d se))) in Hm; [|intros; eapply HQ; eauto].
    destruct Hm as [new [Hn Hf]]. cbn [app] in Hn. subst new.
    apply import_attributes_skel in Hb. unfold bus_skel in Hb.
    cbn [b_name b_desc b_nodes b_enums b_messages] in Hb.
    assert (Hk : map msg_skel msgs = map msg_skel (b_messages b1)) by congruence.
    assert (Hb' : b_messages b = b_messages b1) by (subst b; destruct (existsb _ _); reflexivity).
    rewrite Hb'. clear - Hk Hf Hskel. revert Hk Hf. generalize (b_messages b1) as l1. generalize (d_messages d) as dms.
    induction msgs as [|m r IH]; intros dms l1 Hk Hf; destruct l1 as [|m1 r1]; try (cbn in Hk; discriminate Hk).
    + inversion Hf; subst. constructor.
    + inversion Hf; subst. cbn [map] in Hk. apply cons_inj in Hk. destruct Hk as [Hs Hr].
      constructor; [|apply IH; assumption].
      eapply Hskel; [|eassumption]. apply (f_equal snd) in Hs. exact Hs.
Qed.

Lemma skel_in : forall l l' s, map sig_skel l = map sig_skel l' -> In s l -> exists s', In s' l' /\ sig_skel s' = sig_skel s.
Proof.
  induction l as [|x r IH]; intros l' s Hm Hin; [destruct Hin|].
  destruct l' as [|y q]; [cbn in Hm; discriminate Hm|]. cbn [map] in Hm.
  apply cons_inj in Hm. pose proof Hm as Hx.
  destruct Hx as [Hx Hr]. destruct Hin as [<-|Hin]; [exists y; split; [left; reflexivity|symmetry; exact Hx]|].
  destruct (IH q s Hr Hin) as [s' [A B]]. exists s'. split; [right; assumption|assumption].
Qed.

(* the statement of import_simple_mux as a property of a message's signal list *)
Definition simple_mux_faithful (env : ienv) (dm : dmessage) (sigs : list signal) : Prop :=
  forall mid dmx, one_muxor dm mid dmx ->
  let mstart := get_start_bit dmx in
  let msize := ds_size dmx in
  (exists mx, In mx sigs /\ s_id mx = mid /\ s_name mx = ds_name dmx /\ s_kind mx = KMux /\ s_parent mx = None /\
              s_rel mx = mstart /\ s_gcount mx = calc_value_from_size msize /\ msize <> 0 /\ 0 < s_gcount mx /\ 0 < s_gsize mx /\
              s_desc mx = sig_comment env (dm_id dm) (ds_name dmx)) /\
  forall id ds, In (id, ds) (index_from 0 (sorted_signals dm)) -> id <> mid ->
    exists s, In s sigs /\ s_id s = id /\ base_faithful env (dm_id dm) ds s /\
      ((ds_muxed ds = false /\ s_parent s = None /\ s_rel s = get_start_bit ds) \/
       (s_parent s = Some mid /\ s_rel s = get_start_bit ds - mstart - msize /\
        exists g, child_groups env (dm_id dm) (calc_value_from_size msize) s ds = Ok g /\ s_groups s = norm_groups g)).

Lemma simple_mux_faithful_skel : forall env dm l l', map sig_skel l = map sig_skel l' ->
  simple_mux_faithful env dm l -> simple_mux_faithful env dm l'.
Proof.
  intros env dm l l' Hm H mid dmx Hone mstart msize. destruct (H mid dmx Hone) as [[mx [Hin Hmx]] Hall]. split.
  - destruct (skel_in _ _ _ Hm Hin) as [mx' [Hin' Hk]]. exists mx'. split; [assumption|].
    destruct mx, mx'. unfold sig_skel in Hk. cbn in Hk. inversion Hk; subst. exact Hmx.
  - intros id ds Hi Hne. destruct (Hall id ds Hi Hne) as [s [Hin1 Hs]].
    destruct (skel_in _ _ _ Hm Hin1) as [s' [Hin' Hk]]. exists s'. split; [assumption|].
    destruct s, s'. unfold sig_skel in Hk. cbn in Hk. inversion Hk; subst. exact Hs.
Qed.

(* import_simple_mux_faithful: for every message of the file that has exactly one multiplexor switch *)
Theorem import_simple_mux_faithful : forall d b, import d = Ok b ->
  exists se : list (key * Z),
    (forall k, (exists e, lookup key_eqb k se = Some e) <-> has_valenc d k) /\
    Forall2 (fun dm m => simple_mux_faithful (doc_env d se) dm (m_signals m)) (d_messages d) (b_messages b).
Proof.
  apply import_per_message.
  - intros env st mpos dm st' sigs H mid dmx Hone. eapply import_simple_mux; eauto.
  - apply simple_mux_faithful_skel.
Qed.
