(* C10 — the importer's signals map is COMPLETE: every signal of the file is registered, under its message's
   CAN-ID and its name, with the position of the message and its index - in each of the three cases of
   importMessage - and entries are never removed.  With the soundness of the map (ProofsAttrsSig) and the
   uniqueness of CAN-IDs and names this makes the lookup of a signal attribute line exact. *)
From Coq Require Import String Ascii ZArith List Bool Lia.
From Coq Require Import ZifyBool.
From Acme.C10 Require Import DbcDoc BusModel Import Proofs ProofsEnum ProofsLayout ProofsFaithful ProofsMux ProofsIds.
Import ListNotations.
Open Scope Z_scope.

Lemma NoDup_map_inj_l : forall {A B} (f : A -> B) l x y, NoDup (map f l) -> In x l -> In y l -> f x = f y -> x = y.
Proof.
  intros A B f l. induction l as [|a r IH]; intros x y Hnd Hx Hy Hf; [destruct Hx|]. cbn [map] in Hnd. inversion Hnd as [|? ? Hni Hr]; subst.
  destruct Hx as [<-|Hx], Hy as [<-|Hy]; [reflexivity| | |apply IH; assumption].
  - exfalso. apply Hni. rewrite Hf. apply in_map. assumption.
  - exfalso. apply Hni. rewrite <- Hf. apply in_map. assumption.
Qed.

Definition ext (st st' : istate) : Prop := forall e, In e (is_sigmap st) -> In e (is_sigmap st').
Lemma ext_refl : forall st, ext st st. Proof. intros st e H. exact H. Qed.
Lemma ext_trans : forall a b c, ext a b -> ext b c -> ext a c. Proof. intros a b c H1 H2 e H. apply H2, H1, H. Qed.

Lemma import_signal_map : forall env st mpos msgid id ds s st',
  import_signal env st mpos msgid id ds = Ok (s, st') -> is_sigmap st' = ((msgid, ds_name ds), (mpos, id)) :: is_sigmap st.
Proof.
  intros env st mpos msgid id ds s st' H. unfold import_signal in H.
  apply bind_ok in H. destruct H as [[s0 st2] [H0 H]]. inversion H; subst s st'. clear H. cbn [is_sigmap set_sigmap].
  destruct (lookup key_eqb (msgid, ds_name ds) (ie_sig_enums env)).
  - apply bind_ok in H0. destruct H0 as [[ei es1] [_ H0]]. inversion H0; subst. destruct st; reflexivity.
  - apply bind_ok in H0. destruct H0 as [s1 [_ H0]]. inversion H0; subst. reflexivity.
Qed.

Lemma import_mux_signal_map : forall env st mpos msgid msz id dmx muxed t st',
  import_mux_signal env st mpos msgid msz id dmx muxed = Ok (t, st') ->
  is_sigmap st' = ((msgid, ds_name dmx), (mpos, id)) :: is_sigmap st.
Proof.
  intros env st mpos msgid msz id dmx muxed t st' H. unfold import_mux_signal in H.
  destruct (existsb _ muxed); [discriminate|].
  destruct (ds_size dmx =? 0); [discriminate|].
  destruct (calc_value_from_size (ds_size dmx) <=? 0); [discriminate|].
  match type of H with (if ?c then _ else _) = _ => destruct c; [discriminate|] end.
  apply bind_ok in H. destruct H as [[kids belows] [_ H]]. inversion H; subst. reflexivity.
Qed.

Lemma ext_cons : forall st st' e, is_sigmap st' = e :: is_sigmap st -> ext st st' /\ In e (is_sigmap st').
Proof. intros st st' e H. unfold ext. rewrite H. split; [intros x Hx; right; exact Hx|left; reflexivity]. Qed.

(* a fold whose steps only extend the map, and register the entry of the selected elements *)
Lemma fold_reg : forall {A B} (f : result A -> B -> result A) (stof : A -> istate) (sel : B -> bool) (ent : B -> key * (nat * Z)),
  (forall x w, f (Err w) x = Err w) ->
  forall l, (forall a x a', In x l -> f (Ok a) x = Ok a' -> ext (stof a) (stof a') /\ (sel x = true -> In (ent x) (is_sigmap (stof a')))) ->
  forall a0 a, fold_left f l (Ok a0) = Ok a ->
    ext (stof a0) (stof a) /\ forall x, In x l -> sel x = true -> In (ent x) (is_sigmap (stof a)).
Proof.
  intros A B f stof sel ent Herr l. induction l as [|x r IH]; intros Hstep a0 a H; cbn [fold_left] in H.
  - inversion H; subst. split; [apply ext_refl|intros x []].
  - destruct (f (Ok a0) x) as [a1|w] eqn:E.
    2:{ rewrite fold_result_err in H by exact Herr. discriminate. }
    destruct (Hstep a0 x a1 (or_introl eq_refl) E) as [S1 S2].
    destruct (IH (fun a x' a' Hin => Hstep a x' a' (or_intror Hin)) a1 a H) as [I1 I2].
    split; [eapply ext_trans; eauto|]. intros y [<-|Hy] Hs; [apply I1, S2, Hs|apply I2; assumption].
Qed.

Section Reg.
  Variables (env : ienv) (mpos : nat) (dm : dmessage).
  Let msgid := dm_id dm.
  Let isigs := index_from 0 (sorted_signals dm).
  Definition entry_of (p : Z * dsignal) : key * (nat * Z) := ((msgid, ds_name (snd p)), (mpos, fst p)).

  Theorem import_message_signals_reg : forall st st' sigs,
    import_message_signals env st mpos dm = Ok (st', sigs) ->
    ext st st' /\ forall p, In p isigs -> In (entry_of p) (is_sigmap st').
  Proof.
    intros st st' sigs H.
    unfold import_message_signals in H. cbv zeta in H. fold (sorted_signals dm) in H. fold isigs in H. fold msgid in H.
    destruct (filter (fun p : Z * dsignal => ds_muxor (snd p)) isigs) as [|[mid dmx] [|m2 mr]] eqn:Emux.
    - (* no switch *)
      destruct (existsb _ _); [discriminate|].
      assert (FR : ext st st' /\ forall x, In x isigs -> (fun _ : Z * dsignal => true) x = true -> In (entry_of x) (is_sigmap st')).
      { match type of H with fold_left ?f _ _ = _ =>
          apply (fold_reg f (fun a : istate * list signal => fst a) (fun _ => true) entry_of) with (a0 := (st, @nil signal)) (a := (st', sigs)) end;
          [intros [i y] w; reflexivity| |exact H].
        intros [st0 sg] [id ds] [st2 sg2] _ Hx. cbn [bind fst snd] in *.
        destruct (import_signal env st0 mpos msgid id ds) as [[s st1]|w] eqn:E; cbn [bind] in Hx; [|discriminate].
        apply bind_ok in Hx. destruct Hx as [sg' [_ Hx]]. inversion Hx; subst.
        destruct (ext_cons _ _ _ (import_signal_map _ _ _ _ _ _ _ _ E)) as [X1 X2]. split; [exact X1|intros _; exact X2]. }
      destruct FR as [F1 F2].
      split; [exact F1|intros p Hp; apply F2; [assumption|reflexivity]].
    - (* one switch *)
      assert (Hmid : In (mid, dmx) isigs).
      { assert (Hf : In (mid, dmx) (filter (fun p : Z * dsignal => ds_muxor (snd p)) isigs)) by (rewrite Emux; left; reflexivity).
        apply filter_In in Hf. tauto. }
      destruct (ds_muxed dmx); [discriminate|].
      apply bind_ok in H. destruct H as [[[[st1 muxed] stds] last] [H1 H]].
      assert (FR : ext st st1 /\ forall x, In x isigs -> negb (fst x =? mid) = true -> In (entry_of x) (is_sigmap st1)).
      { match type of H1 with fold_left ?f _ _ = _ =>
          apply (fold_reg f (fun a : istate * list (subtree * dsignal) * list (subtree * dsignal) * Z => fst (fst (fst a)))
                   (fun p : Z * dsignal => negb (fst p =? mid)) entry_of) with (a0 := (st, @nil (subtree * dsignal), @nil (subtree * dsignal), -1)) (a := (st1, muxed, stds, last)) end;
          [intros [i y] w; reflexivity| |exact H1].
        intros [[[st0 mu] sd] la] [id ds] a' _ Hx. cbn [bind fst snd] in *.
        destruct (id =? mid) eqn:Eid; [inversion Hx; subst; cbn [fst snd]; split; [apply ext_refl|intros Hc; discriminate Hc]|].
        destruct (import_signal env st0 mpos msgid id ds) as [[s st2]|w] eqn:E; cbn [bind] in Hx; [|discriminate].
        destruct (ext_cons _ _ _ (import_signal_map _ _ _ _ _ _ _ _ E)) as [X1 X2].
        destruct (ds_muxed ds); inversion Hx; subst; cbn [fst snd]; split; try exact X1; intros _; exact X2. }
      destruct FR as [F1 F2].
      apply bind_ok in H. destruct H as [[[st2 sg] muxed2] [H2 H]].
      assert (Hst2 : st2 = st1).
      { revert H2. generalize stds. intros l.
        assert (G : forall l sg0 mu0 r,
                  fold_left (fun acc (p : subtree * dsignal) => let '(t, ds) := p in
                      do (ms, muxed2) <- acc;
                      (let sp := get_start_bit ds in
                       if (sp >? get_start_bit dmx) && (sp <? last) then Ok (ms, muxed2 ++ [(t, ds)])
                       else do ms' <- (let '(st0, sigs0) := ms in
                                       do sigs' <- msg_insert (is_enums st0) (dm_size dm) sigs0 t sp; Ok (st0, sigs'));
                            Ok (ms', muxed2))) l (Ok ((st1, sg0), mu0)) = Ok r -> fst (fst r) = st1).
        { induction l0 as [|[t ds] q IH]; intros sg0 mu0 r Hf; cbn [fold_left] in Hf.
          - inversion Hf; subst. reflexivity.
          - cbn [bind] in Hf. destruct ((get_start_bit ds >? get_start_bit dmx) && (get_start_bit ds <? last)).
            + eapply IH; exact Hf.
            + destruct (msg_insert (is_enums st1) (dm_size dm) sg0 t (get_start_bit ds)) as [sg'|w] eqn:Ei; cbn [bind] in Hf.
              * eapply IH; exact Hf.
              * rewrite fold_result_err in Hf; [discriminate|intros [x y] w'; reflexivity]. }
        intros Hf. apply (G l [] muxed _ Hf). }
      subst st2.
      apply bind_ok in H. destruct H as [[mt st3] [H3 H]].
      apply bind_ok in H. destruct H as [sg' [_ H]]. inversion H; subst.
      destruct (ext_cons _ _ _ (import_mux_signal_map _ _ _ _ _ _ _ _ _ _ H3)) as [X1 X2].
      split; [eapply ext_trans; eauto|]. intros [id ds] Hp. destruct (id =? mid) eqn:Eid.
      + apply Z.eqb_eq in Eid. subst id.
        assert (ds = dmx).
        { assert (E : (mid, ds) = (mid, dmx)) by (apply (NoDup_map_inj_l fst isigs); [apply index_from_fst_nodup|assumption|assumption|reflexivity]). inversion E. reflexivity. }
        subst ds. exact X2.
      + apply X1. apply (F2 (id, ds) Hp). cbn [fst]. rewrite Eid. reflexivity.
    - (* several switches *)
      set (muxes := (mid, dmx) :: m2 :: mr) in *.
      set (dflt := (0, mkdsignal EmptyString false false 0 0 0 LittleEndian false fl_one fl_zero fl_zero fl_zero EmptyString [])) in *.
      apply bind_ok in H. destruct H as [[[st1 sg1] groups1] [H1 H]].
      assert (FR : ext st st1 /\ forall x, In x isigs -> negb (ds_muxor (snd x)) = true -> In (entry_of x) (is_sigmap st1)).
      { match type of H1 with fold_left ?f _ _ = _ =>
          apply (fold_reg f (fun a : istate * list signal * list (list (subtree * dsignal)) => fst (fst a))
                   (fun p : Z * dsignal => negb (ds_muxor (snd p))) entry_of) with (a0 := (st, @nil signal, repeat (@nil (subtree * dsignal)) (length muxes))) (a := (st1, sg1, groups1)) end;
          [intros [i y] w; reflexivity| |exact H1].
        intros [[st0 sg0] gr] [id ds] a' _ Hx. cbn [bind fst snd] in *.
        destruct (ds_muxor ds); [inversion Hx; subst; cbn [fst snd]; split; [apply ext_refl|intros Hc; discriminate Hc]|].
        destruct (import_signal env st0 mpos msgid id ds) as [[s st2]|w] eqn:E; cbn [bind] in Hx; [|discriminate].
        destruct (ext_cons _ _ _ (import_signal_map _ _ _ _ _ _ _ _ E)) as [X1 X2].
        destruct (ds_muxed ds).
        - destruct (lookup key_eqb _ (ie_ext_muxes env)); [|discriminate].
          destruct (lookup String.eqb _ _); [|discriminate]. inversion Hx; subst. cbn [fst snd]. split; [exact X1|intros _; exact X2].
        - apply bind_ok in Hx. destruct Hx as [[st3 sg3] [Hy Hx]]. inversion Hx; subst. cbn [fst snd].
          apply bind_ok in Hy. destruct Hy as [sg' [_ Hy]]. inversion Hy; subst. split; [exact X1|intros _; exact X2]. }
      destruct FR as [F1 F2].
      apply bind_ok in H. destruct H as [[[st2 sg2] groups2] [H2 H]]. inversion H; subst. clear H.
      assert (GR : ext st1 st' /\ forall j, In j (rev (seq 0 (length muxes))) -> (fun _ : nat => true) j = true -> In (entry_of (nth j muxes dflt)) (is_sigmap st')).
      { match type of H2 with fold_left ?f _ _ = _ =>
          apply (fold_reg f (fun a : istate * list signal * list (list (subtree * dsignal)) => fst (fst a))
                   (fun _ : nat => true) (fun j => entry_of (nth j muxes dflt))) with (a0 := (st1, sg1, groups1)) (a := (st', sigs, groups2)) end;
          [intros x w; reflexivity| |exact H2].
        intros [[st0 sg0] gr] j a' _ Hx. cbn [bind fst snd] in *.
        destruct (nth j muxes dflt) as [mid' dmx'] eqn:En.
        destruct (import_mux_signal env st0 mpos msgid (dm_size dm) mid' dmx' (nth j gr [])) as [[mt st3]|w] eqn:E; cbn [bind] in Hx; [|discriminate].
        destruct (ext_cons _ _ _ (import_mux_signal_map _ _ _ _ _ _ _ _ _ _ E)) as [X1 X2].
        destruct (lookup key_eqb _ (ie_ext_muxes env)).
        + destruct (lookup String.eqb _ _); [|discriminate]. destruct (Nat.leb j n); [discriminate|].
          inversion Hx; subst. cbn [fst snd]. split; [exact X1|intros _; exact X2].
        + destruct (ds_muxed dmx'); [discriminate|].
          apply bind_ok in Hx. destruct Hx as [[st4 sg4] [Hy Hx]]. inversion Hx; subst. cbn [fst snd].
          apply bind_ok in Hy. destruct Hy as [sg' [_ Hy]]. inversion Hy; subst. split; [exact X1|intros _; exact X2]. }
      destruct GR as [G1 G2].
      split; [eapply ext_trans; eauto|]. intros [id ds] Hp. destruct (ds_muxor ds) eqn:Em.
      + assert (Hm : In (id, ds) muxes) by (rewrite <- Emux; apply filter_In; split; assumption).
        apply (In_nth _ _ dflt) in Hm. destruct Hm as [j [Hj Hn]]. rewrite <- Hn. apply G2; [|reflexivity].
        apply -> in_rev. apply in_seq. lia.
      + apply G1. apply (F2 (id, ds) Hp). cbn [snd]. rewrite Em. reflexivity.
  Qed.
End Reg.
