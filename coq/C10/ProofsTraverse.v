(* C10 — a generic walk through importMessage's three cases (no switch / one switch / several switches):
   a predicate P on signals that `place` preserves and a predicate Q on the importer's state, both established
   by every importSignal / multiplexer construction, hold for every signal of the imported message and for
   the final state.  Instances: the attribute fields of a freshly imported signal are empty; the signals map
   only holds entries of the message being imported. *)
From Coq Require Import String Ascii ZArith List Bool Lia.
From Coq Require Import ZifyBool.
From Acme.C10 Require Import DbcDoc BusModel Import Proofs ProofsEnum ProofsLayout ProofsFaithful ProofsMux ProofsIds.
Import ListNotations.
Open Scope Z_scope.

Section Walk.
  Variables (env : ienv) (mpos : nat) (dm : dmessage).
  Variable P : signal -> Prop.
  Variable Q : istate -> Prop.
  Let msgid := dm_id dm.
  Let isigs := index_from 0 (sorted_signals dm).
  Definition tree_G (t : subtree) : Prop := P (fst t) /\ forall d, In d (snd t) -> P d.
  Definition pend_G (l : list (subtree * dsignal)) : Prop := Forall (fun p => tree_G (fst p)) l.

  Hypothesis HP_place : forall s rel p g, P s -> P (place s rel p g).
  Hypothesis HP_desc : forall s dsc, P s -> P (set_desc s dsc).
  Hypothesis H_sig : forall st id ds s st', Q st -> In (id, ds) isigs ->
    import_signal env st mpos msgid id ds = Ok (s, st') -> P s /\ Q st'.
  Hypothesis HP_mux : forall id name gc gs, 0 < gc -> 0 < gs ->
    P (mksignal id name KMux 0 None [] 0 false fl_one fl_zero fl_zero fl_zero EmptyString 0 gc gs EmptyString fl_zero 0 []).
  Hypothesis HQ_mux : forall st id dmx, Q st -> In (id, dmx) isigs ->
    Q (set_sigmap st (((msgid, ds_name dmx), (mpos, id)) :: is_sigmap st)).

  Lemma pend_G_snoc : forall l p, pend_G l -> tree_G (fst p) -> pend_G (l ++ [p]).
  Proof. intros l p H Hp. apply Forall_app. split; [assumption|constructor; [assumption|constructor]]. Qed.
  Lemma app_nth_pend_G : forall n p groups, Forall pend_G groups -> tree_G (fst p) -> Forall pend_G (app_nth n p groups).
  Proof.
    intros n p groups Hg Hp. unfold app_nth. apply replace_nth_Forall; [assumption|].
    apply pend_G_snoc; [|assumption]. apply nth_Forall_default; [assumption|constructor].
  Qed.

  Lemma msg_insert_G : forall es msize sigs t start sigs',
    (forall x, In x sigs -> P x) -> tree_G t -> msg_insert es msize sigs t start = Ok sigs' -> forall x, In x sigs' -> P x.
  Proof.
    intros es msize sigs [s below] start sigs' Ha [T1 T2] H. apply msg_insert_form in H. subst sigs'. cbn [fst snd] in *.
    intros x Hx. apply in_app_or in Hx. destruct Hx as [Hx|Hx]; [apply Ha; assumption|].
    cbn [app] in Hx. destruct Hx as [<-|Hx]; [apply HP_place; exact T1|apply T2; assumption].
  Qed.

  Lemma mux_children_G : forall es mx mstart msize muxed kids belows,
    pend_G muxed -> mux_children env es msgid mx mstart msize muxed = Ok (kids, belows) ->
    forall d, In d (kids ++ belows) -> P d.
  Proof.
    intros es mx mstart msize muxed kids belows Hall H. unfold mux_children in H.
    assert (Hgen : forall l k0 b0 k1 b1, pend_G l -> (forall d, In d (k0 ++ b0) -> P d) ->
              fold_left (fun acc (p : subtree * dsignal) =>
                 do (kids, belows) <- acc;
                 let rel := get_start_bit (snd p) - mstart - msize in
                 do gids <- child_groups env msgid (s_gcount mx) (fst (fst p)) (snd p);
                 do c <- mux_insert es mx kids (fst (fst p)) rel gids;
                 Ok (kids ++ [c], belows ++ snd (fst p))) l (Ok (k0, b0)) = Ok (k1, b1) ->
              forall d, In d (k1 ++ b1) -> P d).
    { induction l as [|[[s below] ds] r IH]; intros k0 b0 k1 b1 Hf H0 Hfold; cbn [fold_left] in Hfold.
      - inversion Hfold; subst. exact H0.
      - cbn [bind fst snd] in Hfold. inversion Hf as [|? ? Hp Hr]; subst.
        destruct (child_groups env msgid (s_gcount mx) s ds) as [g|w]; cbn [bind] in Hfold.
        2:{ rewrite fold_result_err in Hfold; [discriminate|intros x w'; reflexivity]. }
        destruct (mux_insert es mx k0 s (get_start_bit ds - mstart - msize) g) as [c|w] eqn:Ec; cbn [bind] in Hfold.
        2:{ rewrite fold_result_err in Hfold; [discriminate|intros x w'; reflexivity]. }
        eapply IH; [exact Hr| |exact Hfold].
        apply mux_insert_form in Ec. destruct Ec as [g' ->]. destruct Hp as [P1 P2]. cbn [fst snd] in *.
        intros d Hd. apply in_app_or in Hd. destruct Hd as [Hd|Hd].
        + apply in_app_or in Hd. destruct Hd as [Hd|[<-|[]]]; [apply H0; apply in_or_app; left; assumption|apply HP_place; exact P1].
        + apply in_app_or in Hd. destruct Hd as [Hd|Hd]; [apply H0; apply in_or_app; right; assumption|apply P2; assumption]. }
    eapply Hgen; [exact Hall| |exact H]. intros d [].
  Qed.

  Lemma import_mux_signal_G : forall st msize id dmx muxed t st',
    Q st -> In (id, dmx) isigs -> pend_G muxed ->
    import_mux_signal env st mpos msgid msize id dmx muxed = Ok (t, st') -> tree_G t /\ Q st'.
  Proof.
    intros st msize id dmx muxed t st' Hq Hin Hall H. unfold import_mux_signal in H.
    destruct (existsb _ muxed); [discriminate|].
    destruct (ds_size dmx =? 0); [discriminate|].
    destruct (calc_value_from_size (ds_size dmx) <=? 0) eqn:Egc; [discriminate|].
    match type of H with (if ?c then _ else _) = _ => destruct c eqn:Egs; [discriminate|] end.
    apply bind_ok in H. destruct H as [[kids belows] [Hk H]]. inversion H; subst t st'. clear H.
    split; [|apply HQ_mux; assumption]. split; cbn [fst snd].
    - destruct (lookup key_eqb (msgid, ds_name dmx) (ie_sig_desc env)); [apply HP_desc|]; apply HP_mux; lia.
    - intros d Hd. eapply mux_children_G; eauto.
  Qed.

  Theorem import_message_signals_G : forall st st' sigs,
    Q st -> import_message_signals env st mpos dm = Ok (st', sigs) -> (forall x, In x sigs -> P x) /\ Q st'.
  Proof.
    intros st st' sigs Hq0 H.
    assert (Hempty : forall x : signal, In x [] -> P x) by (intros x []).
    unfold import_message_signals in H. cbv zeta in H. fold (sorted_signals dm) in H. fold isigs in H. fold msgid in H.
    destruct (filter (fun p : Z * dsignal => ds_muxor (snd p)) isigs) as [|[mid dmx] [|m2 mr]] eqn:Emux.
    - destruct (existsb _ _); [discriminate|].
      assert (Pf : (forall x, In x (snd (st', sigs)) -> P x) /\ Q (fst (st', sigs))); [|exact Pf].
      revert H. apply (fold_result_inv_in _ (fun a => (forall x, In x (snd a) -> P x) /\ Q (fst a))); [intros [i x] w; reflexivity| |split; [exact Hempty|exact Hq0]].
      intros [st0 sg] [id ds] [st2 sg2] Hin [Pa Qa] Hx. cbn [bind fst snd] in *.
      destruct (import_signal env st0 mpos msgid id ds) as [[s st1]|w] eqn:E; cbn [bind] in Hx; [|discriminate].
      destruct (H_sig _ _ _ _ _ Qa Hin E) as [Ps Qs].
      apply bind_ok in Hx. destruct Hx as [sg' [Hins Hx]]. inversion Hx; subst. split; [|exact Qs].
      eapply msg_insert_G; [exact Pa| |exact Hins]. split; [exact Ps|intros d []].
    - assert (Hmid : In (mid, dmx) isigs).
      { assert (Hf : In (mid, dmx) (filter (fun p : Z * dsignal => ds_muxor (snd p)) isigs)) by (rewrite Emux; left; reflexivity).
        apply filter_In in Hf. tauto. }
      destruct (ds_muxed dmx); [discriminate|].
      apply bind_ok in H. destruct H as [[[[st1 muxed] stds] last] [H1 H]].
      assert (P1 : (pend_G muxed /\ pend_G stds) /\ Q st1).
      { assert (Pf : (pend_G (snd (fst (fst (st1, muxed, stds, last)))) /\ pend_G (snd (fst (st1, muxed, stds, last)))) /\ Q (fst (fst (fst (st1, muxed, stds, last))))); [|exact Pf].
        revert H1. apply (fold_result_inv_in _ (fun a => (pend_G (snd (fst (fst a))) /\ pend_G (snd (fst a))) /\ Q (fst (fst (fst a)))));
          [intros [i x] w; reflexivity| |cbn [fst snd]; split; [split; constructor|exact Hq0]].
        intros [[[st0 mu] sd] la] [id ds] a' Hin [[Pm Ps] Qa] Hx. cbn [bind fst snd] in *.
        destruct (id =? mid); [inversion Hx; subst; cbn [fst snd]; auto|].
        destruct (import_signal env st0 mpos msgid id ds) as [[s st2]|w] eqn:E; cbn [bind] in Hx; [|discriminate].
        destruct (H_sig _ _ _ _ _ Qa Hin E) as [S3 Qs].
        assert (T3 : tree_G (s, [])) by (split; [exact S3|intros d []]).
        destruct (ds_muxed ds); inversion Hx; subst; cbn [fst snd]; (split; [split|exact Qs]); try assumption; apply pend_G_snoc; assumption. }
      destruct P1 as [[Pm Ps] Q1].
      apply bind_ok in H. destruct H as [[[st2 sg] muxed2] [H2 H]].
      assert (P2 : ((forall x, In x sg -> P x) /\ pend_G muxed2) /\ st2 = st1).
      { revert H2. revert Ps. generalize stds. intros l Ps.
        assert (G : forall l sg0 mu0 r, pend_G l -> (forall x, In x sg0 -> P x) -> pend_G mu0 ->
                  fold_left (fun acc (p : subtree * dsignal) => let '(t, ds) := p in
                      do (ms, muxed2) <- acc;
                      (let sp := get_start_bit ds in
                       if (sp >? get_start_bit dmx) && (sp <? last) then Ok (ms, muxed2 ++ [(t, ds)])
                       else do ms' <- (let '(st0, sigs0) := ms in
                                       do sigs' <- msg_insert (is_enums st0) (dm_size dm) sigs0 t sp; Ok (st0, sigs'));
                            Ok (ms', muxed2))) l (Ok ((st1, sg0), mu0)) = Ok r ->
                  ((forall x, In x (snd (fst r)) -> P x) /\ pend_G (snd r)) /\ fst (fst r) = st1).
        { induction l0 as [|[t ds] q IH]; intros sg0 mu0 r Hl Hlay Hmu Hf; cbn [fold_left] in Hf.
          - inversion Hf; subst. cbn. auto.
          - inversion Hl as [|? ? Ht Hq]; subst. cbn [bind] in Hf.
            destruct ((get_start_bit ds >? get_start_bit dmx) && (get_start_bit ds <? last)).
            + eapply IH; [exact Hq|exact Hlay| |exact Hf]. apply pend_G_snoc; assumption.
            + destruct (msg_insert (is_enums st1) (dm_size dm) sg0 t (get_start_bit ds)) as [sg'|w] eqn:Ei; cbn [bind] in Hf.
              * eapply IH; [exact Hq| |exact Hmu|exact Hf]. eapply msg_insert_G; eauto.
              * rewrite fold_result_err in Hf; [discriminate|intros [x y] w'; reflexivity]. }
        intros Hf. specialize (G l [] muxed _ Ps Hempty Pm Hf). cbn [fst snd] in G. exact G. }
      destruct P2 as [[Play Pm2] ->].
      apply bind_ok in H. destruct H as [[mt st3] [H3 H]].
      apply bind_ok in H. destruct H as [sg' [Hins H]]. inversion H; subst.
      destruct (import_mux_signal_G _ _ _ _ _ _ _ Q1 Hmid Pm2 H3) as [Tm Qm]. split; [|exact Qm].
      eapply msg_insert_G; [exact Play|exact Tm|exact Hins].
    - set (muxes := (mid, dmx) :: m2 :: mr) in *.
      assert (Hmuxes : forall j, (j < length muxes)%nat -> In (nth j muxes (0, mkdsignal EmptyString false false 0 0 0 LittleEndian false
                                                            fl_one fl_zero fl_zero fl_zero EmptyString [])) isigs).
      { intros j Hj. assert (Hf : In (nth j muxes (0, mkdsignal EmptyString false false 0 0 0 LittleEndian false
                                                            fl_one fl_zero fl_zero fl_zero EmptyString []))
                                     (filter (fun p : Z * dsignal => ds_muxor (snd p)) isigs)) by (rewrite Emux; apply nth_In; assumption).
        apply filter_In in Hf. tauto. }
      apply bind_ok in H. destruct H as [[[st1 sg1] groups1] [H1 H]].
      assert (P1 : ((forall x, In x sg1 -> P x) /\ Forall pend_G groups1) /\ Q st1).
      { assert (Pf : ((forall x, In x (snd (fst (st1, sg1, groups1))) -> P x) /\ Forall pend_G (snd (st1, sg1, groups1))) /\ Q (fst (fst (st1, sg1, groups1)))); [|exact Pf].
        revert H1. apply (fold_result_inv_in _ (fun a => ((forall x, In x (snd (fst a)) -> P x) /\ Forall pend_G (snd a)) /\ Q (fst (fst a))));
          [intros [i x] w; reflexivity| |].
        2:{ cbn [fst snd]. split; [split; [apply Hempty|]|exact Hq0]. apply Forall_forall. intros x Hx. apply repeat_spec in Hx. subst. constructor. }
        intros [[st0 sg0] gr] [id ds] a' Hin [[Pl Pg] Qa] Hx. cbn [bind fst snd] in *.
        destruct (ds_muxor ds); [inversion Hx; subst; cbn [fst snd]; auto|].
        destruct (import_signal env st0 mpos msgid id ds) as [[s st2]|w] eqn:E; cbn [bind] in Hx; [|discriminate].
        destruct (H_sig _ _ _ _ _ Qa Hin E) as [S3 Qs].
        assert (T3 : tree_G (s, [])) by (split; [exact S3|intros d []]).
        destruct (ds_muxed ds).
        - destruct (lookup key_eqb _ (ie_ext_muxes env)); [|discriminate].
          destruct (lookup String.eqb _ _); [|discriminate]. inversion Hx; subst. cbn [fst snd].
          split; [split; [assumption|]|exact Qs]. apply app_nth_pend_G; assumption.
        - apply bind_ok in Hx. destruct Hx as [[st3 sg3] [Hy Hx]]. inversion Hx; subst. cbn [fst snd].
          apply bind_ok in Hy. destruct Hy as [sg' [Hins Hy]]. inversion Hy; subst.
          split; [split; [|assumption]|exact Qs]. eapply msg_insert_G; eauto. }
      apply bind_ok in H. destruct H as [[[st2 sg2] groups2] [H2 H]]. inversion H; subst. clear H.
      assert (P2 : ((forall x, In x (snd (fst (st', sigs, groups2))) -> P x) /\ Forall pend_G (snd (st', sigs, groups2))) /\ Q (fst (fst (st', sigs, groups2))));
        [|exact (conj (proj1 (proj1 P2)) (proj2 P2))].
      revert H2. apply (fold_result_inv_in _ (fun a => ((forall x, In x (snd (fst a)) -> P x) /\ Forall pend_G (snd a)) /\ Q (fst (fst a))));
        [intros x w; reflexivity| |exact P1].
      intros [[st0 sg0] gr] j a' Hj [[Pl Pg] Qa] Hx. cbn [bind fst snd] in *.
      assert (Hjl : (j < length muxes)%nat) by (apply in_rev in Hj; apply in_seq in Hj; lia).
      specialize (Hmuxes j Hjl).
      destruct (nth j muxes _) as [mid' dmx'].
      destruct (import_mux_signal env st0 mpos msgid (dm_size dm) mid' dmx' (nth j gr [])) as [[mt st3]|w] eqn:E; cbn [bind] in Hx; [|discriminate].
      assert (Pj : pend_G (nth j gr [])) by (apply nth_Forall_default; [assumption|constructor]).
      destruct (import_mux_signal_G _ _ _ _ _ _ _ Qa Hmuxes Pj E) as [S3 Qs].
      destruct (lookup key_eqb _ (ie_ext_muxes env)).
      + destruct (lookup String.eqb _ _); [|discriminate]. destruct (Nat.leb j n); [discriminate|].
        inversion Hx; subst. cbn [fst snd]. split; [split; [assumption|]|exact Qs]. apply app_nth_pend_G; assumption.
      + destruct (ds_muxed dmx'); [discriminate|].
        apply bind_ok in Hx. destruct Hx as [[st4 sg4] [Hy Hx]]. inversion Hx; subst. cbn [fst snd].
        apply bind_ok in Hy. destruct Hy as [sg' [Hins Hy]]. inversion Hy; subst.
        split; [split; [|assumption]|exact Qs]. eapply msg_insert_G; eauto.
  Qed.
End Walk.
