(* C10/C11 — exchange format with the Go harness.  A generic token tree; the OCaml driver only
   reads and prints `tok`, every typed encoder/decoder and the case runners live here, so the
   functions the theorems speak about are the ones that run.  Decoders are total (missing /
   mistyped fields read as 0 / "" / []): a format error shows up as a correspondence mismatch. *)
From Coq Require Import String Ascii ZArith List Bool.
From Acme.C10 Require Import DbcDoc BusModel Import Export Bits.
Import ListNotations.
Open Scope Z_scope.

Inductive tok := TI (z : Z) | TS (s : string) | TF (f : fl) | TL (l : list tok).

Definition tnth (l : list tok) (n : nat) : tok := nth n l (TL []).
Definition gi (l : list tok) (n : nat) : Z := match tnth l n with TI z => z | _ => 0 end.
Definition gs (l : list tok) (n : nat) : string := match tnth l n with TS s => s | _ => EmptyString end.
Definition gf (l : list tok) (n : nat) : fl := match tnth l n with TF f => f | _ => fl_zero end.
Definition gl (l : list tok) (n : nat) : list tok := match tnth l n with TL x => x | _ => [] end.
Definition gb (l : list tok) (n : nat) : bool := negb (gi l n =? 0).
Definition items (t : tok) : list tok := match t with TL x => x | _ => [] end.
Definition strs (l : list tok) : list string := map (fun t => match t with TS s => s | _ => EmptyString end) l.
Definition ints (l : list tok) : list Z := map (fun t => match t with TI z => z | _ => 0 end) l.
Definition tb (b : bool) : tok := TI (if b then 1 else 0).

Definition okind_of (z : Z) : okind :=
  if z =? 0 then OGeneral else if z =? 1 then ONode else if z =? 2 then OMessage
  else if z =? 3 then OSignal else OEnvVar.
Definition atype_of (z : Z) : atype :=
  if z =? 0 then AInt else if z =? 1 then AFloat else if z =? 2 then AString
  else if z =? 3 then AEnum else AHex.
Definition vtype_of (z : Z) : vtype :=
  if z =? 0 then VInt else if z =? 1 then VString else if z =? 2 then VFloat else VHex.
Definition order_of (z : Z) : byte_order := if z =? 0 then LittleEndian else BigEndian.
Definition z_of_order (o : byte_order) : Z := match o with LittleEndian => 0 | BigEndian => 1 end.
Definition skind_of (z : Z) : skind := if z =? 0 then KStandard else if z =? 1 then KEnum else KMux.
Definition z_of_skind (k : skind) : Z := match k with KStandard => 0 | KEnum => 1 | KMux => 2 end.

Definition valdescs (l : list tok) : list (Z * string) :=
  map (fun t => let x := items t in (gi x 0, gs x 1)) l.

(* ---- doc ---- *)
Definition dsignal_of (t : tok) : dsignal :=
  let l := items t in
  mkdsignal (gs l 0) (gb l 1) (gb l 2) (gi l 3) (gi l 4) (gi l 5) (order_of (gi l 6)) (gb l 7)
            (gf l 8) (gf l 9) (gf l 10) (gf l 11) (gs l 12) (strs (gl l 13)).
Definition dmessage_of (t : tok) : dmessage :=
  let l := items t in mkdmessage (gi l 0) (gs l 1) (gi l 2) (gs l 3) (map dsignal_of (gl l 4)).
Definition doc_of (t : tok) : doc :=
  let l := items t in
  mkdoc (gs l 0) (strs (gl l 1))
    (map (fun t => let x := items t in mkdvaltable (gs x 0) (valdescs (gl x 1))) (gl l 2))
    (map dmessage_of (gl l 3))
    (map (fun t => let x := items t in mkdcomment (okind_of (gi x 0)) (gs x 1) (gs x 2) (gi x 3) (gs x 4)) (gl l 4))
    (map (fun t => let x := items t in
            mkdattr (okind_of (gi x 0)) (atype_of (gi x 1)) (gs x 2) (gi x 3) (gi x 4) (gi x 5) (gi x 6)
                    (gf x 7) (gf x 8) (strs (gl x 9))) (gl l 5))
    (map (fun t => let x := items t in
            mkdattrdef (vtype_of (gi x 0)) (gs x 1) (gs x 2) (gi x 3) (gi x 4) (gf x 5)) (gl l 6))
    (map (fun t => let x := items t in
            mkdattrval (okind_of (gi x 0)) (vtype_of (gi x 1)) (gs x 2) (gs x 3) (gi x 4) (gs x 5)
                       (gs x 6) (gi x 7) (gi x 8) (gf x 9)) (gl l 7))
    (map (fun t => let x := items t in mkdvalenc (gb x 0) (gi x 1) (gs x 2) (valdescs (gl x 3))) (gl l 8))
    (map (fun t => let x := items t in
            mkdextmux (gi x 0) (gs x 1) (gs x 2)
                      (map (fun r => let y := items r in (gi y 0, gi y 1)) (gl x 3))) (gl l 9)).

(* ---- bus (input of C11) ---- *)
Definition def_of (t : tok) : attr_def :=
  let l := items t in
  let k := gi l 0 in
  if k =? 0 then DefString (gs l 1)
  else if k =? 1 then DefInt (gi l 1) (gi l 2) (gi l 3) (gb l 4)
  else if k =? 2 then DefFloat (gf l 1) (gf l 2) (gf l 3)
  else DefEnum (gs l 1) (strs (gl l 2)).
Definition val_of (t : tok) : attr_val :=
  let l := items t in
  let k := gi l 0 in
  if k =? 0 then ValString (gs l 1) else if k =? 1 then ValInt (gi l 1) else ValFloat (gf l 1).
Definition asgs_of (l : list tok) : list attr_asg :=
  map (fun t => let x := items t in mkasg (gs x 0) (def_of (tnth x 1)) (val_of (tnth x 2))) l.
Definition signal_of (t : tok) : signal :=
  let l := items t in
  mksignal (gi l 0) (gs l 1) (skind_of (gi l 2)) (gi l 3)
           (if gi l 4 <? 0 then None else Some (gi l 4)) (ints (gl l 5)) (gi l 6) (gb l 7)
           (gf l 8) (gf l 9) (gf l 10) (gf l 11) (gs l 12) (gi l 13) (gi l 14) (gi l 15)
           (gs l 16) (gf l 17) (gi l 18) (asgs_of (gl l 19)).
Definition message_of (t : tok) : message :=
  let l := items t in
  mkmessage (gi l 0) (gs l 1) (gi l 2) (order_of (gi l 3)) (gi l 4) (gi l 5) (gi l 6) (gi l 7)
            (gs l 8) (strs (gl l 9)) (gs l 10) (asgs_of (gl l 11)) (map signal_of (gl l 12)).
Definition bus_of (t : tok) : bus :=
  let l := items t in
  mkbus (gs l 0) (gs l 1) (asgs_of (gl l 2))
        (map (fun t => let x := items t in mknode (gs x 0) (gi x 1) (gs x 2) (asgs_of (gl x 3))) (gl l 3))
        (map (fun t => let x := items t in mkenum (gs x 0) (valdescs (gl x 1)) (gi x 2) (gi x 3)) (gl l 4))
        (map message_of (gl l 5)).

(* ---- projection (output) ---- *)
Definition tok_def (d : attr_def) : tok :=
  match d with
  | DefString s => TL [TI 0; TS s]
  | DefInt d mn mx h => TL [TI 1; TI d; TI mn; TI mx; tb h]
  | DefFloat d mn mx => TL [TI 2; TF d; TF mn; TF mx]
  | DefEnum d vs => TL [TI 3; TS d; TL (map TS vs)]
  end.
Definition tok_val (v : attr_val) : tok :=
  match v with
  | ValString s => TL [TI 0; TS s]
  | ValInt z => TL [TI 1; TI z]
  | ValFloat f => TL [TI 2; TF f]
  end.
Definition tok_asgs (l : list attr_asg) : tok :=
  TL (map (fun a => TL [TS (aa_name a); tok_def (aa_def a); tok_val (aa_val a)]) l).
Definition tok_psignal (s : psignal) : tok :=
  TL [TS (ps_name s); TI (z_of_skind (ps_kind s)); TI (ps_start s); TI (ps_size s); tb (ps_signed s);
      TF (ps_scale s); TF (ps_offset s); TF (ps_min s); TF (ps_max s); TS (ps_unit s);
      TL (map (fun p => TL [TI (fst p); TS (snd p)]) (ps_enum s));
      TS (ps_parent s); TL (map TI (ps_membership s));
      TS (ps_desc s); TF (ps_startval s); TI (ps_sendtype s); tok_asgs (ps_attrs s)].
Definition tok_pmessage (m : pmessage) : tok :=
  TL [TI (pm_canid m); TS (pm_name m); TI (pm_size m); TI (z_of_order (pm_order m));
      TI (pm_cycle m); TI (pm_delay m); TI (pm_startdelay m); TI (pm_sendtype m);
      TS (pm_sender m); TL (map TS (pm_receivers m)); TS (pm_desc m); tok_asgs (pm_attrs m);
      TL (map tok_psignal (pm_signals m))].
Definition tok_pbus (b : pbus) : tok :=
  TL [TS (pb_desc b); tok_asgs (pb_attrs b);
      TL (map (fun n => TL [TS (pn_name n); TS (pn_desc n); tok_asgs (pn_attrs n)]) (pb_nodes b));
      TL (map tok_pmessage (pb_messages b))].

(* raw values the library's decoder yields for the top-level standard/enum signals of a message *)
Definition decode_message (es : list enum_def) (m : message) (data : list Z) : tok :=
  let tops := filter (fun s => match s_parent s, s_kind s with
                               | None, KStandard | None, KEnum => true | _, _ => false end) (m_signals m) in
  let named := sort_by (fun a b => str_ltb (fst a) (fst b))
                       (map (fun s => (clear_spaces (s_name s), go_raw (m_order m) (s_rel s) (sig_size es s) data)) tops) in
  TL (map (fun p => TL [TS (fst p); TI (snd p)]) named).

Definition tok_result (r : result bus) (payloads : list (list Z)) : tok :=
  match r with
  | Err w => TL [TS "err"; TS w]
  | Ok b =>
      let msgs := sort_by (fun a c => m_canid a <? m_canid c) (b_messages b) in
      TL [TS "ok"; tok_pbus (proj_bus b);
          TL (map (fun m => TL (map (decode_message (b_enums b) m) payloads)) msgs)]
  end.

(* case runners: C10  [doc; payloads]  and  C11  [bus] *)
Definition run_import (t : tok) : tok :=
  let l := items t in
  tok_result (import (doc_of (tnth l 0))) (map (fun p => ints (items p)) (gl l 1)).
Definition run_export_import (t : tok) : tok :=
  let l := items t in
  tok_result (export_import (bus_of (tnth l 0))) [].
Definition run_proj (t : tok) : tok :=
  let l := items t in tok_pbus (proj_bus (bus_of (tnth l 0))).
