(* C11 — the merged fragment `ambus` seen from the full statement's hypotheses: a bus that is `well_formed` and
   `names_ok` (RoundTrip.v: the hypotheses of export_import_full_statement) lies in `ambus` as soon as it is FLAT:
   every multiplexer is top-level (no multiplexer inside a multiplexer), the top-level signals of a message are
   listed in position order, and minimum enum sizes fit 32 bits.  So the whole-bus theorem covers
   every well-formed, DBC-expressible bus without nested multiplexing. *)
From Coq Require Import String Ascii ZArith List Bool Lia Permutation.
From Coq Require Import ZifyBool.
From Acme.C10 Require Import DbcDoc BusModel Import Export Bits.
From Acme.C10 Require Proofs ProofsEnum ProofsLayout ProofsFaithful ProofsIds ProofsMux.
From Acme.C11 Require Import Strings Proofs RoundTrip RoundTripEnum RoundTripAttr RoundTripMux RoundTripAll.
Import ListNotations.
Open Scope Z_scope.

Definition flat_sigs (sigs : list signal) : Prop :=
  (forall s, In s sigs -> is_muxb s = true -> is_topb s = true) /\
  ascending_by s_rel (filter is_topb sigs).
Definition flat_bus (b : bus) : Prop :=
  Forall (fun m => flat_sigs (m_signals m)) (b_messages b) /\ Forall (fun e => en_minsize e < 2 ^ 32) (b_enums b).

Lemma sig_size_strip : forall es s, sig_size es (strip_sig s) = sig_size es s.
Proof. intros es s. reflexivity. Qed.

Lemma find_sig_in : forall sigs q p, find_sig sigs q = Some p -> In p sigs /\ s_id p = q.
Proof. intros sigs q p H. unfold find_sig in H. apply find_some in H. destruct H as [H1 H2]. apply Z.eqb_eq in H2. auto. Qed.

Lemma in_filter_nth : forall {A} (f : A -> bool) l x, In x l -> f x = true -> exists i, nth_error (filter f l) i = Some x.
Proof. intros A f l x Hin Hf. apply In_nth_error. apply filter_In. auto. Qed.

Lemma disjoint_pair : forall es lim l a c, disjoint_in es lim l -> In a l -> In c l -> a <> c ->
  s_rel a + sig_size es a <= s_rel c \/ s_rel c + sig_size es c <= s_rel a.
Proof.
  intros es lim l a c [_ H] Ha Hc Hne. apply In_nth_error in Ha. apply In_nth_error in Hc. destruct Ha as [i Hi]. destruct Hc as [j Hj].
  assert (Hij : i <> j) by (intros ->; congruence).
  pose proof (H i j a c Hij Hi Hj) as Ho. unfold overlaps in Ho. lia.
Qed.

Lemma in_group_first : forall c p, ascending (-1) (s_groups c) -> (forall g, In g (s_groups c) -> g < s_gcount p) -> 1 <= s_gcount p ->
  exists g, 0 <= g < s_gcount p /\ in_group c g = true.
Proof.
  intros c p Ha Hb Hg. unfold in_group. destruct (s_groups c) as [|g0 r] eqn:E.
  - exists 0. split; [lia|reflexivity].
  - exists g0. cbn [ascending] in Ha. destruct Ha as [Ha _]. split; [split; [lia|apply Hb; left; reflexivity]|].
    cbn [mem_z existsb]. rewrite Z.eqb_refl. reflexivity.
Qed.

Section Msg.
  Variables (es : list enum_def) (msize : Z) (sigs : list signal).
  Hypothesis Hwf : signals_wf es msize sigs.
  Hypothesis Hflat : flat_sigs sigs.
  Hypothesis Hnames : NoDup (map (fun s => clear (s_name s)) sigs).
  Hypothesis Hsz : 0 <= msize.

  Lemma wf_parent : forall c, In c sigs -> is_topb c = false ->
    exists p, In p sigs /\ s_parent c = Some (s_id p) /\ is_muxb p = true /\ is_topb p = true.
  Proof.
    intros c Hc Ht. destruct Hwf as [_ [[depth Hd] [Hp _]]]. destruct Hflat as [Hf _].
    unfold is_topb in Ht. destruct (s_parent c) as [q|] eqn:Eq; [|discriminate].
    destruct (Hp c q Hc Eq) as [p [Hfs Hin]]. destruct (find_sig_in _ _ _ Hfs) as [_ Hid]. subst q.
    destruct (Hd c p Hc Eq Hin) as [Hk _].
    assert (Hm : is_muxb p = true) by (unfold is_muxb; rewrite Hk; reflexivity).
    exists p. split; [assumption|]. split; [reflexivity|]. split; [assumption|apply Hf; assumption].
  Qed.

  Lemma wf_sig : forall s, In s sigs ->
    (s_parent s = None -> s_groups s = []) /\
    match s_kind s with
    | KStandard => 0 < s_size s <= 64
    | KEnum => True
    | KMux => 1 <= s_gcount s <= 2 ^ 16 /\ 1 <= s_gsize s /\
              forall g, 0 <= g < s_gcount s -> disjoint_in es (s_gsize s) (filter (fun c => in_group c g) (children_of sigs s))
    end /\
    (forall p, s_parent s = Some (s_id p) -> In p sigs -> ascending (-1) (s_groups s) /\ forall g, In g (s_groups s) -> g < s_gcount p).
  Proof.
    intros s Hs. destruct Hwf as [_ [_ [_ [_ HF]]]]. rewrite Forall_forall in HF. destruct (HF s Hs) as [_ [_ [_ [_ [H5 [H6 H7]]]]]].
    split; [exact H5|]. split; [|exact H7]. destruct (s_kind s); [tauto|exact I|exact H6].
  Qed.

  Lemma msigs_of_wf : msigs_ok es (map strip_sig sigs).
  Proof.
    pose proof Hwf as [Hids [_ [_ [Htopd _]]]]. pose proof Hflat as [Hf Hasc].
    unfold msigs_ok. split; [rewrite map_map; exact Hids|]. split; [rewrite map_map; exact Hnames|]. split.
    { rewrite filter_map_comm. change (fun x => is_topb (strip_sig x)) with is_topb. apply Forall_forall. intros s' Hs'.
      apply in_map_iff in Hs'. destruct Hs' as [s [<- Hs]]. apply filter_In in Hs. destruct Hs as [Hs Ht].
      destruct (wf_sig s Hs) as [W1 [W2 _]]. unfold is_topb in Ht. destruct (s_parent s) eqn:Ep; [discriminate|].
      unfold top_ok. cbn [s_parent s_groups s_startval s_sendtype s_attrs s_rel s_kind s_size s_gcount s_gsize strip_sig].
      refine (conj Ep (conj (W1 eq_refl) (conj eq_refl (conj eq_refl (conj eq_refl (conj _ _)))))).
      - destruct Htopd as [Hb _]. rewrite Forall_forall in Hb. apply (Hb s). apply filter_In. split; [assumption|]. rewrite Ep. reflexivity.
      - destruct (s_kind s); [lia|exact I|]. destruct W2 as [[G1 G2] [G3 _]]. split; [split; [lia|]|lia].
        eapply Z.le_trans; [exact G2|]. apply Z.pow_le_mono_r; lia. }
    split.
    { intros a Ha Hm. apply in_map_iff in Ha. destruct Ha as [s [<- Hs]]. apply (Hf s Hs Hm). }
    split.
    { intros c' Hc' Ht. apply in_map_iff in Hc'. destruct Hc' as [c [<- Hc]]. change (is_topb (strip_sig c)) with (is_topb c) in Ht.
      destruct (wf_parent c Hc Ht) as [p [Hp [Hpar [Hpm Hpt]]]].
      exists (strip_sig p). split; [apply in_map; assumption|]. split; [exact Hpt|]. split; [exact Hpm|].
      destruct (wf_sig c Hc) as [_ [Wk Wg]]. destruct (Wg p Hpar Hp) as [Ga Gb].
      destruct (wf_sig p Hp) as [_ [Wp _]]. pose proof Hpm as Hpk. unfold is_muxb in Hpk. destruct (s_kind p) eqn:Ekp; try discriminate.
      destruct Wp as [[P1 P2] [P3 Pd]].
      assert (Hnm : s_kind c <> KMux).
      { intros E. assert (is_topb c = true) by (apply Hf; [assumption|unfold is_muxb; rewrite E; reflexivity]). congruence. }
      destruct (in_group_first c p Ga Gb P1) as [g [Hg Hing]].
      assert (Hcin : In c (filter (fun c0 => in_group c0 g) (children_of sigs p))).
      { apply filter_In. split; [|exact Hing]. unfold children_of. apply filter_In. split; [assumption|]. rewrite Hpar. apply Z.eqb_refl. }
      destruct (Pd g Hg) as [Hb _]. rewrite Forall_forall in Hb. pose proof (Hb c Hcin) as Hbc.
      unfold child_ok. cbn [s_kind s_parent s_groups s_startval s_sendtype s_attrs s_size s_rel s_id s_gcount s_gsize strip_sig]. rewrite sig_size_strip.
      refine (conj Hnm (conj Hpar (conj _ (conj eq_refl (conj eq_refl (conj eq_refl (conj _ (conj (proj1 Hbc) (proj2 Hbc))))))))).
      - unfold groups_ok. destruct (s_groups c) as [|g0 gr] eqn:Eg; [left; split; [reflexivity|lia]|].
        right. split; [discriminate|]. split; [exact Ga|exact Gb].
      - intros Ek. rewrite Ek in Wk. lia. }
    intros c1 c2 H1 H2 T1 T2 Hne Hpp [g [Hg0 [I1 I2]]].
    apply in_map_iff in H1. destruct H1 as [c [<- Hc]]. apply in_map_iff in H2. destruct H2 as [c' [<- Hc']].
    change (is_topb (strip_sig c)) with (is_topb c) in T1. change (is_topb (strip_sig c')) with (is_topb c') in T2.
    cbn [s_parent strip_sig] in Hpp. change (in_group (strip_sig c) g) with (in_group c g) in I1. change (in_group (strip_sig c') g) with (in_group c' g) in I2.
    rewrite !sig_size_strip. cbn [s_rel strip_sig].
    assert (Hcc : c <> c') by (intros ->; apply Hne; reflexivity).
    destruct (wf_parent c Hc T1) as [p [Hp [Hpar [Hpm _]]]].
    assert (Hpar' : s_parent c' = Some (s_id p)) by congruence.
    destruct (wf_sig p Hp) as [_ [Wp _]]. pose proof Hpm as Hpk. unfold is_muxb in Hpk. destruct (s_kind p) eqn:Ekp; try discriminate.
    destruct Wp as [[P1 P2] [P3 Pd]].
    destruct (wf_sig c Hc) as [_ [_ Wg]]. destruct (Wg p Hpar Hp) as [Ga Gb].
    destruct (wf_sig c' Hc') as [_ [_ Wg']]. destruct (Wg' p Hpar' Hp) as [Ga' Gb'].
    (* a group below the group count that both belong to *)
    assert (Hgg : exists g', 0 <= g' < s_gcount p /\ in_group c g' = true /\ in_group c' g' = true).
    { unfold in_group in *. destruct (s_groups c) as [|a r] eqn:E1; destruct (s_groups c') as [|a' r'] eqn:E2.
      - exists 0. split; [lia|auto].
      - exists g. split; [split; [lia|apply Gb'; apply mem_z_in; exact I2]|auto].
      - exists g. split; [split; [lia|apply Gb; apply mem_z_in; exact I1]|auto].
      - exists g. split; [split; [lia|apply Gb; apply mem_z_in; exact I1]|auto]. }
    destruct Hgg as [g' [Hg' [J1 J2]]].
    apply (disjoint_pair es (s_gsize p) _ c c' (Pd g' Hg')); [| |exact Hcc].
    - apply filter_In. split; [|exact J1]. unfold children_of. apply filter_In. split; [assumption|]. rewrite Hpar. apply Z.eqb_refl.
    - apply filter_In. split; [|exact J2]. unfold children_of. apply filter_In. split; [assumption|]. rewrite Hpar'. apply Z.eqb_refl.
  Qed.
End Msg.

(* the top-level layout: position order + pairwise disjoint + inside the payload = a chain *)
Lemma layout_of_disjoint : forall es lim l from,
  Forall (fun s => 0 < sig_size es s) l -> ascending_by s_rel l ->
  Forall (fun s => from <= s_rel s /\ s_rel s + sig_size es s <= lim) l ->
  (forall a c, In a l -> In c l -> a <> c -> s_rel a + sig_size es a <= s_rel c \/ s_rel c + sig_size es c <= s_rel a) ->
  layout_e es from lim l.
Proof.
  intros es lim l. induction l as [|s r IH]; intros from Hpos Hasc Hb Hd; [exact I|].
  inversion Hpos as [|? ? Hps Hpr]; subst. inversion Hb as [|? ? Hbs Hbr]; subst. cbn [ascending_by] in Hasc. destruct Hasc as [Ha Har].
  cbn [layout_e]. split; [tauto|]. split; [tauto|].
  apply IH; try assumption.
  - (* every later signal starts after s ends *)
    assert (Hlater : forall y, In y r -> s_rel s < s_rel y).
    { clear - Ha Har. revert s Ha. induction r as [|y q IHq]; intros s Ha z Hz; [destruct Hz|].
      cbn [ascending_by] in Har. destruct Har as [Hy Hq]. destruct Hz as [<-|Hz]; [exact Ha|].
      destruct q as [|w q']; [destruct Hz|]. pose proof (IHq Hq y Hy z Hz). lia. }
    apply Forall_forall. intros y Hy. rewrite Forall_forall in Hbr, Hpr. split; [|apply (Hbr y Hy)].
    pose proof (Hlater y Hy) as Hl. pose proof (Hpr y Hy) as Hpy.
    assert (Hne : s <> y) by (intros ->; lia).
    destruct (Hd s y (or_introl eq_refl) (or_intror Hy) Hne) as [H|H]; lia.
  - intros a c Ha' Hc' Hne. apply Hd; [right; assumption|right; assumption|assumption].
Qed.

Lemma clear_inj_on : forall (names : list string) a c, NoDup (map clear names) -> In a names -> In c names -> clear a = clear c -> a = c.
Proof.
  induction names as [|x r IH]; intros a c Hnd Ha Hc He; [destruct Ha|]. cbn [map] in Hnd. inversion Hnd as [|? ? Hni Hr]; subst.
  destruct Ha as [<-|Ha], Hc as [<-|Hc]; [reflexivity| | |apply IH; assumption].
  - exfalso. apply Hni. rewrite He. apply in_map. assumption.
  - exfalso. apply Hni. rewrite <- He. apply in_map. assumption.
Qed.

Lemma NoDup_map_clear_sub : forall (names l : list string), NoDup (map clear names) -> incl l names -> NoDup l -> NoDup (map clear l).
Proof.
  intros names l Hn. induction l as [|x r IH]; intros Hi Hnd; cbn [map]; [constructor|]. inversion Hnd as [|? ? Hni Hr]; subst.
  constructor; [|apply IH; [intros y Hy; apply Hi; right; assumption|assumption]].
  intros Hin. apply in_map_iff in Hin. destruct Hin as [y [Hy Hyr]]. apply Hni.
  assert (y = x) by (apply (clear_inj_on names); [assumption|apply Hi; right; assumption|apply Hi; left; reflexivity|assumption]). subst. assumption.
Qed.

Lemma mbus_of_wf : forall b, well_formed b -> names_ok b -> flat_bus b -> mbus (strip_bus b).
Proof.
  intros b [Hlen [_ [_ [_ [Hen [Hcan [Hgrp [_ Hmsgs]]]]]]]] [_ [Hnn [Hnd [_ [Hpairs Hmn]]]]] [Hfl Hmin].
  unfold mbus, strip_bus. cbn [b_attrs b_nodes b_messages b_enums].
  split; [reflexivity|]. split; [apply Forall_forall; intros n Hn; apply in_map_iff in Hn; destruct Hn as [n0 [<- _]]; reflexivity|].
  split; [rewrite map_map; exact Hnn|]. split; [rewrite map_map; exact Hnd|]. split; [rewrite map_length; exact Hlen|].
  split.
  { apply Forall_forall. intros m' Hm'. apply in_map_iff in Hm'. destruct Hm' as [m [<- Hm]].
    rewrite Forall_forall in Hmsgs, Hmn, Hfl.
    destruct (Hmsgs m Hm) as [Hid [Hsz [_ [_ [_ [Hsn [Hrc [Hrn [Hre Hsw]]]]]]]]]. destruct (Hmn m Hm) as [_ [_ Hnms]]. pose proof (Hfl m Hm) as Hf.
    unfold mmessage, strip_msg. cbn [m_attrs m_cycle m_delay m_startdelay m_sendtype m_canid m_size m_signals m_sender m_receivers].
    rewrite map_map. cbn [n_name strip_node]. change (map (fun x => n_name x) (b_nodes b)) with (map n_name (b_nodes b)).
    refine (conj eq_refl (conj eq_refl (conj eq_refl (conj eq_refl (conj eq_refl (conj Hid (conj Hsz (conj _ (conj _ (conj Hsn (conj Hrc (conj _ _)))))))))))).
    - apply (msigs_of_wf (b_enums b) (m_size m) (m_signals m) Hsw Hf Hnms).
    - pose proof (msigs_of_wf (b_enums b) (m_size m) (m_signals m) Hsw Hf Hnms) as [_ [_ [Htops _]]].
      rewrite filter_map_comm in *. change (fun x => is_topb (strip_sig x)) with is_topb in *.
      destruct Hsw as [_ [_ [_ [[Hb Hd] _]]]]. destruct Hf as [_ Hasc].
      change (filter (fun s : signal => match s_parent s with None => true | Some _ => false end) (m_signals m)) with (filter is_topb (m_signals m)) in Hb, Hd.
      assert (G : forall l, Forall (top_ok (b_enums b)) (map strip_sig l) -> ascending_by s_rel l ->
                  Forall (fun s => 0 <= s_rel s /\ s_rel s + sig_size (b_enums b) s <= m_size m * 8) l ->
                  (forall a c, In a l -> In c l -> a <> c -> s_rel a + sig_size (b_enums b) a <= s_rel c \/ s_rel c + sig_size (b_enums b) c <= s_rel a) ->
                  layout_e (b_enums b) 0 (m_size m * 8) (map strip_sig l)).
      { intros l Ht Ha Hbb Hdd.
        assert (L : layout_e (b_enums b) 0 (m_size m * 8) l).
        { apply layout_of_disjoint; try assumption. apply Forall_forall. intros s Hs. rewrite Forall_forall in Ht.
          pose proof (top_size_pos (b_enums b) (strip_sig s) (Ht _ (in_map strip_sig _ _ Hs))) as Hp. rewrite sig_size_strip in Hp. exact Hp. }
        clear - L. revert L. generalize 0. induction l as [|s r IH]; intros from L; [exact I|]. cbn [map layout_e] in *. rewrite sig_size_strip. cbn [s_rel strip_sig].
        destruct L as [L1 [L2 L3]]. split; [assumption|]. split; [assumption|]. apply IH. assumption. }
      apply G; try assumption.
      intros a c Ha Hc Hne. apply In_nth_error in Ha. apply In_nth_error in Hc. destruct Ha as [i Hi]. destruct Hc as [j Hj].
      assert (Hij : i <> j) by (intros ->; congruence). pose proof (Hd i j a c Hij Hi Hj) as Ho. unfold overlaps in Ho. lia.
    - apply (NoDup_map_clear_sub (map n_name (b_nodes b))); [rewrite map_map; exact Hnn|exact Hrc|exact Hrn].
    - intros E. apply map_eq_nil in E. apply Hre. exact E. }
  split; [rewrite map_map; exact Hcan|]. split; [rewrite map_map; exact Hpairs|]. split.
  { transitivity (map strip_msg (flat_map (fun n => filter (fun m => String.eqb (m_sender m) (n_name n)) (b_messages b)) (b_nodes b))); [|rewrite Hgrp; reflexivity].
    rewrite map_flat_map. generalize (b_nodes b). intros ns. induction ns as [|n r IH]; [reflexivity|]. cbn [map flat_map]. rewrite IH. f_equal.
    cbn [n_name strip_node]. rewrite filter_map_comm. reflexivity. }
  apply Forall_forall. intros e He. rewrite Forall_forall in Hen, Hmin. destruct (Hen e He) as [E1 [E2 [E3 [E4 [E5 E6]]]]]. pose proof (Hmin e He) as E7.
  unfold enum_wf. split; [assumption|]. split; [assumption|]. rewrite Forall_forall in E4.
  split; [intros v Hv; destruct (E4 v Hv) as [[V1 V2] [V3 _]]; lia|]. split; [|lia].
  destruct (en_values e) as [|v0 r] eqn:Ev; [rewrite (E5 eq_refl); lia|].
  assert (Hin : In (en_maxindex e) (map fst (v0 :: r))) by (apply E6; discriminate).
  apply in_map_iff in Hin. destruct Hin as [v [Hv Hvin]]. destruct (E4 v Hvin) as [[V1 V2] _]. lia.
Qed.

(* ---------------- the attribute side ---------------- *)
Definition wk_table : list (string * attr_def) :=
  [("GenMsgCycleTime"%string, msg_cycle_att); ("GenMsgDelayTime"%string, msg_delay_att); ("GenMsgStartDelayTime"%string, msg_start_delay_att);
   ("GenMsgSendType"%string, msg_send_att); ("GenSigStartValue"%string, sig_start_att); ("GenSigSendType"%string, sig_send_att)].

Lemma in_wk_msg : forall m a, In a (wk_msg m) -> In (aa_name a, aa_def a) wk_table.
Proof.
  intros m a H. unfold wk_msg in H.
  destruct (m_cycle m =? 0), (m_delay m =? 0), (m_startdelay m =? 0), (m_sendtype m =? 0); cbn [app In] in H;
    repeat (destruct H as [<-|H]; [cbn [aa_name aa_def wk_table In]; tauto|]); destruct H.
Qed.
Lemma in_wk_sig : forall s a, In a (wk_sig s) -> In (aa_name a, aa_def a) wk_table.
Proof.
  intros s a H. unfold wk_sig in H.
  destruct (fl_is_zero (s_startval s)), (s_sendtype s =? 0); cbn [app In] in H;
    repeat (destruct H as [<-|H]; [cbn [aa_name aa_def wk_table In]; tauto|]); destruct H.
Qed.

Lemma in_sort_attrs : forall a l, In a (sort_attrs l) <-> In a l.
Proof. intros a l. unfold sort_attrs. apply Proofs.In_sort_by. Qed.

Lemma SX_sub : forall m s, In s (SX m) -> In s (m_signals m).
Proof.
  intros m s H. unfold SX in H. apply in_flat_map in H. destruct H as [t [Ht Hs]]. apply filter_In in Ht. destruct Ht as [Ht _].
  destruct Hs as [<-|Hs]; [assumption|]. destruct (is_muxb t); [|destruct Hs].
  unfold walk_of in Hs. apply in_flat_map in Hs. destruct Hs as [id [_ Hs]]. apply filter_In in Hs. destruct Hs as [Hs _].
  unfold children in Hs. apply Proofs.In_sort_by in Hs. apply filter_In in Hs. tauto.
Qed.

Lemma TM_bus_src : forall b t, In t (TM_bus b) ->
  In (t_asg t) (all_asgs b) \/ In (aa_name (t_asg t), aa_def (t_asg t)) wk_table.
Proof.
  intros b t H. unfold TM_bus in H. unfold all_asgs. apply in_app_or in H. destruct H as [H|H].
  - apply in_map_iff in H. destruct H as [a [<- Ha]]. cbn [t_asg]. left. apply in_or_app. left. apply in_sort_attrs. exact Ha.
  - apply in_flat_map in H. destruct H as [n [Hn H]]. unfold TM_node in H. apply in_app_or in H. destruct H as [H|H].
    + apply in_map_iff in H. destruct H as [a [<- Ha]]. cbn [t_asg]. left. apply in_or_app. right. apply in_or_app. left.
      apply in_flat_map. exists n. split; [assumption|apply in_sort_attrs; exact Ha].
    + apply in_flat_map in H. destruct H as [m [Hm H]]. apply filter_In in Hm. destruct Hm as [Hm _].
      unfold TM_msg in H. apply in_app_or in H. destruct H as [H|H].
      * apply in_map_iff in H. destruct H as [a [<- Ha]]. cbn [t_asg]. apply in_app_or in Ha. destruct Ha as [Ha|Ha]; [|right; eapply in_wk_msg; eauto].
        left. apply in_or_app. right. apply in_or_app. right. apply in_flat_map. exists m. split; [assumption|]. apply in_or_app. left. apply in_sort_attrs. exact Ha.
      * apply in_flat_map in H. destruct H as [s [Hs H]]. apply SX_sub in Hs. unfold T_sig in H.
        apply in_map_iff in H. destruct H as [a [<- Ha]]. cbn [t_asg]. apply in_app_or in Ha. destruct Ha as [Ha|Ha]; [|right; eapply in_wk_sig; eauto].
        left. apply in_or_app. right. apply in_or_app. right. apply in_flat_map. exists m. split; [assumption|]. apply in_or_app. right.
        apply in_flat_map. exists s. split; [assumption|apply in_sort_attrs; exact Ha].
Qed.

Lemma wk_table_wf : forall n d, In (n, d) wk_table -> wf_def d /\ clear n = n /\ In n well_known_names.
Proof.
  intros n d H. cbn [wk_table In] in H.
  repeat (destruct H as [H|H]; [inversion H; subst; split; [|split; [vm_compute; reflexivity|cbn; tauto]]|]); try destruct H.
  - unfold wf_def, msg_cycle_att. split; [lia|intros Hc; discriminate Hc].
  - unfold wf_def, msg_delay_att. split; [lia|intros Hc; discriminate Hc].
  - unfold wf_def, msg_start_delay_att. split; [lia|intros Hc; discriminate Hc].
  - unfold wf_def, msg_send_att. split; [repeat constructor; cbn; intuition discriminate|eexists; reflexivity].
  - unfold wf_def, sig_start_att. split; [reflexivity|]. split; [reflexivity|]. first [left; split; reflexivity|right; reflexivity].
  - unfold wf_def, sig_send_att. split; [repeat constructor; cbn; intuition discriminate|eexists; reflexivity].
Qed.
Lemma wk_table_fun : forall n d n' d', In (n, d) wk_table -> In (n', d') wk_table -> n = n' -> d = d'.
Proof.
  intros n d n' d' H H' E. cbn [wk_table In] in H, H'.
  repeat (destruct H as [H|H]; [inversion H; subst; clear H|]); try destruct H;
    repeat (destruct H' as [H'|H']; [inversion H'; subst; try reflexivity; discriminate|]); destruct H'.
Qed.

Lemma special_of_none : forall s, ~ In s well_known_names -> special_of s = None.
Proof.
  intros s H. unfold special_of.
  destruct (String.eqb s "GenMsgCycleTime") eqn:E1; [apply String.eqb_eq in E1; exfalso; apply H; rewrite E1; cbn; tauto|].
  destruct (String.eqb s "GenMsgDelayTime") eqn:E2; [apply String.eqb_eq in E2; exfalso; apply H; rewrite E2; cbn; tauto|].
  destruct (String.eqb s "GenMsgStartDelayTime") eqn:E3; [apply String.eqb_eq in E3; exfalso; apply H; rewrite E3; cbn; tauto|].
  destruct (String.eqb s "GenMsgSendType") eqn:E4; [apply String.eqb_eq in E4; exfalso; apply H; rewrite E4; cbn; tauto|].
  destruct (String.eqb s "GenSigStartValue") eqn:E5; [apply String.eqb_eq in E5; exfalso; apply H; rewrite E5; cbn; tauto|].
  destruct (String.eqb s "GenSigSendType") eqn:E6; [apply String.eqb_eq in E6; exfalso; apply H; rewrite E6; cbn; tauto|].
  reflexivity.
Qed.

Lemma asgs_ok_user : forall l, asgs_ok l -> user_asgs_ok l.
Proof.
  intros l [H1 H2]. split; [exact H1|]. eapply Forall_impl; [|exact H2]. intros a [W [_ [_ [_ [Hn _]]]]]. split; [exact W|apply special_of_none; exact Hn].
Qed.

Lemma all_asgs_ok : forall b, well_formed b -> forall a, In a (all_asgs b) -> wf_asg a /\ ~ In (clear (aa_name a)) well_known_names.
Proof.
  intros b [_ [_ [Hb [Hn [_ [_ [_ [_ Hm]]]]]]]] a Ha.
  assert (G : forall l, asgs_ok l -> In a l -> wf_asg a /\ ~ In (clear (aa_name a)) well_known_names).
  { intros l [_ HF] Hin. rewrite Forall_forall in HF. destruct (HF a Hin) as [W [_ [_ [_ [N _]]]]]. auto. }
  unfold all_asgs in Ha. apply in_app_or in Ha. destruct Ha as [Ha|Ha]; [apply (G _ Hb Ha)|].
  apply in_app_or in Ha. destruct Ha as [Ha|Ha].
  - apply in_flat_map in Ha. destruct Ha as [n [Hn' Ha]]. rewrite Forall_forall in Hn. destruct (Hn n Hn') as [_ Hna]. apply (G _ Hna Ha).
  - apply in_flat_map in Ha. destruct Ha as [m [Hm' Ha]]. rewrite Forall_forall in Hm.
    destruct (Hm m Hm') as [_ [_ [_ [_ [Hma [_ [_ [_ [_ Hsw]]]]]]]]].
    apply in_app_or in Ha. destruct Ha as [Ha|Ha]; [apply (G _ Hma Ha)|].
    apply in_flat_map in Ha. destruct Ha as [s [Hs Ha]]. destruct Hsw as [_ [_ [_ [_ HF]]]]. rewrite Forall_forall in HF.
    destruct (HF s Hs) as [_ [_ [Hsa _]]]. apply (G _ Hsa Ha).
Qed.

Theorem wf_flat_ambus : forall b, well_formed b -> names_ok b -> flat_bus b -> ambus b.
Proof.
  intros b Hwf Hnm Hfl. pose proof (mbus_of_wf b Hwf Hnm Hfl) as Hmb.
  pose proof (all_asgs_ok b Hwf) as Hall.
  pose proof Hwf as [_ [_ [Hb [Hn [_ [_ [Hgrp [Hdef Hm]]]]]]]].
  unfold ambus. split; [exact Hgrp|]. split; [exact Hmb|]. split.
  { split.
    - intros t Ht. destruct (TM_bus_src b t Ht) as [Hu|Hk].
      + destruct (Hall _ Hu) as [[W _] _]. exact W.
      + destruct (wk_table_wf _ _ Hk) as [W _]. exact W.
    - intros t t' Ht Ht' En. cbn beta in En. unfold t_def.
      destruct (TM_bus_src b t Ht) as [Hu|Hk], (TM_bus_src b t' Ht') as [Hu'|Hk'].
      + apply Hdef; assumption.
      + exfalso. destruct (Hall _ Hu) as [_ N]. destruct (wk_table_wf _ _ Hk') as [_ [C1 C2]]. apply N. rewrite En, C1. exact C2.
      + exfalso. destruct (Hall _ Hu') as [_ N]. destruct (wk_table_wf _ _ Hk) as [_ [C1 C2]]. apply N. rewrite <- En, C1. exact C2.
      + destruct (wk_table_wf _ _ Hk) as [_ [C1 _]]. destruct (wk_table_wf _ _ Hk') as [_ [C1' _]].
        apply (wk_table_fun _ _ _ _ Hk Hk'). congruence. }
  split; [apply asgs_ok_user; exact Hb|]. split.
  { eapply Forall_impl; [|exact Hn]. intros n [_ Ha]. apply asgs_ok_user. exact Ha. }
  eapply Forall_impl; [|exact Hm]. intros m [_ [_ [Hst [_ [Hma [_ [_ [_ [_ Hsw]]]]]]]]].
  split; [apply asgs_ok_user; exact Hma|]. split; [exact Hst|].
  destruct Hsw as [_ [_ [_ [_ HF]]]]. eapply Forall_impl; [|exact HF]. intros s [S1 [S2 [S3 _]]].
  split; [apply asgs_ok_user; exact S3|]. split; assumption.
Qed.

(* the full statement's conclusion for every well-formed, DBC-expressible, flat bus *)
Theorem export_import_wf_flat : forall b, well_formed b -> names_ok b -> flat_bus b ->
  exists b', export_import b = Ok b' /\ proj_bus b' = proj_bus b.
Proof. intros b H1 H2 H3. apply export_import_all_thm. apply wf_flat_ambus; assumption. Qed.

(* ------------------------------------------------------------------------------------------
   the hypotheses are satisfiable together: a well-formed, DBC-expressible, flat bus with a node whose name holds a
   blank, a message with a plain signal, a 2-group multiplexer, a child in group 0 carrying an attribute and a
   fixed child
   ------------------------------------------------------------------------------------------ *)
Local Open Scope string_scope.
Definition bsig_a := mksignal 0 "a" KStandard 0 None [] 8 false fl_one fl_zero fl_zero (mkfl 255 0) "" 0 0 0 "" fl_zero 0 [].
Definition bsig_m := mksignal 1 "m" KMux 8 None [] 0 false fl_one fl_zero fl_zero fl_zero "" 0 2 8 "" fl_zero 0 [].
Definition bsig_k := mksignal 2 "k0" KStandard 0 (Some 1) [0] 4 false fl_one fl_zero fl_zero (mkfl 15 0) "" 0 0 0 "" fl_zero 0
                   [mkasg "Att" (DefInt 0 0 10 false) (ValInt 5)].
Definition bsig_f := mksignal 3 "kf" KStandard 4 (Some 1) [] 4 false fl_one fl_zero fl_zero (mkfl 15 0) "" 0 0 0 "" fl_zero 0 [].
Definition bsigs := [bsig_a; bsig_m; bsig_k; bsig_f].
Definition bridge_bus : bus :=
  mkbus "bus" "a bus" [] [mknode "ECU 1" 0 "" []] []
    [ mkmessage 100 "msg" 8 LittleEndian 0 0 0 0 "ECU 1" [] "" [] bsigs ].
Ltac in_c H := cbn [In] in H; repeat (destruct H as [<-|H]); try contradiction.

Lemma asgs_nil : asgs_ok []. Proof. split; constructor. Qed.
Lemma asgs_att : asgs_ok [mkasg "Att" (DefInt 0 0 10 false) (ValInt 5)].
Proof.
  split; [repeat constructor; intros []|]. constructor; [|constructor].
  cbn [aa_name aa_def aa_val]. split.
  { unfold wf_asg. cbn [aa_def aa_val]. split; [split; [lia|intros Hc; discriminate Hc]|]. split; [reflexivity|exact I]. }
  split; [reflexivity|]. split; [intros Hc; discriminate Hc|]. split; [reflexivity|]. split; [vm_compute; intuition discriminate|]. split; exact I.
Qed.
Lemma disj_kids : forall g, 0 <= g < 2 -> disjoint_in [] 8 (filter (fun c => in_group c g) (children_of bsigs bsig_m)).
Proof.
  intros g Hg. assert (Hc : g = 0 \/ g = 1) by lia. destruct Hc as [->| ->]; cbn [filter children_of bsigs in_group s_groups s_parent s_id bsig_a bsig_m bsig_k bsig_f mem_z existsb Z.eqb Pos.eqb orb].
  - split; [repeat constructor; vm_compute; intuition discriminate|].
    intros i j a c Hij Hi Hj. destruct i as [|[|i]], j as [|[|j]]; cbn [nth_error] in Hi, Hj; try (destruct i; discriminate Hi); try (destruct j; discriminate Hj); try contradiction;
      inversion Hi; inversion Hj; subst; vm_compute; reflexivity.
  - split; [repeat constructor; vm_compute; intuition discriminate|].
    intros i j a c Hij Hi Hj. destruct i as [|i], j as [|j]; cbn [nth_error] in Hi, Hj; try (destruct i; discriminate Hi); try (destruct j; discriminate Hj); try contradiction.
Qed.
Lemma bsigs_wf : signals_wf [] 8 bsigs.
Proof.
  unfold signals_wf. split; [repeat constructor; cbn; intuition discriminate|]. split.
  { exists (fun s => match s_parent s with None => 0%nat | Some _ => 1%nat end).
    intros c p Hc Hpar Hp. unfold bsigs in Hc, Hp. in_c Hc; cbn in Hpar; try discriminate Hpar; in_c Hp; cbn in Hpar; try (inversion Hpar; fail); cbn; split; try reflexivity; lia. }
  split.
  { intros c q Hc Hpar. unfold bsigs in Hc. in_c Hc; cbn in Hpar; try discriminate Hpar; inversion Hpar; subst q; exists bsig_m; (split; [vm_compute; reflexivity|cbn; tauto]). }
  split.
  { cbn [filter children_of bsigs in_group s_groups s_parent s_id bsig_a bsig_m bsig_k bsig_f mem_z existsb Z.eqb Pos.eqb orb]. split; [repeat constructor; vm_compute; intuition discriminate|].
    intros i j a c Hij Hi Hj. destruct i as [|[|i]], j as [|[|j]]; cbn [nth_error] in Hi, Hj; try (destruct i; discriminate Hi); try (destruct j; discriminate Hj); try contradiction;
      inversion Hi; inversion Hj; subst; vm_compute; reflexivity. }
  unfold bsigs. repeat (apply Forall_cons); try apply Forall_nil.
  - cbn. repeat split; try reflexivity; try lia; try (first [left; split; reflexivity|right; reflexivity]); try constructor; try discriminate.
  - split; [left; split; reflexivity|]. split; [cbn; lia|]. split; [apply asgs_nil|]. split; [reflexivity|]. split; [reflexivity|]. split.
    + cbn [s_kind bsig_m s_gcount s_gsize]. split; [lia|]. split; [lia|]. exact disj_kids.
    + intros p Hp. cbn in Hp. discriminate Hp.
  - split; [left; split; reflexivity|]. split; [cbn; lia|]. split; [apply asgs_att|]. split; [reflexivity|]. split; [intros Hc; discriminate Hc|]. split.
    + cbn. repeat split; try lia; first [left; split; reflexivity|right; reflexivity].
    + intros p Hp Hin. cbn [s_groups bsig_k]. unfold bsigs in Hin. in_c Hin; cbn in Hp; try (inversion Hp; fail). cbn. split; [lia|]. intros g [<-|[]]. lia.
  - split; [left; split; reflexivity|]. split; [cbn; lia|]. split; [apply asgs_nil|]. split; [reflexivity|]. split; [intros Hc; discriminate Hc|]. split.
    + cbn. repeat split; try lia; first [left; split; reflexivity|right; reflexivity].
    + intros p Hp Hin. cbn. split; [exact I|intros g []].
Qed.

Example bridge_wf : well_formed bridge_bus.
Proof.
  unfold well_formed, bridge_bus. cbn [b_nodes b_desc b_attrs b_enums b_messages length].
  split; [lia|]. split; [reflexivity|]. split; [apply asgs_nil|].
  split; [constructor; [split; [reflexivity|apply asgs_nil]|constructor]|].
  split; [constructor|]. split; [repeat constructor; intros []|]. split; [reflexivity|].
  split.
  { intros a c Ha Hc _. unfold all_asgs in Ha, Hc. cbn in Ha, Hc. in_c Ha. in_c Hc. reflexivity. }
  constructor; [|constructor].
  cbn [m_canid m_size m_sendtype m_desc m_attrs m_sender m_receivers m_signals map n_name].
  split; [lia|]. split; [lia|]. split; [lia|]. split; [reflexivity|]. split; [apply asgs_nil|]. split; [left; reflexivity|].
  split; [intros x []|]. split; [constructor|]. split; [intros Hc; discriminate Hc|]. exact bsigs_wf.
Qed.
Example bridge_names : names_ok bridge_bus.
Proof.
  unfold names_ok, bridge_bus, bsigs. cbn [b_nodes b_enums b_messages map n_name m_sender m_name m_signals s_name bsig_a bsig_m bsig_k bsig_f].
  split; [repeat constructor; unfold ident_ok; vm_compute; intuition discriminate|].
  split; [repeat constructor; vm_compute; intuition discriminate|].
  split; [vm_compute; intuition discriminate|].
  split; [constructor|].
  split; [repeat constructor; vm_compute; intuition discriminate|].
  repeat constructor; unfold ident_ok; vm_compute; intuition discriminate.
Qed.
Example bridge_flat : flat_bus bridge_bus.
Proof.
  split; [|constructor].
  constructor; [|constructor]. cbn [m_signals bridge_bus]. split.
  - intros s Hs Hm. unfold bsigs in Hs. cbn [In] in Hs. repeat (destruct Hs as [<-|Hs]; [first [reflexivity|discriminate Hm]|]). destruct Hs.
  - cbn. repeat split; lia.
Qed.
Example bridge_roundtrip : exists b', export_import bridge_bus = Ok b' /\ proj_bus b' = proj_bus bridge_bus.
Proof. apply export_import_wf_flat; [exact bridge_wf|exact bridge_names|exact bridge_flat]. Qed.
