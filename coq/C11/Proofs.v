(* C11 — proofs about export followed by import (model in Acme.C10.Export / Import). *)
From Coq Require Import String Ascii ZArith List Bool Lia.
From Coq Require Import ZifyBool.
From Acme.C10 Require Import DbcDoc BusModel Import Export Bits.
From Acme.C10 Require Proofs.
Import ListNotations.
Open Scope Z_scope.

Definition start_bit_inverse := Acme.C10.Proofs.start_bit_inverse.

(* ------------------------------------------------------------------------------------------ *)
(* float tokens: an integral double printed without '.', read back as an integer and converted  *)
(* with float64(int) is the same double                                                        *)
(* ------------------------------------------------------------------------------------------ *)
Definition fl_canonical (f : fl) : Prop := (fm f = 0 /\ fe f = 0) \/ Z.odd (fm f) = true.

Lemma fl_norm_aux_pow : forall (k : nat) fuel m e, (k < fuel)%nat -> Z.odd m = true ->
  fl_norm_aux fuel (m * 2 ^ Z.of_nat k) e = mkfl m (e + Z.of_nat k).
Proof.
  induction k as [|k IH]; intros fuel m e Hf Hm.
  - destruct fuel as [|fuel]; [lia|]. cbn [fl_norm_aux]. rewrite Z.pow_0_r, Z.mul_1_r.
    assert (m <> 0) by (intros ->; discriminate).
    replace (m =? 0) with false by lia.
    rewrite <- Z.negb_odd, Hm. cbn. f_equal. lia.
  - destruct fuel as [|fuel]; [lia|]. cbn [fl_norm_aux].
    assert (m <> 0) by (intros ->; discriminate).
    assert (Hpos : 0 < 2 ^ Z.of_nat (S k)) by (apply Z.pow_pos_nonneg; lia).
    replace (m * 2 ^ Z.of_nat (S k) =? 0) with false by nia.
    rewrite Nat2Z.inj_succ, Z.pow_succ_r by lia.
    replace (m * (2 * 2 ^ Z.of_nat k)) with (2 * (m * 2 ^ Z.of_nat k)) by ring.
    rewrite Z.even_mul. cbn [Z.even orb].
    replace (2 * (m * 2 ^ Z.of_nat k) / 2) with (m * 2 ^ Z.of_nat k) by (apply Z.div_unique_exact; [lia|ring]).
    rewrite IH by (try lia; assumption). f_equal. lia.
Qed.

Lemma fl_of_Z_to_Z : forall f, fl_canonical f -> fl_is_decimal f = false -> fl_of_Z (fl_to_Z f) = f.
Proof.
  intros [m e] [[Hm He]|Hodd] Hd; cbn [fm fe] in *.
  - subst. reflexivity.
  - unfold fl_is_decimal in Hd. cbn [fm fe] in Hd.
    assert (m <> 0) by (intros ->; discriminate).
    assert (He : 0 <= e) by lia.
    unfold fl_of_Z, fl_to_Z, fl_norm. cbn [fm fe].
    rewrite <- (Z2Nat.id e) at 1 2 by lia.
    rewrite fl_norm_aux_pow; [f_equal; lia| |assumption].
    (* fuel: 1 + log2 |m * 2^e| > e *)
    assert (Hpos : 0 < 2 ^ Z.of_nat (Z.to_nat e)) by (apply Z.pow_pos_nonneg; lia).
    assert (Hle : 2 ^ Z.of_nat (Z.to_nat e) <= Z.abs (m * 2 ^ Z.of_nat (Z.to_nat e))) by nia.
    apply Z.log2_le_mono in Hle. rewrite Z.log2_pow2 in Hle by lia. lia.
Qed.

(* ------------------------------------------------------------------------------------------ *)
(* attribute definitions and values of the four types (and hex) survive                         *)
(*   export -> write/parse effect -> import                                                    *)
(* ------------------------------------------------------------------------------------------ *)
Definition wf_def (d : attr_def) : Prop :=
  match d with
  | DefString _ => True
  | DefInt dv mn mx hex => mn <= dv <= mx /\ (hex = true -> 0 <= mn /\ mx < 2 ^ 32)
  | DefFloat dv mn mx => fl_leb mn dv = true /\ fl_leb dv mx = true /\ fl_canonical dv
  | DefEnum dv vals => NoDup vals /\ exists r, vals = dv :: r
  end.

Lemma u32_id : forall z, 0 <= z < 2 ^ 32 -> u32 z = z.
Proof. intros z H. unfold u32. apply Z.mod_small. assumption. Qed.

Lemma pow_split : forall m e e' e0, e0 <= e' -> e' <= e -> m * 2 ^ (e - e0) = m * 2 ^ (e - e') * 2 ^ (e' - e0).
Proof. intros m e e' e0 Ha Hb. rewrite <- Z.mul_assoc, <- Z.pow_add_r by lia. f_equal. f_equal. lia. Qed.

Lemma scaled_le_trans : forall ma ea mb eb mc ec,
  ma * 2 ^ (ea - Z.min eb ea) <= mb * 2 ^ (eb - Z.min eb ea) ->
  mb * 2 ^ (eb - Z.min ec eb) <= mc * 2 ^ (ec - Z.min ec eb) ->
  ma * 2 ^ (ea - Z.min ec ea) <= mc * 2 ^ (ec - Z.min ec ea).
Proof.
  intros ma ea mb eb mc ec H1 H2.
  remember (Z.min eb ea) as e1. remember (Z.min ec eb) as e2. remember (Z.min ec ea) as e3.
  remember (Z.min ea (Z.min eb ec)) as e0.
  assert (Hb : e0 <= e1 /\ e1 <= ea /\ e1 <= eb /\ e0 <= e2 /\ e2 <= eb /\ e2 <= ec /\ e0 <= e3 /\ e3 <= ea /\ e3 <= ec) by lia.
  clear Heqe0 Heqe1 Heqe2 Heqe3.
  assert (P1 : 0 <= 2 ^ (e1 - e0)) by (apply Z.pow_nonneg; lia).
  assert (P2 : 0 <= 2 ^ (e2 - e0)) by (apply Z.pow_nonneg; lia).
  assert (P3 : 0 < 2 ^ (e3 - e0)) by (apply Z.pow_pos_nonneg; lia).
  assert (A : ma * 2 ^ (ea - e0) <= mb * 2 ^ (eb - e0)).
  { rewrite (pow_split ma ea e1 e0), (pow_split mb eb e1 e0) by lia. apply Z.mul_le_mono_nonneg_r; assumption. }
  assert (B : mb * 2 ^ (eb - e0) <= mc * 2 ^ (ec - e0)).
  { rewrite (pow_split mb eb e2 e0), (pow_split mc ec e2 e0) by lia. apply Z.mul_le_mono_nonneg_r; assumption. }
  assert (C : ma * 2 ^ (ea - e0) <= mc * 2 ^ (ec - e0)) by lia.
  rewrite (pow_split ma ea e3 e0), (pow_split mc ec e3 e0) in C by lia.
  apply Z.mul_le_mono_pos_r in C; assumption.
Qed.

Lemma fl_leb_trans : forall a b c, fl_leb a b = true -> fl_leb b c = true -> fl_leb a c = true.
Proof.
  intros [ma ea] [mb eb] [mc ec]. unfold fl_leb, fl_ltb. cbn [fm fe].
  intros H1 H2. apply negb_true_iff in H1, H2. apply Z.ltb_ge in H1, H2. apply negb_true_iff, Z.ltb_ge.
  eapply scaled_le_trans; eassumption.
Qed.

Theorem attr_def_roundtrip : forall k name d, wf_def d ->
  let '(da, dd) := export_attribute k name d in
  import_attr_def da (reparse_def dd) = Ok d.
Proof.
  intros k name d Hwf. destruct d as [s|dv mn mx hex|dv mn mx|dv vals]; cbn [export_attribute].
  - reflexivity.
  - cbn in Hwf. destruct Hwf as [Hr Hh]. destruct hex; cbn.
    + destruct (Hh eq_refl) as [H0 H32]. unfold import_attr_def, reparse_def, default_int, new_int_attr. cbn.
      rewrite !u32_id by lia.
      replace (mn >? mx) with false by lia. replace (dv >? mx) with false by lia. replace (dv <? mn) with false by lia.
      reflexivity.
    + unfold import_attr_def, reparse_def, default_int, new_int_attr. cbn.
      replace (mn >? mx) with false by lia. replace (dv >? mx) with false by lia. replace (dv <? mn) with false by lia.
      reflexivity.
  - cbn in Hwf. destruct Hwf as [H1 [H2 Hc]].
    assert (Hdef : default_float (reparse_def (mkdattrdef VFloat name EmptyString 0 0 dv)) = dv).
    { unfold reparse_def. cbn [ad_type ad_fl ad_name]. destruct (fl_is_decimal dv) eqn:Ed; cbn; [reflexivity|].
      apply fl_of_Z_to_Z; assumption. }
    unfold import_attr_def. cbn [at_type at_min_fl at_max_fl]. rewrite Hdef. unfold new_float_attr.
    pose proof (fl_leb_trans _ _ _ H1 H2) as H3.
    unfold fl_leb in H1, H2, H3. apply negb_true_iff in H1, H2, H3. rewrite H1, H2, H3. reflexivity.
  - cbn in Hwf. destruct Hwf as [Hnd [r Hv]]. subst vals. cbn.
    f_equal. f_equal.
    assert (Hd : forall l seen, NoDup l -> (forall x, In x l -> ~ In x seen) -> dedup_str seen l = l).
    { induction l as [|y q IH]; intros seen Hn Hs; cbn; [reflexivity|].
      inversion Hn; subst.
      destruct (mem_str y seen) eqn:E.
      - apply Proofs.mem_str_true_in in E. exfalso. apply (Hs y); [left; reflexivity|assumption].
      - f_equal. apply IH; [assumption|]. intros x Hx [Hx'|Hx']; [subst; contradiction|].
        apply (Hs x); [right; assumption|assumption]. }
    apply (Hd (dv :: r) []); [assumption|]. intros x _ [].
Qed.

(* a well-typed assignment: the value conforms to the attribute (withAttributes.addAttributeAssignment) *)
Definition wf_asg (a : attr_asg) : Prop :=
  wf_def (aa_def a) /\ check_value (aa_def a) (aa_val a) = true /\
  match aa_val a with ValFloat f => fl_canonical f | _ => True end.

Lemma index_of_nth : forall vals s i, NoDup vals -> In s vals ->
  0 <= index_of s vals i - i < Z.of_nat (length vals) /\
  nth (Z.to_nat (index_of s vals i - i)) vals EmptyString = s.
Proof.
  induction vals as [|v r IH]; intros s i Hnd Hin; [destruct Hin|].
  cbn [index_of]. destruct (String.eqb s v) eqn:E.
  - apply String.eqb_eq in E. subst. replace (i - i) with 0 by lia. cbn. split; [lia|reflexivity].
  - inversion Hnd; subst. destruct Hin as [Hin|Hin]; [subst; rewrite String.eqb_refl in E; discriminate|].
    destruct (IH s (i + 1) H2 Hin) as [Hr Hn]. cbn [length]. rewrite Nat2Z.inj_succ. split; [lia|].
    replace (index_of s r (i + 1) - i) with (Z.succ (index_of s r (i + 1) - (i + 1))) by lia.
    rewrite Z2Nat.inj_succ by lia. cbn [nth]. assumption.
Qed.

Theorem attr_value_roundtrip : forall k node msg sig a acc, wf_asg a ->
  exists av, ea_attrvals (export_assignment k node msg sig a acc) = ea_attrvals acc ++ [av] /\
             av_name av = clear_spaces (aa_name a) /\
             attr_value (aa_def a) (reparse_val av) = Ok (aa_val a).
Proof.
  intros k node msg sig a acc [Hd [Hc Hf]]. unfold export_assignment.
  destruct (export_attribute k (clear_spaces (aa_name a)) (aa_def a)) as [da dd].
  eexists. split; [cbn [ea_attrvals]; reflexivity|]. split.
  - destruct (aa_def a) as [s|dv mn mx hex|dv mn mx|dv vals], (aa_val a) as [t|z|f]; try destruct hex; reflexivity.
  - destruct (aa_def a) as [s|dv mn mx hex|dv mn mx|dv vals], (aa_val a) as [t|z|f]; cbn in Hc; try discriminate.
    + reflexivity.
    + cbn in Hd. destruct Hd as [Hr Hh]. destruct hex; cbn; [|reflexivity].
      destruct (Hh eq_refl) as [H0 H32]. rewrite u32_id by lia. reflexivity.
    + unfold reparse_val. cbn [av_type av_fl]. destruct (fl_is_decimal f) eqn:Ed.
      * reflexivity.
      * unfold attr_value. cbn [av_type av_int]. rewrite fl_of_Z_to_Z by assumption. reflexivity.
    + cbn in Hd. destruct Hd as [Hnd _]. apply Proofs.mem_str_true_in in Hc.
      destruct (index_of_nth vals t 0 Hnd Hc) as [Hr Hn]. rewrite Z.sub_0_r in Hr, Hn.
      unfold reparse_val, attr_value. cbn [av_type av_int].
      replace ((index_of t vals 0 <? 0) || (index_of t vals 0 >=? Z.of_nat (length vals))) with false by lia.
      rewrite Hn. reflexivity.
Qed.

(* ------------------------------------------------------------------------------------------ *)
(* SG_MUL_VAL_ ranges: the group ids of a signal survive export (ranges_of) and import          *)
(* (expand_ranges)                                                                            *)
(* ------------------------------------------------------------------------------------------ *)
Fixpoint ascending (prev : Z) (l : list Z) : Prop :=
  match l with [] => True | x :: r => prev < x /\ ascending x r end.

Lemma zrange_snoc : forall n from, zrange from (S n) = zrange from n ++ [from + Z.of_nat n].
Proof.
  induction n as [|n IH]; intros from.
  - cbn. f_equal. lia.
  - change (zrange from (S (S n))) with (from :: zrange (from + 1) (S n)). rewrite IH.
    change (zrange from (S n)) with (from :: zrange (from + 1) n). cbn [app].
    f_equal. f_equal. f_equal. rewrite Nat2Z.inj_succ. lia.
Qed.

Lemma expand_ranges_aux : forall gcount l from prev,
  0 <= from -> from <= prev -> ascending prev l -> (forall x, In x (prev :: l) -> x < gcount) -> gcount <= 2 ^ 32 ->
  expand_ranges gcount (ranges_aux from prev l) = Ok (zrange from (Z.to_nat (prev - from + 1)) ++ l).
Proof.
  intros gcount l. induction l as [|x r IH]; intros from prev H0 Hle Hasc Hb H32.
  - cbn [ranges_aux expand_ranges]. rewrite !u32_id by (specialize (Hb prev (or_introl eq_refl)); lia).
    replace (from >? prev) with false by lia.
    replace (prev >=? gcount) with false by (specialize (Hb prev (or_introl eq_refl)); lia).
    cbn. rewrite !app_nil_r. reflexivity.
  - cbn [ranges_aux]. cbn in Hasc. destruct Hasc as [Hlt Hasc].
    assert (Hx : x < gcount) by (apply Hb; right; left; reflexivity).
    assert (Hp : prev < gcount) by (apply Hb; left; reflexivity).
    destruct (x =? prev + 1) eqn:E.
    + rewrite IH; try lia; try assumption.
      * replace (Z.to_nat (x - from + 1)) with (S (Z.to_nat (prev - from + 1))) by lia.
        rewrite zrange_snoc, <- app_assoc. cbn [app]. f_equal. f_equal. f_equal. f_equal. lia.
      * intros y Hy. apply Hb. right. assumption.
    + cbn [expand_ranges]. rewrite !u32_id by lia.
      replace (from >? prev) with false by lia. replace (prev >=? gcount) with false by lia.
      rewrite IH; try lia; try assumption.
      * cbn [bind]. replace (Z.to_nat (x - x + 1)) with 1%nat by lia. cbn [zrange app]. reflexivity.
      * intros y Hy. apply Hb. right. assumption.
Qed.

Theorem mux_ranges_roundtrip : forall gcount g,
  ascending (-1) g -> (forall x, In x g -> x < gcount) -> gcount <= 2 ^ 32 ->
  expand_ranges gcount (ranges_of g) = Ok g.
Proof.
  intros gcount g Hasc Hb H32. destruct g as [|x r]; [reflexivity|].
  cbn [ranges_of]. cbn in Hasc. destruct Hasc as [H0 Hasc].
  rewrite expand_ranges_aux; try lia; try assumption.
  replace (Z.to_nat (x - x + 1)) with 1%nat by lia. reflexivity.
Qed.
