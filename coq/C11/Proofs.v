(* C11 — proofs about export/import (model in Acme.C10.Export / Import). *)
From Coq Require Import String Ascii ZArith List Bool Lia.
From Acme.C10 Require Import DbcDoc BusModel Import Export Bits.
From Acme.C10 Require Proofs.
Import ListNotations.
Open Scope Z_scope.

Definition start_bit_inverse := Acme.C10.Proofs.start_bit_inverse.
