(* C11 — the three shapes on which export followed by import does NOT reproduce the bus (recorded as
   open known findings; the hypotheses of the full statement exclude exactly these):
   (1) a hex-format integer attribute with a negative bound: dbc.Attribute stores hex bounds as uint32,
       the exporter writes the wrapped value and the importer refuses min > max;
   (2) two messages with the same CAN-ID (the library lets a generated CAN-ID coincide with a static
       one): the importer refuses the second BO_;
   (3) a message that lists receivers but has no signal: DBC names receivers per signal, they are lost. *)
From Coq Require Import String Ascii ZArith List Bool.
From Acme.C10 Require Import DbcDoc BusModel Import Export.
Import ListNotations.
Open Scope Z_scope.
Local Open Scope string_scope.

Definition plain_msg (canid : Z) (name sender : string) (recs : list string) (attrs : list attr_asg) : message :=
  mkmessage canid name 1 LittleEndian 0 0 0 0 sender recs "" attrs [].

Definition bus_hex_negative : bus :=
  mkbus "b" "" [] [mknode "N" 0 "" []] []
    [plain_msg 1 "m" "N" [] [mkasg "h" (DefInt 0 (-5) 10 true) (ValInt 3)]].

Theorem export_import_hex_negative_refuted :
  check_value (DefInt 0 (-5) 10 true) (ValInt 3) = true /\ forall b', export_import bus_hex_negative <> Ok b'.
Proof. split; [reflexivity|]. intros b' H. vm_compute in H. discriminate H. Qed.

Definition bus_canid_clash : bus :=
  mkbus "b" "" [] [mknode "N" 0 "" []] [] [plain_msg 7 "m1" "N" [] []; plain_msg 7 "m2" "N" [] []].

Theorem export_import_canid_clash_refuted : forall b', export_import bus_canid_clash <> Ok b'.
Proof. intros b' H. vm_compute in H. discriminate H. Qed.

Definition bus_receivers_without_signals : bus :=
  mkbus "b" "" [] [mknode "N" 0 "" []; mknode "R" 1 "" []] [] [plain_msg 7 "m1" "N" ["R"] []].

Theorem export_import_receivers_without_signals_refuted :
  exists b', export_import bus_receivers_without_signals = Ok b' /\
             proj_bus b' <> proj_bus bus_receivers_without_signals.
Proof. eexists. split; [vm_compute; reflexivity|]. vm_compute. discriminate. Qed.
