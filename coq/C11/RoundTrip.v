(* C11 — export followed by import on PLAIN buses: every message holds standard signals only, no
   attributes, timing or send types; descriptions of the bus, nodes, messages and signals are free
   (the structural core: nodes in order, messages by CAN-ID with name / size / byte order / sender /
   receivers / description, signals with name, start bit in both byte orders, size, signedness,
   factor, offset, minimum, maximum, unit, description; names with blanks).
   The statement is at AST level: `export_import b = import (text_roundtrip (export b))`, where
   `text_roundtrip` is the MODELLED effect of dbc.Write + dbc.Parse.
   The full statement (every bus that is well formed and DBC-expressible) is
   `export_import_full_statement` below; enum signals, attributes and multiplexers are covered by
   the component theorems of Proofs.v (attr_def_roundtrip, attr_value_roundtrip,
   mux_ranges_roundtrip) and by the correspondence run. *)
From Coq Require Import String Ascii ZArith List Bool Lia Permutation.
From Coq Require Import ZifyBool.
From Acme.C10 Require Import DbcDoc BusModel Import Export Bits.
From Acme.C10 Require Proofs.
From Acme.C11 Require Import Strings Proofs.
Import ListNotations.
Open Scope Z_scope.

Notation clear := clear_spaces.

(* ---------------- the class of plain buses ---------------- *)
Definition plain_signal (s : signal) : Prop :=
  s_kind s = KStandard /\ s_parent s = None /\ s_groups s = [] /\
  s_startval s = fl_zero /\ s_sendtype s = 0 /\ s_attrs s = [] /\ 0 < s_size s < 2 ^ 32 /\ 0 <= s_rel s.

(* signals in position order, pairwise disjoint, inside the payload *)
Fixpoint layout_ok (from limit : Z) (l : list signal) : Prop :=
  match l with
  | [] => True
  | s :: r => from <= s_rel s /\ s_rel s + s_size s <= limit /\ layout_ok (s_rel s + s_size s) limit r
  end.

Definition plain_message (node_names : list string) (m : message) : Prop :=
  m_attrs m = [] /\ m_cycle m = 0 /\ m_delay m = 0 /\ m_startdelay m = 0 /\
  m_sendtype m = 0 /\ 0 <= m_canid m < 2 ^ 32 /\ 0 <= m_size m <= 8 /\
  Forall plain_signal (m_signals m) /\ layout_ok 0 (m_size m * 8) (m_signals m) /\
  NoDup (map (fun s => clear (s_name s)) (m_signals m)) /\
  In (m_sender m) node_names /\ incl (m_receivers m) node_names /\
  NoDup (map clear (m_receivers m)) /\ (m_signals m = [] -> m_receivers m = []).

Definition plain_bus (b : bus) : Prop :=
  b_attrs b = [] /\
  Forall (fun n => n_attrs n = []) (b_nodes b) /\
  NoDup (map (fun n => clear (n_name n)) (b_nodes b)) /\
  ~ In dummy_node (map (fun n => clear (n_name n)) (b_nodes b)) /\
  (length (b_nodes b) <= 1024)%nat /\
  Forall (plain_message (map n_name (b_nodes b))) (b_messages b) /\
  NoDup (map m_canid (b_messages b)) /\
  NoDup (map (fun m => (clear (m_sender m), clear (m_name m))) (b_messages b)) /\
  flat_map (fun n => filter (fun m => String.eqb (m_sender m) (n_name n)) (b_messages b)) (b_nodes b) = b_messages b.

(* ---------------- what the exporter writes for a plain bus ---------------- *)
Definition dsig_of (order : byte_order) (recs : list string) (s : signal) : dsignal :=
  mkdsignal (clear (s_name s)) false false 0 (u32 (s_size s)) (dbc_start_bit (s_rel s) order) order (s_signed s)
            (s_scale s) (s_offset s) (s_min s) (s_max s) (s_unit s) recs.

Definition recs_out (m : message) : list string :=
  match m_receivers m with [] => [dummy_node] | l => map clear (sort_by str_ltb l) end.

Definition dmsg_of (m : message) : dmessage :=
  mkdmessage (u32 (m_canid m)) (clear (m_name m)) (u32 (m_size m)) (clear (m_sender m))
             (map (dsig_of (m_order m) (recs_out m)) (m_signals m)).

(* the comments *)
Definition opt_cm (desc : string) (c : dcomment) : list dcomment :=
  if String.eqb desc EmptyString then [] else [c].
Definition sig_cms (msgid : Z) (s : signal) : list dcomment :=
  opt_cm (s_desc s) (mkdcomment OSignal (s_desc s) EmptyString msgid (clear (s_name s))).
Definition msg_cms (m : message) : list dcomment :=
  opt_cm (m_desc m) (mkdcomment OMessage (m_desc m) EmptyString (u32 (m_canid m)) EmptyString)
  ++ flat_map (sig_cms (u32 (m_canid m))) (m_signals m).
Definition node_cms (b : bus) (n : node) : list dcomment :=
  opt_cm (n_desc n) (mkdcomment ONode (n_desc n) (clear (n_name n)) 0 EmptyString)
  ++ flat_map msg_cms (filter (fun m => String.eqb (m_sender m) (n_name n)) (b_messages b)).
Definition doc_cms (b : bus) : list dcomment :=
  opt_cm (b_desc b) (mkdcomment OGeneral (b_desc b) EmptyString 0 EmptyString) ++ flat_map (node_cms b) (b_nodes b).

Lemma abs_start_top : forall fuel sigs s, s_parent s = None -> abs_start fuel sigs s = s_rel s.
Proof. intros fuel sigs s H. destruct fuel; cbn; rewrite H; reflexivity. Qed.

Definition add_cms (l : list dcomment) (acc : eacc) : eacc :=
  mkeacc (ea_comments acc ++ l) (ea_attrs acc) (ea_attrdefs acc) (ea_attrvals acc) (ea_valencs acc)
         (ea_extmuxes acc) (ea_messages acc) (ea_sigs acc) (ea_names acc) (ea_enums acc).

Lemma export_signal_plain : forall es sigs order msgid recs many fuel s acc,
  plain_signal s ->
  export_signal es sigs order msgid recs many fuel s acc = add_sig (dsig_of order recs s) (add_cms (sig_cms msgid s) acc).
Proof.
  intros es sigs order msgid recs many fuel s acc [Hk [Hp [Hg [Hv [Ht [Ha _]]]]]].
  unfold sig_cms, opt_cm.
  destruct fuel; cbn [export_signal]; rewrite Ha, Hv, Ht, Hp, Hk; cbn;
    rewrite abs_start_top by assumption; destruct (String.eqb (s_desc s) EmptyString); cbn;
    unfold add_cms, add_sig, add_comment; cbn; rewrite ?app_nil_r; destruct acc; reflexivity.
Qed.

Definition add_sigs (l : list dsignal) (acc : eacc) : eacc :=
  mkeacc (ea_comments acc) (ea_attrs acc) (ea_attrdefs acc) (ea_attrvals acc) (ea_valencs acc)
         (ea_extmuxes acc) (ea_messages acc) (ea_sigs acc ++ l) (ea_names acc) (ea_enums acc).

Lemma export_signals_plain : forall es sigs order msgid recs many fuel l acc,
  Forall plain_signal l ->
  fold_left (fun a s => export_signal es sigs order msgid recs many fuel s a) l acc
  = add_sigs (map (dsig_of order recs) l) (add_cms (flat_map (sig_cms msgid) l) acc).
Proof.
  intros es sigs order msgid recs many fuel l. induction l as [|s r IH]; intros acc H; cbn [fold_left map flat_map].
  - unfold add_sigs, add_cms. cbn. rewrite !app_nil_r. destruct acc; reflexivity.
  - inversion H; subst. rewrite export_signal_plain by assumption. rewrite IH by assumption.
    unfold add_sigs, add_sig, add_cms. cbn. rewrite <- !app_assoc. reflexivity.
Qed.

(* a list whose keys strictly ascend is its own sort *)
Fixpoint ascending_by {A} (key : A -> Z) (l : list A) : Prop :=
  match l with
  | [] => True
  | x :: r => (match r with [] => True | y :: _ => key x < key y end) /\ ascending_by key r
  end.

Lemma sort_by_ascending : forall {A} (key : A -> Z) l, ascending_by key l ->
  sort_by (fun a b => key a <? key b) l = l.
Proof.
  intros A key l. induction l as [|x r IH]; intros H; [reflexivity|].
  cbn [sort_by fold_right]. destruct H as [Hx Hr]. fold (sort_by (fun a b => key a <? key b) r). rewrite (IH Hr).
  destruct r as [|y q]; [reflexivity|]. cbn [insert_sorted].
  replace (key y <? key x) with false by lia. reflexivity.
Qed.

Lemma layout_ascending : forall l from limit, Forall plain_signal l -> layout_ok from limit l -> ascending_by s_rel l.
Proof.
  induction l as [|s r IH]; intros from limit Hp H; [exact I|].
  cbn in H. destruct H as [H1 [H2 H3]]. inversion Hp as [|? ? Hps Hpr]; subst. split; [|eapply IH; eauto].
  destruct r as [|y q]; [exact I|]. cbn in H3. destruct H3 as [H3 _].
  destruct Hps as [_ [_ [_ [_ [_ [_ [Hs _]]]]]]]. lia.
Qed.

Lemma filter_all : forall {A} (p : A -> bool) l, (forall x, In x l -> p x = true) -> filter p l = l.
Proof.
  intros A p l. induction l as [|x r IH]; intros H; cbn; [reflexivity|].
  rewrite (H x (or_introl eq_refl)). f_equal. apply IH. intros y Hy. apply H. right. assumption.
Qed.

Definition clean_acc (cms : list dcomment) (msgs : list dmessage) (sigs : list dsignal) : eacc :=
  mkeacc cms [] [] [] [] [] msgs sigs [] [].

Lemma export_message_plain : forall names es m cms msgs sigs,
  plain_message names m ->
  export_message es m (clean_acc cms msgs sigs) = clean_acc (cms ++ msg_cms m) (msgs ++ [dmsg_of m]) [].
Proof.
  intros names es m cms msgs sigs [Ha [Hc [Hdl [Hsd [Hst [Hid [Hsz [Hps [Hlay _]]]]]]]]].
  unfold export_message. rewrite Ha, Hc, Hdl, Hsd, Hst. cbn [Z.eqb app sort_attrs sort_by fold_right fold_left].
  assert (Htop : filter (fun s => match s_parent s with None => true | Some _ => false end) (m_signals m) = m_signals m).
  { apply filter_all. intros s Hs. rewrite Forall_forall in Hps. destruct (Hps s Hs) as [_ [Hp _]]. rewrite Hp. reflexivity. }
  rewrite Htop. rewrite (sort_by_ascending s_rel) by (eapply layout_ascending; eauto).
  assert (Hmany : Nat.ltb 1 (length (filter (fun s => match s_kind s with KMux => true | _ => false end) (m_signals m))) = false).
  { rewrite (Proofs.filter_nil); [reflexivity|]. intros s Hs. rewrite Forall_forall in Hps. destruct (Hps s Hs) as [Hk _]. rewrite Hk. reflexivity. }
  rewrite Hmany. rewrite export_signals_plain by assumption.
  unfold msg_cms, opt_cm. destruct (String.eqb (m_desc m) EmptyString);
    unfold dmsg_of, recs_out, clean_acc, add_message, add_sigs, add_cms, add_comment, set_sigs; cbn;
    rewrite <- ?app_assoc; reflexivity.
Qed.

Lemma export_messages_plain : forall names es l cms msgs,
  Forall (plain_message names) l ->
  fold_left (fun a m => export_message es m a) l (clean_acc cms msgs [])
  = clean_acc (cms ++ flat_map msg_cms l) (msgs ++ map dmsg_of l) [].
Proof.
  intros names es l. induction l as [|m r IH]; intros cms msgs H; cbn [fold_left map flat_map].
  - rewrite !app_nil_r. reflexivity.
  - inversion H; subst. rewrite (export_message_plain names) by assumption. rewrite IH by assumption.
    rewrite <- !app_assoc. reflexivity.
Qed.

Definition plain_doc (b : bus) : doc :=
  mkdoc (b_name b) (map (fun n => clear (n_name n)) (b_nodes b)) [] (map dmsg_of (b_messages b)) (doc_cms b) [] [] [] [] [].

Lemma Forall_filter : forall {A} (P : A -> Prop) p l, Forall P l -> Forall P (filter p l).
Proof.
  intros A P p l H. induction H; cbn; [constructor|]. destruct (p x); [constructor|]; assumption.
Qed.

Lemma export_plain : forall b, plain_bus b -> export b = plain_doc b.
Proof.
  intros b [Ha [Hn [_ [_ [_ [Hm [_ [_ Hg]]]]]]]].
  unfold export. rewrite Ha. cbn [sort_attrs sort_by fold_right fold_left].
  assert (Hnodes : forall nodes cms0 msgs0,
    Forall (fun n => n_attrs n = []) nodes ->
    fold_left (fun a n =>
        let name := clear (n_name n) in
        let a := if String.eqb (n_desc n) EmptyString then a
                 else add_comment (mkdcomment ONode (n_desc n) name 0 EmptyString) a in
        let a := fold_left (fun a x => export_assignment ONode name 0 EmptyString x a) (sort_attrs (n_attrs n)) a in
        fold_left (fun a m => export_message (b_enums b) m a)
                  (filter (fun m => String.eqb (m_sender m) (n_name n)) (b_messages b)) a)
      nodes (clean_acc cms0 msgs0 [])
    = clean_acc (cms0 ++ flat_map (node_cms b) nodes)
                (msgs0 ++ map dmsg_of (flat_map (fun n => filter (fun m => String.eqb (m_sender m) (n_name n)) (b_messages b)) nodes)) []).
  { induction nodes as [|n r IH]; intros cms0 msgs0 Hf; cbn [fold_left flat_map map].
    - rewrite !app_nil_r. reflexivity.
    - inversion Hf as [|? ? Hna Hr]; subst. rewrite Hna.
      cbn [sort_attrs sort_by fold_right fold_left].
      assert (Hcm : (if String.eqb (n_desc n) EmptyString then clean_acc cms0 msgs0 []
                     else add_comment (mkdcomment ONode (n_desc n) (clear (n_name n)) 0 EmptyString) (clean_acc cms0 msgs0 []))
                    = clean_acc (cms0 ++ opt_cm (n_desc n) (mkdcomment ONode (n_desc n) (clear (n_name n)) 0 EmptyString)) msgs0 []).
      { unfold opt_cm. destruct (String.eqb (n_desc n) EmptyString); [rewrite app_nil_r; reflexivity|reflexivity]. }
      rewrite Hcm.
      rewrite (export_messages_plain (map n_name (b_nodes b))) by (apply Forall_filter; assumption).
      rewrite IH by assumption. unfold node_cms. rewrite map_app, <- !app_assoc. reflexivity. }
  assert (H0 : (if String.eqb (b_desc b) EmptyString then mkeacc [] [] [] [] [] [] [] [] [] []
                else add_comment (mkdcomment OGeneral (b_desc b) EmptyString 0 EmptyString) (mkeacc [] [] [] [] [] [] [] [] [] []))
               = clean_acc (opt_cm (b_desc b) (mkdcomment OGeneral (b_desc b) EmptyString 0 EmptyString)) [] []).
  { unfold opt_cm. destruct (String.eqb (b_desc b) EmptyString); reflexivity. }
  rewrite H0. rewrite Hnodes by assumption. rewrite Hg. cbn. reflexivity.
Qed.

(* ---------------- the comment maps the importer builds ---------------- *)
Definition desc_of {K} (eqb : K -> K -> bool) (k : K) (l : list (K * string)) : string :=
  match lookup eqb k l with Some d => d | None => EmptyString end.

Definition npairs (cs : list dcomment) : list (string * string) :=
  flat_map (fun c => match cm_kind c with ONode => [(cm_node c, cm_text c)] | _ => [] end) cs.
Definition mpairs (cs : list dcomment) : list (Z * string) :=
  flat_map (fun c => match cm_kind c with OMessage => [(cm_msg c, cm_text c)] | _ => [] end) cs.
Definition spairs (cs : list dcomment) : list (key * string) :=
  flat_map (fun c => match cm_kind c with OSignal => [((cm_msg c, cm_sig c), cm_text c)] | _ => [] end) cs.
Definition gdesc (cs : list dcomment) (a : string) : string :=
  fold_left (fun a c => match cm_kind c with OGeneral => cm_text c | _ => a end) cs a.

Lemma import_comments_spec : forall cs,
  import_comments cs = (gdesc cs EmptyString, (rev (npairs cs), rev (mpairs cs), rev (spairs cs))).
Proof.
  intros cs. unfold import_comments.
  assert (H : forall cs b nd md sd,
    fold_left (fun '(bdesc, (nd, md, sd)) c =>
      match cm_kind c with
      | OGeneral => (cm_text c, (nd, md, sd))
      | ONode => (bdesc, ((cm_node c, cm_text c) :: nd, md, sd))
      | OMessage => (bdesc, (nd, (cm_msg c, cm_text c) :: md, sd))
      | OSignal => (bdesc, (nd, md, ((cm_msg c, cm_sig c), cm_text c) :: sd))
      | OEnvVar => (bdesc, (nd, md, sd))
      end) cs (b, (nd, md, sd))
    = (gdesc cs b, (rev (npairs cs) ++ nd, rev (mpairs cs) ++ md, rev (spairs cs) ++ sd))).
  { clear cs. induction cs as [|c r IH]; intros b nd md sd; [reflexivity|].
    unfold npairs, mpairs, spairs, gdesc in *. cbn [fold_left flat_map].
    destruct (cm_kind c); rewrite IH; cbn [app rev]; rewrite <- ?app_assoc; reflexivity. }
  rewrite H. rewrite !app_nil_r. reflexivity.
Qed.

Lemma in_pairs_n : forall cs k v, In (k, v) (npairs cs) <-> exists c, In c cs /\ cm_kind c = ONode /\ cm_node c = k /\ cm_text c = v.
Proof.
  intros cs k v. unfold npairs. rewrite in_flat_map. split.
  - intros [c [Hc Hin]]. exists c. destruct (cm_kind c); try (destruct Hin; fail).
    destruct Hin as [Hin|[]]. inversion Hin. auto.
  - intros [c [Hc [Hk [H1 H2]]]]. exists c. split; [assumption|]. rewrite Hk. subst. left. reflexivity.
Qed.
Lemma in_pairs_m : forall cs k v, In (k, v) (mpairs cs) <-> exists c, In c cs /\ cm_kind c = OMessage /\ cm_msg c = k /\ cm_text c = v.
Proof.
  intros cs k v. unfold mpairs. rewrite in_flat_map. split.
  - intros [c [Hc Hin]]. exists c. destruct (cm_kind c); try (destruct Hin; fail).
    destruct Hin as [Hin|[]]. inversion Hin. auto.
  - intros [c [Hc [Hk [H1 H2]]]]. exists c. split; [assumption|]. rewrite Hk. subst. left. reflexivity.
Qed.
Lemma in_pairs_s : forall cs k v, In (k, v) (spairs cs) <-> exists c, In c cs /\ cm_kind c = OSignal /\ (cm_msg c, cm_sig c) = k /\ cm_text c = v.
Proof.
  intros cs k v. unfold spairs. rewrite in_flat_map. split.
  - intros [c [Hc Hin]]. exists c. destruct (cm_kind c); try (destruct Hin; fail).
    destruct Hin as [Hin|[]]. inversion Hin. auto.
  - intros [c [Hc [Hk [H1 H2]]]]. exists c. split; [assumption|]. rewrite Hk. subst. left. reflexivity.
Qed.

(* a lookup is determined by membership when the map is functional at the key *)
Section DescOf.
  Context {K : Type} (eqb : K -> K -> bool).
  Hypothesis eqb_eq : forall a b, eqb a b = true <-> a = b.

  Lemma lookup_in_some : forall k (l : list (K * string)) v, lookup eqb k l = Some v -> In (k, v) l.
  Proof.
    intros k l v. induction l as [|[k' v'] r IH]; cbn; [discriminate|].
    destruct (eqb k k') eqn:E.
    - intros H. inversion H. subst. apply eqb_eq in E. subst. left. reflexivity.
    - intros H. right. apply IH. assumption.
  Qed.
  Lemma in_lookup_not_none : forall k (l : list (K * string)) v, In (k, v) l -> lookup eqb k l <> None.
  Proof.
    intros k l v. induction l as [|[k' v'] r IH]; cbn; [intros []|].
    intros [H|H].
    - inversion H. subst. rewrite (proj2 (eqb_eq k k) eq_refl). discriminate.
    - destruct (eqb k k'); [discriminate|]. apply IH. assumption.
  Qed.
  Lemma desc_of_spec : forall k l d,
    (forall v, In (k, v) l -> v = d) -> (d <> EmptyString -> In (k, d) l) -> desc_of eqb k l = d.
  Proof.
    intros k l d Hf Hin. unfold desc_of. destruct (lookup eqb k l) as [v|] eqn:E.
    - apply Hf. apply lookup_in_some. assumption.
    - destruct (string_dec d EmptyString) as [Hd|Hd]; [congruence|].
      exfalso. apply (in_lookup_not_none k l d (Hin Hd)). assumption.
  Qed.
End DescOf.

Lemma key_eqb_eq : forall a b, key_eqb a b = true <-> a = b.
Proof.
  intros [a1 a2] [b1 b2]. unfold key_eqb. cbn [fst snd]. rewrite andb_true_iff, Z.eqb_eq, String.eqb_eq.
  split; [intros [H1 H2]; congruence|intros H; inversion H; auto].
Qed.

Lemma in_opt_cm : forall d c x, In x (opt_cm d c) <-> d <> EmptyString /\ x = c.
Proof.
  intros d c x. unfold opt_cm. destruct (String.eqb d EmptyString) eqn:E.
  - apply String.eqb_eq in E. split; [intros []|intros [H _]; contradiction].
  - apply String.eqb_neq in E. cbn. split; [intros [H|[]]; auto|intros [_ H]; auto].
Qed.

(* membership in the exported comment list, by kind *)
Definition c_sig (m : message) (s : signal) : dcomment :=
  mkdcomment OSignal (s_desc s) EmptyString (u32 (m_canid m)) (clear (s_name s)).
Definition c_msg (m : message) : dcomment := mkdcomment OMessage (m_desc m) EmptyString (u32 (m_canid m)) EmptyString.
Definition c_node (n : node) : dcomment := mkdcomment ONode (n_desc n) (clear (n_name n)) 0 EmptyString.
Definition c_bus (b : bus) : dcomment := mkdcomment OGeneral (b_desc b) EmptyString 0 EmptyString.

Lemma in_msg_cms : forall m c, In c (msg_cms m) <->
  (m_desc m <> EmptyString /\ c = c_msg m) \/ (exists s, In s (m_signals m) /\ s_desc s <> EmptyString /\ c = c_sig m s).
Proof.
  intros m c. unfold msg_cms. rewrite in_app_iff, in_opt_cm, in_flat_map. unfold sig_cms.
  split; (intros [H|[s [Hs H]]]; [left; exact H|right; exists s; rewrite in_opt_cm in *; tauto]).
Qed.

Lemma in_node_cms_rest : forall b c, 
  flat_map (fun n => filter (fun m => String.eqb (m_sender m) (n_name n)) (b_messages b)) (b_nodes b) = b_messages b ->
  (In c (flat_map (node_cms b) (b_nodes b)) <->
   (exists n, In n (b_nodes b) /\ n_desc n <> EmptyString /\ c = c_node n) \/
   (exists m, In m (b_messages b) /\ In c (msg_cms m))).
Proof.
  intros b c Hg. rewrite in_flat_map. unfold node_cms. split.
  - intros [n [Hn H]]. rewrite in_app_iff, in_opt_cm, in_flat_map in H. destruct H as [[H1 H2]|[m [Hm H]]].
    + left. exists n. auto.
    + right. exists m. apply filter_In in Hm. tauto.
  - intros [[n [Hn [H1 H2]]]|[m [Hm H]]].
    + exists n. split; [assumption|]. rewrite in_app_iff, in_opt_cm. left. auto.
    + rewrite <- Hg in Hm. apply in_flat_map in Hm. destruct Hm as [n [Hn Hm]].
      exists n. split; [assumption|]. rewrite in_app_iff, in_flat_map. right. exists m. auto.
Qed.

Lemma gdesc_none : forall l a, (forall c, In c l -> cm_kind c <> OGeneral) -> gdesc l a = a.
Proof.
  induction l as [|c r IH]; intros a H; [reflexivity|]. unfold gdesc in *. cbn [fold_left].
  destruct (cm_kind c) eqn:E; try (apply IH; intros; apply H; right; assumption).
  exfalso. apply (H c (or_introl eq_refl)). assumption.
Qed.

(* what the comment (and value-table) maps need of a bus: the keys the exporter writes are unique *)
Definition keyed_bus (b : bus) : Prop :=
  flat_map (fun n => filter (fun m => String.eqb (m_sender m) (n_name n)) (b_messages b)) (b_nodes b) = b_messages b /\
  NoDup (map (fun n => clear (n_name n)) (b_nodes b)) /\
  NoDup (map m_canid (b_messages b)) /\
  (forall m, In m (b_messages b) -> 0 <= m_canid m < 2 ^ 32 /\ NoDup (map (fun s => clear (s_name s)) (m_signals m))).

Lemma plain_keyed : forall b, plain_bus b -> keyed_bus b.
Proof.
  intros b [_ [_ [Hnd [_ [_ [Hms [Hcan [_ Hg]]]]]]]]. repeat split; try assumption;
    rewrite Forall_forall in Hms; destruct (Hms m H) as [_ [_ [_ [_ [_ [Hid [_ [_ [_ [Hnn _]]]]]]]]]]; solve [lia|assumption].
Qed.

Section CommentsOfPlain.
  Variable b : bus.
  Hypothesis Hkb : keyed_bus b.

  Let Hg : flat_map (fun n => filter (fun m => String.eqb (m_sender m) (n_name n)) (b_messages b)) (b_nodes b) = b_messages b.
  Proof. destruct Hkb as [H _]. exact H. Qed.

  Lemma rest_kinds : forall c, In c (flat_map (node_cms b) (b_nodes b)) -> cm_kind c <> OGeneral.
  Proof.
    intros c H. apply (in_node_cms_rest b c Hg) in H. destruct H as [[n [_ [_ H]]]|[m [_ H]]].
    - subst. discriminate.
    - apply in_msg_cms in H. destruct H as [[_ H]|[s [_ [_ H]]]]; subst; discriminate.
  Qed.

  Lemma gdesc_doc : gdesc (doc_cms b) EmptyString = b_desc b.
  Proof.
    unfold doc_cms, gdesc. rewrite fold_left_app. fold (gdesc (flat_map (node_cms b) (b_nodes b))).
    rewrite gdesc_none by apply rest_kinds.
    unfold opt_cm. destruct (String.eqb (b_desc b) EmptyString) eqn:E; cbn; [apply String.eqb_eq in E; congruence|reflexivity].
  Qed.

  Lemma in_doc_cms : forall c, In c (doc_cms b) <->
    (b_desc b <> EmptyString /\ c = c_bus b) \/
    (exists n, In n (b_nodes b) /\ n_desc n <> EmptyString /\ c = c_node n) \/
    (exists m, In m (b_messages b) /\ In c (msg_cms m)).
  Proof.
    intros c. unfold doc_cms. rewrite in_app_iff, in_opt_cm, (in_node_cms_rest b c Hg). reflexivity.
  Qed.

  Lemma NoDup_map_inj : forall {A B} (f : A -> B) l x y, NoDup (map f l) -> In x l -> In y l -> f x = f y -> x = y.
  Proof.
    intros A B f l. induction l as [|a r IH]; intros x y Hnd Hx Hy Hf; [destruct Hx|].
    cbn in Hnd. inversion Hnd as [|? ? Hn Hr]; subst.
    destruct Hx as [Hx|Hx], Hy as [Hy|Hy]; subst; auto.
    - exfalso. apply Hn. rewrite Hf. apply in_map. assumption.
    - exfalso. apply Hn. rewrite <- Hf. apply in_map. assumption.
  Qed.

  Lemma node_desc_ok : forall n, In n (b_nodes b) ->
    desc_of String.eqb (clear (n_name n)) (rev (npairs (doc_cms b))) = n_desc n.
  Proof.
    intros n Hn. destruct Hkb as [_ [Hnd _]].
    apply (desc_of_spec String.eqb String.eqb_eq).
    - intros v Hv. apply in_rev in Hv. apply in_pairs_n in Hv. destruct Hv as [c [Hc [Hk [H1 H2]]]].
      apply in_doc_cms in Hc. destruct Hc as [[_ Hc]|[[n' [Hn' [_ Hc]]]|[m [_ Hc]]]].
      + subst c. discriminate.
      + subst c. cbn in H1, H2. subst v. f_equal.
        symmetry. apply (NoDup_map_inj (fun n => clear (n_name n)) (b_nodes b)); auto.
      + apply in_msg_cms in Hc. destruct Hc as [[_ Hc]|[s [_ [_ Hc]]]]; subst c; discriminate.
    - intros Hd. apply -> in_rev. apply in_pairs_n. exists (c_node n). split; [|cbn; auto].
      apply in_doc_cms. right. left. exists n. auto.
  Qed.

  Lemma canid_u32 : forall m, In m (b_messages b) -> u32 (m_canid m) = m_canid m.
  Proof.
    intros m Hm. destruct Hkb as [_ [_ [_ Hms]]].
    destruct (Hms m Hm) as [Hid _]. apply u32_id. assumption.
  Qed.

  Lemma msg_desc_ok : forall m, In m (b_messages b) ->
    desc_of Z.eqb (u32 (m_canid m)) (rev (mpairs (doc_cms b))) = m_desc m.
  Proof.
    intros m Hm. pose proof Hkb as [_ [_ [Hcan _]]].
    apply (desc_of_spec Z.eqb Z.eqb_eq).
    - intros v Hv. apply in_rev in Hv. apply in_pairs_m in Hv. destruct Hv as [c [Hc [Hk [H1 H2]]]].
      apply in_doc_cms in Hc. destruct Hc as [[_ Hc]|[[n' [Hn' [_ Hc]]]|[m' [Hm' Hc]]]].
      + subst c. discriminate.
      + subst c. discriminate.
      + apply in_msg_cms in Hc. destruct Hc as [[_ Hc]|[s [_ [_ Hc]]]]; subst c; [|discriminate].
        cbn in H1, H2. subst v. f_equal. symmetry.
        apply (NoDup_map_inj m_canid (b_messages b)); auto. rewrite <- (canid_u32 m), <- (canid_u32 m') by assumption. auto.
    - intros Hd. apply -> in_rev. apply in_pairs_m. exists (c_msg m). split; [|cbn; auto].
      apply in_doc_cms. right. right. exists m. split; [assumption|]. apply in_msg_cms. left. auto.
  Qed.

  Lemma sig_desc_ok : forall m s, In m (b_messages b) -> In s (m_signals m) ->
    desc_of key_eqb (u32 (m_canid m), clear (s_name s)) (rev (spairs (doc_cms b))) = s_desc s.
  Proof.
    intros m s Hm Hs. pose proof Hkb as [_ [_ [Hcan Hms]]].
    apply (desc_of_spec key_eqb key_eqb_eq).
    - intros v Hv. apply in_rev in Hv. apply in_pairs_s in Hv. destruct Hv as [c [Hc [Hk [H1 H2]]]].
      apply in_doc_cms in Hc. destruct Hc as [[_ Hc]|[[n' [Hn' [_ Hc]]]|[m' [Hm' Hc]]]].
      + subst c. discriminate.
      + subst c. discriminate.
      + apply in_msg_cms in Hc. destruct Hc as [[_ Hc]|[s' [Hs' [_ Hc]]]]; subst c; [discriminate|].
        cbn in H1, H2. subst v. inversion H1 as [[E1 E2]].
        assert (m' = m).
        { apply (NoDup_map_inj m_canid (b_messages b)); auto. rewrite <- (canid_u32 m), <- (canid_u32 m') by assumption. auto. }
        subst m'. f_equal.
        destruct (Hms m Hm) as [_ Hnn].
        apply (NoDup_map_inj (fun s => clear (s_name s)) (m_signals m)); auto.
    - intros Hd. apply -> in_rev. apply in_pairs_s. exists (c_sig m s). split; [|cbn; auto].
      apply in_doc_cms. right. right. exists m. split; [assumption|]. apply in_msg_cms. right. exists s. auto.
  Qed.
End CommentsOfPlain.
(* ---------------- what the importer makes of that document ---------------- *)
Notation cname := (fun n : node => clear (n_name n)).
Fixpoint mk_nodes (i : Z) (nodes : list node) : list node :=
  match nodes with [] => [] | n :: r => mknode (clear (n_name n)) i (n_desc n) [] :: mk_nodes (i + 1) r end.

Lemma not_in_mem_str : forall s l, ~ In s l -> mem_str s l = false.
Proof.
  intros s l H. unfold mem_str. destruct (existsb (String.eqb s) l) eqn:E; [|reflexivity].
  apply existsb_exists in E. destruct E as [x [Hx He]]. apply String.eqb_eq in He. subst. contradiction.
Qed.
Lemma not_in_mem_z : forall z l, ~ In z l -> mem_z z l = false.
Proof.
  intros z l H. unfold mem_z. destruct (existsb (Z.eqb z) l) eqn:E; [|reflexivity].
  apply existsb_exists in E. destruct E as [x [Hx He]]. apply Z.eqb_eq in He. subst. contradiction.
Qed.

Lemma import_nodes_aux_ok : forall nd names idx acc,
  NoDup (map n_name acc ++ map cname names) -> ~ In dummy_node (map cname names) -> (forall n, In n acc -> n_id n < idx) ->
  (forall n, In n names -> desc_of String.eqb (clear (n_name n)) nd = n_desc n) ->
  import_nodes_aux nd (map cname names) idx acc = Ok (acc ++ mk_nodes idx names).
Proof.
  intros nd. induction names as [|n0 r IH]; intros idx acc Hnd Hdm Hid Hds; cbn [import_nodes_aux mk_nodes map].
  - rewrite app_nil_r. reflexivity.
  - cbn [map] in Hnd, Hdm. pose proof (Hds n0 (or_introl eq_refl)) as Hd0. unfold desc_of in Hd0.
    remember (clear (n_name n0)) as nm eqn:Enm.
    assert (Hne : String.eqb nm dummy_node = false).
    { destruct (String.eqb nm dummy_node) eqn:E; [|reflexivity]. apply String.eqb_eq in E. exfalso. apply Hdm. left. assumption. }
    rewrite Hne.
    assert (Hnot : ~ In nm (map n_name acc)).
    { apply NoDup_remove_2 in Hnd. intros Hin. apply Hnd. apply in_or_app. left. assumption. }
    rewrite (not_in_mem_str _ _ Hnot).
    rewrite not_in_mem_z.
    2:{ intros Hin. apply in_map_iff in Hin. destruct Hin as [n [Hn1 Hn2]]. specialize (Hid n Hn2). lia. }
    rewrite Hd0.
    rewrite IH.
    + rewrite <- app_assoc. reflexivity.
    + rewrite map_app. cbn [map n_name]. rewrite <- app_assoc. exact Hnd.
    + intros H. apply Hdm. right. assumption.
    + intros n Hn. apply in_app_or in Hn. destruct Hn as [Hn|[Hn|[]]]; [specialize (Hid n Hn); lia|subst; cbn; lia].
    + intros n Hn. apply Hds. right. assumption.
Qed.

Lemma mk_nodes_ids : forall names i n, In n (mk_nodes i names) -> i <= n_id n < i + Z.of_nat (length names).
Proof.
  induction names as [|nm r IH]; intros i n H; [destruct H|].
  cbn [mk_nodes length] in *. rewrite Nat2Z.inj_succ. destruct H as [H|H]; [subst; cbn; lia|].
  apply IH in H. lia.
Qed.
Lemma mk_nodes_names : forall names i, map n_name (mk_nodes i names) = map cname names.
Proof. induction names as [|nm r IH]; intros i; cbn; [reflexivity|]. rewrite IH. reflexivity. Qed.

Lemma import_nodes_ok : forall nd names,
  NoDup (map cname names) -> ~ In dummy_node (map cname names) -> (length names <= 1024)%nat ->
  (forall n, In n names -> desc_of String.eqb (clear (n_name n)) nd = n_desc n) ->
  import_nodes nd (map cname names) = Ok (mk_nodes 0 names ++ [mknode dummy_node 1024 EmptyString []]).
Proof.
  intros nd names Hnd Hdm Hlen Hds. unfold import_nodes.
  rewrite (import_nodes_aux_ok nd names 0 []); [|assumption|assumption|intros n []|assumption].
  cbn [bind app]. rewrite not_in_mem_z; [reflexivity|].
  intros Hin. apply in_map_iff in Hin. destruct Hin as [n [Hn1 Hn2]]. apply mk_nodes_ids in Hn2. lia.
Qed.

(* ---- signals ---- *)
Definition penv (nd : list (string * string)) (md : list (Z * string)) (sd : list (key * string)) : ienv :=
  mkienv nd md sd [] [].

Definition isig_of (id : Z) (s : signal) : signal :=
  mksignal id (clear (s_name s)) KStandard (s_rel s) None [] (s_size s) (s_signed s)
           (s_scale s) (s_offset s) (s_min s) (s_max s) (s_unit s) 0 0 0 (s_desc s) fl_zero 0 [].

Lemma dsig_start : forall o recs s, 0 <= s_rel s < 2 ^ 31 -> get_start_bit (dsig_of o recs s) = s_rel s.
Proof.
  intros o recs s H. unfold get_start_bit, dsig_of, dbc_start_bit. cbn [ds_order ds_start].
  destruct o.
  - apply u32_id. lia.
  - rewrite u32_id by lia.
    destruct (Proofs.start_bit_inverse BigEndian (s_rel s) ltac:(lia)) as [H1 _].
    unfold pos_of_dbc, dbc_of_pos in H1. exact H1.
Qed.

Lemma import_signal_plain : forall nd md sd st mpos msgid id o recs s,
  plain_signal s -> desc_of key_eqb (msgid, clear (s_name s)) sd = s_desc s ->
  exists st', import_signal (penv nd md sd) st mpos msgid id (dsig_of o recs s)
              = Ok (place (isig_of id s) 0 None [], st') /\ is_enums st' = is_enums st.
Proof.
  intros nd md sd st mpos msgid id o recs s [Hk [Hp [Hg [Hv [Ht [Ha [Hs Hr]]]]]]] Hd.
  unfold import_signal, penv. cbn [ie_sig_enums ie_sig_desc lookup].
  unfold import_standard. cbn [dsig_of ds_size ds_name ds_signed ds_factor ds_offset ds_min ds_max ds_unit].
  rewrite u32_id by lia. replace (s_size s <=? 0) with false by lia.
  cbn [bind]. unfold desc_of in Hd.
  destruct (lookup key_eqb (msgid, clear (s_name s)) sd) as [d|];
    (eexists; split; [unfold isig_of; rewrite <- Hd; reflexivity|reflexivity]).
Qed.

Definition all_top (l : list signal) : Prop :=
  forall d, In d l -> s_parent d = None /\ s_kind d = KStandard.

Lemma verify_insert_ok : forall limit done size start,
  all_top done -> 0 <= start -> 0 < size -> start + size <= limit ->
  (forall d, In d done -> s_rel d + s_size d <= start) ->
  verify_insert [] limit done size start = Ok tt.
Proof.
  intros limit done size start Ht H0 Hs Hl Hd. unfold verify_insert.
  replace (start <? 0) with false by lia. replace (size >? limit) with false by lia.
  replace (start + size >? limit) with false by lia.
  replace (existsb _ done) with false; [reflexivity|].
  symmetry. destruct (existsb _ done) eqn:E; [|reflexivity].
  apply existsb_exists in E. destruct E as [d [Hin Ho]]. unfold overlaps in Ho.
  destruct (Ht d Hin) as [_ Hk]. unfold sig_size in Ho. rewrite Hk in Ho. specialize (Hd d Hin). lia.
Qed.

Lemma msg_insert_ok : forall msize done s start,
  all_top done -> ~ In (s_name s) (map s_name done) -> s_kind s = KStandard ->
  0 <= start -> 0 < s_size s -> start + s_size s <= msize * 8 ->
  (forall d, In d done -> s_rel d + s_size d <= start) ->
  msg_insert [] msize done (s, []) start = Ok (done ++ [place s start None []]).
Proof.
  intros msize done s start Ht Hfresh Hk H0 Hs Hl Hd. unfold msg_insert.
  rewrite (not_in_mem_str _ _ Hfresh). cbn [existsb map length dedup_str mem_str negb Nat.eqb].
  assert (Hfil : filter (fun x => match s_parent x with None => true | Some _ => false end) done = done).
  { apply filter_all. intros d Hin. destruct (Ht d Hin) as [Hpp _]. rewrite Hpp. reflexivity. }
  rewrite Hfil. unfold sig_size at 1. rewrite Hk.
  rewrite verify_insert_ok by assumption. reflexivity.
Qed.

Lemma plain_import_fold : forall nd md sd mpos msgid msize o recs l i st done from,
  (forall s, In s l -> desc_of key_eqb (msgid, clear (s_name s)) sd = s_desc s) ->
  Forall plain_signal l -> layout_ok from (msize * 8) l -> 0 <= from -> msize <= 8 ->
  is_enums st = [] -> all_top done ->
  (forall d, In d done -> s_rel d + s_size d <= from) ->
  NoDup (map s_name done ++ map (fun s => clear (s_name s)) l) ->
  exists st',
  fold_left (fun acc (p : Z * dsignal) => let '(id, ds) := p in
      do (st0, sg) <- acc;
      do (s, st1) <- import_signal (penv nd md sd) st0 mpos msgid id ds;
      (let '(st2, sg2) := (st1, sg) in
       do sg' <- msg_insert (is_enums st2) msize sg2 (s, []) (get_start_bit ds); Ok (st2, sg')))
    (index_from i (map (dsig_of o recs) l)) (Ok (st, done))
  = Ok (st', done ++ map (fun p => isig_of (fst p) (snd p)) (index_from i l)) /\ is_enums st' = [].
Proof.
  intros nd md sd mpos msgid msize o recs l. induction l as [|s r IH]; intros i st done from Hds Hp Hl H0 Hm He Ht Hd Hn.
  - cbn. exists st. rewrite app_nil_r. auto.
  - inversion Hp as [|? ? Hps Hpr]; subst. cbn [layout_ok] in Hl. destruct Hl as [L1 [L2 L3]].
    pose proof Hps as [Hk [Hpa [Hg [Hv [Hty [Ha [Hs Hr]]]]]]].
    cbn [map index_from fold_left bind].
    destruct (import_signal_plain nd md sd st mpos msgid i o recs s Hps (Hds s (or_introl eq_refl))) as [st1 [E1 E2]].
    rewrite E1. cbn [bind]. rewrite E2, He.
    rewrite dsig_start by lia.
    assert (Hfresh : ~ In (s_name (place (isig_of i s) 0 None [])) (map s_name done)).
    { cbn [map] in Hn. apply NoDup_remove_2 in Hn. intros Hin. apply Hn. apply in_or_app. left. exact Hin. }
    rewrite msg_insert_ok; try assumption; try reflexivity; try (cbn [s_size place isig_of]; lia);
      try (intros d Hin; specialize (Hd d Hin); lia).
    cbn [bind app].
    destruct (IH (i + 1) st1 (done ++ [isig_of i s]) (s_rel s + s_size s)) as [st' [F1 F2]]; try assumption; try lia.
    + intros s' Hs'. apply Hds. right. assumption.
    + rewrite E2. assumption.
    + intros d Hin. apply in_app_or in Hin. destruct Hin as [Hin|[Hin|[]]]; [apply Ht; assumption|subst; cbn; auto].
    + intros d Hin. apply in_app_or in Hin. destruct Hin as [Hin|[Hin|[]]]; [specialize (Hd d Hin); lia|subst; cbn; lia].
    + rewrite map_app. cbn [map s_name isig_of]. rewrite <- app_assoc. exact Hn.
    + exists st'. split; [|assumption]. 
      replace (place (place (isig_of i s) 0 None []) (s_rel s) None []) with (isig_of i s) by reflexivity.
      rewrite F1. rewrite <- app_assoc. reflexivity.
Qed.

(* ---- messages ---- *)
Definition recs_in (m : message) : list string :=
  match m_signals m with [] => [] | _ => map clear (sort_by str_ltb (m_receivers m)) end.

Definition imsg_of (m : message) : message :=
  mkmessage (m_canid m) (clear (m_name m)) (m_size m)
            (match m_signals m with [] => LittleEndian | _ => m_order m end) 0 0 0 0
            (clear (m_sender m)) (recs_in m) (m_desc m) []
            (map (fun p => isig_of (fst p) (snd p)) (index_from 0 (m_signals m))).

Lemma dedup_all_seen : forall l seen, (forall x, In x l -> In x seen) -> dedup_str seen l = [].
Proof.
  induction l as [|x r IH]; intros seen H; cbn; [reflexivity|].
  assert (Hx : mem_str x seen = true).
  { unfold mem_str. apply existsb_exists. exists x. split; [apply H; left; reflexivity|apply String.eqb_refl]. }
  rewrite Hx. apply IH. intros y Hy. apply H. right. assumption.
Qed.

Lemma dedup_app_fresh : forall l seen rest, NoDup l -> (forall x, In x l -> ~ In x seen) ->
  dedup_str seen (l ++ rest) = l ++ dedup_str (rev l ++ seen) rest.
Proof.
  induction l as [|x r IH]; intros seen rest Hnd Hs; cbn [app rev dedup_str]; [reflexivity|].
  inversion Hnd; subst. rewrite (not_in_mem_str x seen) by (apply Hs; left; reflexivity).
  rewrite IH; [|assumption|].
  - rewrite <- app_assoc. reflexivity.
  - intros y Hy [Hy'|Hy']; [subst; contradiction|]. apply (Hs y); [right; assumption|assumption].
Qed.

Lemma dedup_copies : forall (l : list string) (ds : list dsignal) d,
  NoDup l -> (forall x, In x (d :: ds) -> ds_receivers x = l) ->
  dedup_str [] (flat_map ds_receivers (d :: ds)) = l.
Proof.
  intros l ds d Hnd Hall. cbn [flat_map]. rewrite (Hall d (or_introl eq_refl)).
  rewrite dedup_app_fresh; [|assumption|intros x _ []].
  rewrite dedup_all_seen; [apply app_nil_r|].
  intros x Hx. apply in_flat_map in Hx. destruct Hx as [y [Hy Hx]].
  rewrite (Hall y (or_intror Hy)) in Hx. apply in_or_app. left. apply in_rev in Hx. exact Hx.
Qed.

Lemma In_sort_str : forall x l, In x (sort_by str_ltb l) <-> In x l.
Proof. intros x l. apply Proofs.In_sort_by. Qed.

Lemma sorted_dsigs : forall o recs l from limit, Forall plain_signal l -> layout_ok from limit l -> 0 <= from -> limit <= 64 ->
  sort_by (fun a b => get_start_bit a <? get_start_bit b) (map (dsig_of o recs) l) = map (dsig_of o recs) l.
Proof.
  intros o recs l from limit Hp Hl H0 Hlim. apply (sort_by_ascending get_start_bit).
  revert from Hl H0. induction l as [|s r IH]; intros from Hl H0; [exact I|].
  inversion Hp as [|? ? Hps Hpr]; subst. cbn [layout_ok] in Hl. destruct Hl as [L1 [L2 L3]].
  destruct Hps as [_ [_ [_ [_ [_ [_ [Hs Hr]]]]]]].
  cbn [map ascending_by]. split; [|apply (IH Hpr (s_rel s + s_size s)); [assumption|lia]].
  destruct r as [|y q]; [exact I|]. cbn [map].
  inversion Hpr as [|? ? Hpy _]; subst. destruct Hpy as [_ [_ [_ [_ [_ [_ [Hsy Hry]]]]]]].
  cbn [layout_ok] in L3. destruct L3 as [M1 [M2 _]].
  rewrite !dsig_start by lia. lia.
Qed.

Lemma import_message_signals_plain_ok : forall nd md sd st mpos m names,
  plain_message names m -> is_enums st = [] ->
  (forall s, In s (m_signals m) -> desc_of key_eqb (u32 (m_canid m), clear (s_name s)) sd = s_desc s) ->
  exists st', import_message_signals (penv nd md sd) st mpos (dmsg_of m)
              = Ok (st', map (fun p => isig_of (fst p) (snd p)) (index_from 0 (m_signals m))) /\ is_enums st' = [].
Proof.
  intros nd md sd st mpos m names [Ha [Hc [Hdl [Hsd [Hst [Hid [Hsz [Hps [Hlay [Hnn _]]]]]]]]]] He Hds.
  unfold import_message_signals. cbn [dm_signals dm_id dm_size dmsg_of].
  rewrite (sorted_dsigs _ _ _ 0 (m_size m * 8)) by (try assumption; lia).
  rewrite Proofs.filter_nil.
  2:{ intros [i ds] Hin. cbn [snd].
      assert (Hdin : In ds (map (dsig_of (m_order m) (recs_out m)) (m_signals m))).
      { rewrite <- (Proofs.index_from_snd (map (dsig_of (m_order m) (recs_out m)) (m_signals m)) 0).
        apply in_map_iff. exists (i, ds). auto. }
      apply in_map_iff in Hdin. destruct Hdin as [s [Hs0 _]]. subst ds. reflexivity. }
  assert (Hnomuxed : existsb (fun p : Z * dsignal => ds_muxed (snd p))
                            (index_from 0 (map (dsig_of (m_order m) (recs_out m)) (m_signals m))) = false).
  { destruct (existsb _ _) eqn:E; [|reflexivity]. apply existsb_exists in E. destruct E as [[i ds] [Hin Hmd]]. cbn [snd] in Hmd.
    assert (Hdin : In ds (map (dsig_of (m_order m) (recs_out m)) (m_signals m))).
    { rewrite <- (Proofs.index_from_snd (map (dsig_of (m_order m) (recs_out m)) (m_signals m)) 0).
      apply in_map_iff. exists (i, ds). auto. }
    apply in_map_iff in Hdin. destruct Hdin as [s [Hs0 _]]. subst ds. discriminate Hmd. }
  rewrite Hnomuxed.
  rewrite (u32_id (m_size m)) by lia.
  destruct (plain_import_fold nd md sd mpos (u32 (m_canid m)) (m_size m) (m_order m) (recs_out m) (m_signals m) 0 st [] 0)
    as [st' [F1 F2]]; try assumption; try lia.
  - intros d [].
  - intros d [].
  - exists st'. split; [|assumption]. cbn [app] in F1. exact F1.
Qed.

Lemma import_message_plain : forall nd md sd raw_names nodes st done m,
  plain_message raw_names m -> is_enums st = [] ->
  desc_of Z.eqb (u32 (m_canid m)) md = m_desc m ->
  (forall s, In s (m_signals m) -> desc_of key_eqb (u32 (m_canid m), clear (s_name s)) sd = s_desc s) ->
  (forall r, In r raw_names -> In (clear r) (map n_name nodes)) ->
  (forall r, In r raw_names -> clear r <> dummy_node) ->
  ~ In (m_canid m) (map m_canid done) ->
  ~ In (clear (m_sender m), clear (m_name m)) (map (fun x => (m_sender x, m_name x)) done) ->
  exists st', import_message (penv nd md sd) (st, done) nodes (dmsg_of m) = Ok (st', done ++ [imsg_of m]) /\ is_enums st' = [].
Proof.
  intros nd md sd raw_names nodes st done m Hpm He Hmd Hsds Hnodes Hnd Hcan Hpair.
  pose proof Hpm as [Ha [Hc [Hdl [Hsd [Hst [Hid [Hsz [Hps [Hlay [Hnn [Hsn [Hrc [Hrn Hre]]]]]]]]]]]]].
  destruct (import_message_signals_plain_ok nd md sd st (length done) m raw_names Hpm He Hsds) as [st' [Hsig He']].
  exists st'. split; [|assumption].
  unfold import_message. cbv zeta.
  cbn [dm_signals dm_id dm_size dm_tx dm_name dmsg_of ie_msg_desc penv].
  unfold desc_of in Hmd. rewrite Hmd.
  rewrite (sorted_dsigs _ _ _ 0 (m_size m * 8)) by (try assumption; lia).
  (* byte order *)
  assert (Hord : match map (dsig_of (m_order m) (recs_out m)) (m_signals m) with
                 | [] => LittleEndian | s :: _ => ds_order s end
                 = match m_signals m with [] => LittleEndian | _ => m_order m end).
  { destruct (m_signals m); reflexivity. }
  rewrite Hord.
  assert (Hfo : forallb (fun s => bo_eqb (ds_order s) (match m_signals m with [] => LittleEndian | _ => m_order m end))
                        (map (dsig_of (m_order m) (recs_out m)) (m_signals m)) = true).
  { apply forallb_forall. intros ds Hin. apply in_map_iff in Hin. destruct Hin as [s [Hs Hin]]. subst ds.
    destruct (m_signals m); [destruct Hin|]. cbn. destruct (m_order m); reflexivity. }
  rewrite Hfo. cbn [negb].
  (* receivers *)
  assert (Hrecs : filter (fun r => negb (String.eqb r dummy_node))
                         (dedup_str [] (flat_map ds_receivers (map (dsig_of (m_order m) (recs_out m)) (m_signals m))))
                  = recs_in m).
  { unfold recs_in. destruct (m_signals m) as [|s0 sr] eqn:Es; [reflexivity|].
    cbn [map]. rewrite (dedup_copies (recs_out m)).
    - unfold recs_out. destruct (m_receivers m) as [|r0 rr] eqn:Er; [reflexivity|].
      apply filter_all. intros x Hx. apply in_map_iff in Hx. destruct Hx as [y [Hy Hin]]. subst x.
      rewrite In_sort_str in Hin.
      destruct (String.eqb (clear y) dummy_node) eqn:E; [|reflexivity].
      apply String.eqb_eq in E. exfalso. apply (Hnd y); [apply Hrc; assumption|assumption].
    - unfold recs_out. destruct (m_receivers m) as [|r0 rr] eqn:Er; [constructor; [intros []|constructor]|].
      eapply Permutation_NoDup; [|exact Hrn]. apply Permutation_map. apply sort_by_perm.
    - intros x Hx. destruct Hx as [Hx|Hx]; [subst; reflexivity|].
      apply in_map_iff in Hx. destruct Hx as [y [Hy _]]. subst. reflexivity. }
  rewrite Hrecs.
  assert (Hrin : forallb (fun r => mem_str r (map n_name nodes)) (recs_in m) = true).
  { apply forallb_forall. intros x Hx. unfold recs_in in Hx. destruct (m_signals m); [destruct Hx|].
    apply in_map_iff in Hx. destruct Hx as [y [Hy Hin]]. subst x. rewrite In_sort_str in Hin.
    unfold mem_str. apply existsb_exists. exists (clear y). split; [apply Hnodes, Hrc; assumption|apply String.eqb_refl]. }
  rewrite Hrin. cbn [negb].
  assert (Htx : mem_str (clear (m_sender m)) (map n_name nodes) = true).
  { unfold mem_str. apply existsb_exists. exists (clear (m_sender m)). split; [apply Hnodes; assumption|apply String.eqb_refl]. }
  rewrite Htx. cbn [negb].
  assert (Hname : mem_str (clear (m_name m))
                    (map m_name (filter (fun x => String.eqb (m_sender x) (clear (m_sender m))) done)) = false).
  { apply not_in_mem_str. intros Hin. apply in_map_iff in Hin. destruct Hin as [x [Hx Hin]].
    apply filter_In in Hin. destruct Hin as [Hin Hs]. apply String.eqb_eq in Hs.
    apply Hpair. apply in_map_iff. exists x. split; [rewrite Hs, Hx; reflexivity|assumption]. }
  rewrite Hname.
  rewrite (u32_id (m_size m)) by lia. replace (m_size m >? 8) with false by lia.
  rewrite (u32_id (m_canid m)) by lia. rewrite (not_in_mem_z _ _ Hcan).
  rewrite Hsig. cbn [bind]. reflexivity.
Qed.

Lemma import_messages_plain : forall nd md sd raw_names nodes l st done,
  Forall (plain_message raw_names) l -> is_enums st = [] ->
  (forall m, In m l -> desc_of Z.eqb (u32 (m_canid m)) md = m_desc m) ->
  (forall m s, In m l -> In s (m_signals m) -> desc_of key_eqb (u32 (m_canid m), clear (s_name s)) sd = s_desc s) ->
  (forall r, In r raw_names -> In (clear r) (map n_name nodes)) ->
  (forall r, In r raw_names -> clear r <> dummy_node) ->
  NoDup (map m_canid done ++ map m_canid l) ->
  NoDup (map (fun x => (m_sender x, m_name x)) done ++ map (fun m => (clear (m_sender m), clear (m_name m))) l) ->
  exists st',
    fold_left (fun acc dm => do a <- acc; import_message (penv nd md sd) a nodes dm) (map dmsg_of l) (Ok (st, done))
    = Ok (st', done ++ map imsg_of l) /\ is_enums st' = [].
Proof.
  intros nd md sd raw_names nodes l. induction l as [|m r IH]; intros st done Hp He Hmds Hsds Hn Hd Hc Hq.
  - cbn. exists st. rewrite app_nil_r. auto.
  - inversion Hp as [|? ? Hpm Hpr]; subst. cbn [map fold_left bind].
    destruct (import_message_plain nd md sd raw_names nodes st done m Hpm He (Hmds m (or_introl eq_refl))
                (fun s Hs => Hsds m s (or_introl eq_refl) Hs) Hn Hd) as [st1 [E1 E2]].
    + cbn [map] in Hc. apply NoDup_remove_2 in Hc. intros Hin. apply Hc. apply in_or_app. left. assumption.
    + cbn [map] in Hq. apply NoDup_remove_2 in Hq. intros Hin. apply Hq. apply in_or_app. left. assumption.
    + rewrite E1. destruct (IH st1 (done ++ [imsg_of m])) as [st' [F1 F2]]; try assumption.
      * intros m' Hm'. apply Hmds. right. assumption.
      * intros m' s' Hm' Hs'. apply Hsds; [right|]; assumption.
      * rewrite map_app. cbn [map m_canid imsg_of]. rewrite <- app_assoc. exact Hc.
      * rewrite map_app. cbn [map m_sender m_name imsg_of]. rewrite <- app_assoc. exact Hq.
      * exists st'. split; [|assumption]. rewrite F1, <- app_assoc. reflexivity.
Qed.

Definition imported (b : bus) : bus :=
  mkbus (b_name b) (b_desc b) [] (mk_nodes 0 (b_nodes b)) []
        (map imsg_of (b_messages b)).

Lemma mk_nodes_not_dummy : forall names i, ~ In dummy_node (map cname names) ->
  filter (fun n => negb (String.eqb (n_name n) dummy_node)) (mk_nodes i names) = mk_nodes i names.
Proof.
  intros names i H. apply filter_all. intros n Hn.
  assert (Hin : In (n_name n) (map cname names)) by (rewrite <- (mk_nodes_names names i); apply in_map; assumption).
  destruct (String.eqb (n_name n) dummy_node) eqn:E; [|reflexivity].
  apply String.eqb_eq in E. rewrite E in Hin. contradiction.
Qed.

Lemma export_import_plain : forall b, plain_bus b -> export_import b = Ok (imported b).
Proof.
  intros b Hpb. pose proof Hpb as [Ha [Hn [Hnn [Hdm [Hlen [Hm [Hcan [Hpair Hg]]]]]]]].
  unfold export_import. rewrite (export_plain b Hpb).
  unfold text_roundtrip, plain_doc. cbn [d_filename d_nodes d_valtables d_messages d_comments d_attrs d_attrdefs d_attrvals d_valencs d_extmuxes map].
  unfold import. cbn [d_filename d_nodes d_valtables d_messages d_comments d_attrs d_attrdefs d_attrvals d_valencs d_extmuxes].
  rewrite import_comments_spec, (gdesc_doc b (plain_keyed b Hpb)).
  cbn [fold_left bind length fst snd import_ext_muxes].
  rewrite import_nodes_ok; [|assumption|assumption|assumption|intros n Hin; apply (node_desc_ok b (plain_keyed b Hpb)); assumption].
  cbn [bind].
  set (nd := rev (npairs (doc_cms b))). set (md := rev (mpairs (doc_cms b))). set (sd := rev (spairs (doc_cms b))).
  change (mkienv nd md sd [] []) with (penv nd md sd).
  set (nodes' := mk_nodes 0 (b_nodes b) ++ [mknode dummy_node 1024 EmptyString []]).
  assert (Hnames' : map n_name nodes' = map (fun n => clear (n_name n)) (b_nodes b) ++ [dummy_node]).
  { unfold nodes'. rewrite map_app, mk_nodes_names. reflexivity. }
  destruct (import_messages_plain nd md sd (map n_name (b_nodes b)) nodes' (b_messages b) (mkistate [] [] []) []) as [st' [F1 F2]];
    try assumption; try reflexivity.
  - intros m Hin. apply (msg_desc_ok b (plain_keyed b Hpb)). assumption.
  - intros m s Hin Hs. apply (sig_desc_ok b (plain_keyed b Hpb)); assumption.
  - intros r Hr. rewrite Hnames'. apply in_or_app. left. apply in_map_iff in Hr. destruct Hr as [n [Hr Hin]]. subst r.
    apply in_map_iff. exists n. auto.
  - intros r Hr Heq. apply Hdm. apply in_map_iff in Hr. destruct Hr as [n [Hr Hin]]. subst r.
    rewrite <- Heq. apply in_map_iff. exists n. auto.
  - rewrite F1. cbn [bind app]. rewrite F2.
    unfold import_attributes. cbn [d_attrdefs d_attrs d_attrvals fold_left bind].
    cbn [b_messages b_nodes set_b_nodes].
    assert (Hnos : existsb (fun m => String.eqb (m_sender m) dummy_node) (map imsg_of (b_messages b)) = false).
    { destruct (existsb _ _) eqn:E; [|reflexivity]. apply existsb_exists in E. destruct E as [x [Hx He]].
      apply in_map_iff in Hx. destruct Hx as [m [Hx Hin]]. subst x. cbn [m_sender imsg_of] in He.
      apply String.eqb_eq in He. exfalso. apply Hdm.
      rewrite Forall_forall in Hm. destruct (Hm m Hin) as [_ [_ [_ [_ [_ [_ [_ [_ [_ [_ [Hs _]]]]]]]]]]].
      apply in_map_iff in Hs. destruct Hs as [n [Hs Hn']]. rewrite <- He, <- Hs. apply in_map_iff. exists n. auto. }
    rewrite Hnos. unfold imported, nodes'. rewrite filter_app, mk_nodes_not_dummy by assumption.
    cbn. rewrite app_nil_r. reflexivity.
Qed.

(* ---------------- the projections agree ---------------- *)
Lemma proj_signal_plain : forall es es' sigs sigs' id s, plain_signal s ->
  proj_signal es' sigs' (isig_of id s) = proj_signal es sigs s.
Proof.
  intros es es' sigs sigs' id s [Hk [Hp [Hg [Hv [Ht [Ha _]]]]]].
  unfold proj_signal, membership, sig_size.
  rewrite !abs_start_top by (try assumption; reflexivity).
  cbn [s_kind s_name s_rel s_parent s_groups s_size s_signed s_scale s_offset s_min s_max s_unit s_desc
       s_startval s_sendtype s_attrs isig_of].
  rewrite Hk, Hp, Hv, Ht, Ha, clear_spaces_idem. reflexivity.
Qed.

Lemma index_from_map : forall {A B} (f : Z -> A -> B) (g : A -> B) (l : list A) i,
  (forall j x, In x l -> f j x = g x) -> map (fun p => f (fst p) (snd p)) (index_from i l) = map g l.
Proof.
  intros A B f g l. induction l as [|x r IH]; intros i H; cbn; [reflexivity|].
  rewrite (H i x (or_introl eq_refl)). f_equal. apply IH. intros j y Hy. apply H. right. assumption.
Qed.

Lemma proj_message_plain : forall names es m, plain_message names m ->
  proj_message [] (imsg_of m) = proj_message es m.
Proof.
  intros names es m [Ha [Hc [Hdl [Hsd [Hst [Hid [Hsz [Hps [Hlay [Hnn [Hsn [Hrc [Hrn Hre]]]]]]]]]]]]].
  unfold proj_message.
  cbn [m_canid m_name m_size m_order m_cycle m_delay m_startdelay m_sendtype m_sender m_receivers m_desc m_attrs m_signals imsg_of].
  rewrite Ha, Hc, Hdl, Hsd, Hst, !clear_spaces_idem.
  assert (Hord : match map (fun p => isig_of (fst p) (snd p)) (index_from 0 (m_signals m)) with
                 | [] => LittleEndian
                 | _ :: _ => match m_signals m with [] => LittleEndian | _ :: _ => m_order m end
                 end = match m_signals m with [] => LittleEndian | _ :: _ => m_order m end).
  { destruct (m_signals m); reflexivity. }
  rewrite Hord.
  assert (Hrecs : sort_by str_ltb (map clear (recs_in m)) = sort_by str_ltb (map clear (m_receivers m))).
  { unfold recs_in. destruct (m_signals m) eqn:Es.
    - rewrite (Hre eq_refl). reflexivity.
    - rewrite map_map. rewrite (map_ext (fun x => clear (clear x)) clear) by (intros; apply clear_spaces_idem).
      apply sort_str_perm_eq. apply Permutation_map. apply Permutation_sym. apply sort_by_perm. }
  rewrite Hrecs.
  assert (Hsigs : map (proj_signal [] (map (fun p => isig_of (fst p) (snd p)) (index_from 0 (m_signals m))))
                      (map (fun p => isig_of (fst p) (snd p)) (index_from 0 (m_signals m)))
                  = map (proj_signal es (m_signals m)) (m_signals m)).
  { rewrite map_map.
    apply (index_from_map (fun i s => proj_signal [] (map (fun p => isig_of (fst p) (snd p)) (index_from 0 (m_signals m))) (isig_of i s))).
    intros j s Hs. apply proj_signal_plain. rewrite Forall_forall in Hps. apply Hps. assumption. }
  rewrite Hsigs. reflexivity.
Qed.

Lemma proj_imported : forall b, plain_bus b -> proj_bus (imported b) = proj_bus b.
Proof.
  intros b [Ha [Hn [Hnn [Hdm [Hlen [Hm [Hcan [Hpair Hg]]]]]]]].
  unfold proj_bus, imported. cbn [b_desc b_attrs b_nodes b_enums b_messages]. rewrite Ha.
  f_equal.
  - (* nodes *)
    assert (Hgen : forall nodes i, Forall (fun n => n_attrs n = []) nodes ->
              map proj_node (mk_nodes i nodes) = map proj_node nodes).
    { induction nodes as [|n r IH]; intros i Hf; cbn [map mk_nodes]; [reflexivity|].
      inversion Hf as [|? ? Hna Hr]; subst. rewrite IH by assumption. f_equal.
      unfold proj_node. cbn [n_name n_desc n_attrs]. rewrite Hna, clear_spaces_idem. reflexivity. }
    apply Hgen. assumption.
  - (* messages *)
    rewrite map_map. f_equal. apply map_ext_in. intros m Hin.
    rewrite Forall_forall in Hm. eapply proj_message_plain. apply Hm. assumption.
Qed.

(* ---------------- the theorem ---------------- *)
Theorem export_import_plain_thm : forall b, plain_bus b ->
  exists b', export_import b = Ok b' /\ proj_bus b' = proj_bus b.
Proof.
  intros b H. exists (imported b). split; [apply export_import_plain; assumption|apply proj_imported; assumption].
Qed.

(* ------------------------------------------------------------------------------------------
   FULL STATEMENT (not proved; the plain fragment above — standard signals, descriptions, no attributes,
   enums or multiplexers — and the component theorems of Proofs.v are).
   well_formed: the invariants C01/C04/C05/C07 give on a bus, as far as export/import depend on them.
   names_ok: the "DBC-expressible" proviso.
   ------------------------------------------------------------------------------------------ *)
Definition is_ident_char (c : ascii) : bool :=
  let n := nat_of_ascii c in
  ((65 <=? n) && (n <=? 90) || (97 <=? n) && (n <=? 122) || (48 <=? n) && (n <=? 57) || (n =? 95) || (n =? 45))%nat.
Definition is_letter (c : ascii) : bool :=
  let n := nat_of_ascii c in ((65 <=? n) && (n <=? 90) || (97 <=? n) && (n <=? 122))%nat.
Fixpoint all_chars (p : ascii -> bool) (s : string) : bool :=
  match s with EmptyString => true | String c r => p c && all_chars p r end.
Definition dbc_keywords : list string :=
  ["VERSION"; "NS_"; "BS_"; "BU_"; "VAL_TABLE_"; "BO_"; "SG_"; "BO_TX_BU_"; "EV_"; "ENVVAR_DATA_"; "SGTYPE_"; "CM_";
   "BA_DEF_"; "BA_DEF_DEF_"; "BA_"; "VAL_"; "SIG_GROUP_"; "SIG_VALTYPE_"; "SG_MUL_VAL_"; "INT"; "HEX"; "FLOAT"; "STRING"; "ENUM";
   "NS_DESC_"; "CAT_DEF_"; "CAT_"; "FILTER"; "EV_DATA_"; "SGTYPE_VAL_"; "BA_DEF_SGTYPE_"; "BA_SGTYPE_"; "SIG_TYPE_REF_";
   "SIGTYPE_VALTYPE_"; "BA_DEF_REL_"; "BA_REL_"; "BA_DEF_DEF_REL_"; "BU_SG_REL_"; "BU_EV_REL_"; "BU_BO_REL_"]%string.
(* m<digits>[M] or M: read as a multiplexer indicator by the scanner *)
Fixpoint all_digits_then_M (s : string) : bool :=
  match s with
  | EmptyString => true
  | String c EmptyString => (Nat.eqb (nat_of_ascii c) 77) || ((48 <=? nat_of_ascii c) && (nat_of_ascii c <=? 57))%nat
  | String c r => ((48 <=? nat_of_ascii c) && (nat_of_ascii c <=? 57))%nat && all_digits_then_M r
  end.
Definition mux_shaped (s : string) : bool :=
  match s with
  | String c EmptyString => Nat.eqb (nat_of_ascii c) 77
  | String c (String d r) => Nat.eqb (nat_of_ascii c) 109 && ((48 <=? nat_of_ascii d) && (nat_of_ascii d <=? 57))%nat && all_digits_then_M (String d r)
  | _ => false
  end.
Definition ident_ok (s : string) : Prop :=
  let c := clear s in
  match c with String a _ => is_letter a = true | EmptyString => False end /\
  all_chars is_ident_char c = true /\ ~ In c dbc_keywords /\ mux_shaped c = false.
Definition text_ok (s : string) : Prop := all_chars (fun c => negb (Nat.eqb (nat_of_ascii c) 34)) s = true.

Definition well_known_names : list string :=
  ["GenMsgCycleTime"; "GenMsgDelayTime"; "GenMsgStartDelayTime"; "GenMsgSendType"; "GenSigStartValue"; "GenSigSendType"]%string.

Definition asgs_ok (l : list attr_asg) : Prop :=
  NoDup (map (fun a => clear (aa_name a)) l) /\
  Forall (fun a => wf_asg a /\ all_chars (fun c => negb (is_space c)) (clear (aa_name a)) = true /\
                   clear (aa_name a) <> EmptyString /\ text_ok (clear (aa_name a)) /\
                   ~ In (clear (aa_name a)) well_known_names /\
                   match aa_def a with DefString d => text_ok d | DefEnum _ vs => Forall text_ok vs | _ => True end /\
                   match aa_val a with ValString v => text_ok v | _ => True end) l.

(* every assignment of one attribute name in the bus carries the same definition *)
Definition all_asgs (b : bus) : list attr_asg :=
  b_attrs b ++ flat_map n_attrs (b_nodes b)
  ++ flat_map (fun m => m_attrs m ++ flat_map s_attrs (m_signals m)) (b_messages b).

Definition children_of (sigs : list signal) (p : signal) : list signal :=
  filter (fun c => match s_parent c with Some q => q =? s_id p | None => false end) sigs.
Definition disjoint_in (es : list enum_def) (limit : Z) (l : list signal) : Prop :=
  Forall (fun s => 0 <= s_rel s /\ s_rel s + sig_size es s <= limit) l /\
  forall i j a c, i <> j -> nth_error l i = Some a -> nth_error l j = Some c ->
     overlaps (s_rel a) (s_rel a + sig_size es a) (s_rel c) (s_rel c + sig_size es c) = false.

Definition signals_wf (es : list enum_def) (msize : Z) (sigs : list signal) : Prop :=
  NoDup (map s_id sigs) /\
  (* the parent relation is a forest of multiplexers *)
  (exists depth : signal -> nat, forall c p, In c sigs -> s_parent c = Some (s_id p) -> In p sigs ->
       s_kind p = KMux /\ (depth p < depth c)%nat) /\
  (forall c q, In c sigs -> s_parent c = Some q -> exists p, find_sig sigs q = Some p /\ In p sigs) /\
  disjoint_in es (msize * 8) (filter (fun s => match s_parent s with None => true | _ => false end) sigs) /\
  Forall (fun s =>
    fl_canonical (s_startval s) /\ 0 <= s_sendtype s < 8 /\ asgs_ok (s_attrs s) /\ text_ok (s_desc s) /\
    (s_parent s = None -> s_groups s = []) /\
    match s_kind s with
    | KStandard => 0 < s_size s <= 64 /\ fl_canonical (s_scale s) /\ fl_canonical (s_offset s) /\
                   fl_canonical (s_min s) /\ fl_canonical (s_max s) /\ text_ok (s_unit s)
    | KEnum => 0 <= s_enum s < Z.of_nat (length es) /\ enum_size (nth_enum es (s_enum s)) <= 64
    | KMux => 1 <= s_gcount s <= 2 ^ 16 /\ 1 <= s_gsize s /\
              forall g, 0 <= g < s_gcount s ->
                disjoint_in es (s_gsize s) (filter (fun c => in_group c g) (children_of sigs s))
    end /\
    (forall p, s_parent s = Some (s_id p) -> In p sigs ->
       ascending (-1) (s_groups s) /\ forall g, In g (s_groups s) -> g < s_gcount p)) sigs.

Definition well_formed (b : bus) : Prop :=
  (length (b_nodes b) <= 1024)%nat /\ text_ok (b_desc b) /\ asgs_ok (b_attrs b) /\
  Forall (fun n => text_ok (n_desc n) /\ asgs_ok (n_attrs n)) (b_nodes b) /\
  Forall (fun e => en_minsize e >= 0 /\ NoDup (map fst (en_values e)) /\ NoDup (map snd (en_values e)) /\
                   Forall (fun v => 0 <= fst v < 2 ^ 32 /\ fst v <= en_maxindex e /\ text_ok (snd v)) (en_values e) /\
                   (en_values e = [] -> en_maxindex e = 0) /\
                   (en_values e <> [] -> In (en_maxindex e) (map fst (en_values e)))) (b_enums b) /\
  NoDup (map m_canid (b_messages b)) /\
  flat_map (fun n => filter (fun m => String.eqb (m_sender m) (n_name n)) (b_messages b)) (b_nodes b) = b_messages b /\
  (forall a c, In a (all_asgs b) -> In c (all_asgs b) -> clear (aa_name a) = clear (aa_name c) -> aa_def a = aa_def c) /\
  Forall (fun m =>
    0 <= m_canid m < 2 ^ 32 /\ 0 <= m_size m <= 8 /\ 0 <= m_sendtype m < 5 /\ text_ok (m_desc m) /\ asgs_ok (m_attrs m) /\
    In (m_sender m) (map n_name (b_nodes b)) /\ incl (m_receivers m) (map n_name (b_nodes b)) /\
    NoDup (m_receivers m) /\ (m_signals m = [] -> m_receivers m = []) /\
    signals_wf (b_enums b) (m_size m) (m_signals m)) (b_messages b).

Definition names_ok (b : bus) : Prop :=
  Forall (fun n => ident_ok (n_name n)) (b_nodes b) /\
  NoDup (map (fun n => clear (n_name n)) (b_nodes b)) /\
  ~ In dummy_node (map (fun n => clear (n_name n)) (b_nodes b)) /\
  Forall (fun e => ident_ok (en_name e)) (b_enums b) /\
  NoDup (map (fun m => (clear (m_sender m), clear (m_name m))) (b_messages b)) /\
  Forall (fun m => ident_ok (m_name m) /\ Forall (fun s => ident_ok (s_name s)) (m_signals m) /\
                   NoDup (map (fun s => clear (s_name s)) (m_signals m))) (b_messages b).

Definition export_import_full_statement : Prop :=
  forall b, well_formed b -> names_ok b ->
  exists b', export_import b = Ok b' /\ proj_bus b' = proj_bus b.

(* ------------------------------------------------------------------------------------------
   the hypothesis of the plain theorem is satisfiable: two nodes (one with a blank in its name), a
   big-endian message with two signals (one narrower than a byte, one crossing a byte boundary)
   and a receiver, a message without signals; descriptions on the bus, a node, a message, a signal
   ------------------------------------------------------------------------------------------ *)
Local Open Scope string_scope.
Definition example_bus : bus :=
  mkbus "bus" "the test bus" []
    [mknode "ECU 1" 3 "" []; mknode "GW" 7 "the gateway" []] []
    [ mkmessage 256 "engine status" 2 BigEndian 0 0 0 0 "ECU 1" ["GW"] "status, every 10 ms" []
        [ mksignal 0 "st" KStandard 0 None [] 2 false fl_one fl_zero fl_zero (mkfl 3 0) "" 0 0 0 "" fl_zero 0 [];
          mksignal 1 "speed x" KStandard 4 None [] 10 true (mkfl 1 (-1)) fl_zero fl_zero (mkfl 1023 (-1)) "km/h" 0 0 0 "vehicle speed" fl_zero 0 [] ];
      mkmessage 512 "empty" 1 LittleEndian 0 0 0 0 "GW" [] "" [] [] ].

Ltac nodup_tac := vm_compute; repeat constructor; cbn; intuition discriminate.
Ltac plain_sig_tac := unfold plain_signal; cbn; repeat split; try reflexivity; try lia.

Ltac fin_tac :=
  match goal with
  | |- _ <= _ => cbn; lia
  | |- _ < _ => cbn; lia
  | |- Forall plain_signal _ => repeat (constructor; [plain_sig_tac|]); constructor
  | |- NoDup _ => nodup_tac
  | |- In _ _ => cbn; auto
  | |- incl _ _ => let x := fresh in let Hx := fresh in intros x Hx; cbn in Hx; cbn; intuition
  | |- True => exact I
  | |- _ = [] -> _ => let Hx := fresh in intros Hx; first [discriminate | reflexivity]
  | |- _ => cbn; lia
  end.

Example example_bus_plain : plain_bus example_bus.
Proof.
  unfold plain_bus, example_bus. cbn [b_desc b_attrs b_nodes b_messages map n_name n_desc n_attrs length].
  repeat split; try reflexivity; try lia.
  - repeat constructor.
  - nodup_tac.
  - vm_compute. intuition discriminate.
  - constructor; [|constructor; [|constructor]];
      unfold plain_message;
      cbn [m_desc m_attrs m_cycle m_delay m_startdelay m_sendtype m_canid m_size m_signals m_sender m_receivers];
      repeat split; try reflexivity; fin_tac.
  - nodup_tac.
  - nodup_tac.
Qed.

Example example_bus_roundtrip :
  exists b', export_import example_bus = Ok b' /\ proj_bus b' = proj_bus example_bus /\
             map (fun m => map (fun s => (s_name s, s_rel s)) (m_signals m)) (b_messages b')
             = [[("st", 0); ("speed_x", 4)]; []].
Proof. eexists. split; [vm_compute; reflexivity|]. split; vm_compute; reflexivity. Qed.
