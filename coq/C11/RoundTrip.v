(* C11 — export followed by import on PLAIN buses: every message holds standard signals only, no
   descriptions, attributes, timing or send types (the structural core: nodes in order, messages by
   CAN-ID with name / size / byte order / sender / receivers, signals with name, start bit in both
   byte orders, size, signedness, factor, offset, minimum, maximum, unit; names with blanks).
   The full statement (every bus that is well formed and DBC-expressible) is
   `export_import_full_statement` below; enum signals, attributes and multiplexers are covered by
   the component theorems of Proofs.v (attr_def_roundtrip, attr_value_roundtrip,
   mux_ranges_roundtrip) and by the correspondence run. *)
From Coq Require Import String Ascii ZArith List Bool Lia Permutation.
From Coq Require Import ZifyBool.
From Acme.C10 Require Import DbcDoc BusModel Import Export Bits.
From Acme.C10 Require Proofs.
From Acme.C11 Require Import Strings Proofs.
Import ListNotations.
Open Scope Z_scope.

Notation clear := clear_spaces.

(* ---------------- the class of plain buses ---------------- *)
Definition plain_signal (s : signal) : Prop :=
  s_kind s = KStandard /\ s_parent s = None /\ s_groups s = [] /\ s_desc s = EmptyString /\
  s_startval s = fl_zero /\ s_sendtype s = 0 /\ s_attrs s = [] /\ 0 < s_size s < 2 ^ 32 /\ 0 <= s_rel s.

(* signals in position order, pairwise disjoint, inside the payload *)
Fixpoint layout_ok (from limit : Z) (l : list signal) : Prop :=
  match l with
  | [] => True
  | s :: r => from <= s_rel s /\ s_rel s + s_size s <= limit /\ layout_ok (s_rel s + s_size s) limit r
  end.

Definition plain_message (node_names : list string) (m : message) : Prop :=
  m_desc m = EmptyString /\ m_attrs m = [] /\ m_cycle m = 0 /\ m_delay m = 0 /\ m_startdelay m = 0 /\
  m_sendtype m = 0 /\ 0 <= m_canid m < 2 ^ 32 /\ 0 <= m_size m <= 8 /\
  Forall plain_signal (m_signals m) /\ layout_ok 0 (m_size m * 8) (m_signals m) /\
  NoDup (map (fun s => clear (s_name s)) (m_signals m)) /\
  In (m_sender m) node_names /\ incl (m_receivers m) node_names /\
  NoDup (map clear (m_receivers m)) /\ (m_signals m = [] -> m_receivers m = []).

Definition plain_bus (b : bus) : Prop :=
  b_desc b = EmptyString /\ b_attrs b = [] /\
  Forall (fun n => n_desc n = EmptyString /\ n_attrs n = []) (b_nodes b) /\
  NoDup (map (fun n => clear (n_name n)) (b_nodes b)) /\
  ~ In dummy_node (map (fun n => clear (n_name n)) (b_nodes b)) /\
  (length (b_nodes b) <= 1024)%nat /\
  Forall (plain_message (map n_name (b_nodes b))) (b_messages b) /\
  NoDup (map m_canid (b_messages b)) /\
  NoDup (map (fun m => (clear (m_sender m), clear (m_name m))) (b_messages b)) /\
  flat_map (fun n => filter (fun m => String.eqb (m_sender m) (n_name n)) (b_messages b)) (b_nodes b) = b_messages b.

(* ---------------- what the exporter writes for a plain bus ---------------- *)
Definition dsig_of (order : byte_order) (recs : list string) (s : signal) : dsignal :=
  mkdsignal (clear (s_name s)) false false 0 (u32 (s_size s)) (dbc_start_bit (s_rel s) order) order (s_signed s)
            (s_scale s) (s_offset s) (s_min s) (s_max s) (s_unit s) recs.

Definition recs_out (m : message) : list string :=
  match m_receivers m with [] => [dummy_node] | l => map clear (sort_by str_ltb l) end.

Definition dmsg_of (m : message) : dmessage :=
  mkdmessage (u32 (m_canid m)) (clear (m_name m)) (u32 (m_size m)) (clear (m_sender m))
             (map (dsig_of (m_order m) (recs_out m)) (m_signals m)).

Lemma abs_start_top : forall fuel sigs s, s_parent s = None -> abs_start fuel sigs s = s_rel s.
Proof. intros fuel sigs s H. destruct fuel; cbn; rewrite H; reflexivity. Qed.

Lemma export_signal_plain : forall es sigs order msgid recs many fuel s acc,
  plain_signal s ->
  export_signal es sigs order msgid recs many fuel s acc = add_sig (dsig_of order recs s) acc.
Proof.
  intros es sigs order msgid recs many fuel s acc [Hk [Hp [Hg [Hd [Hv [Ht [Ha _]]]]]]].
  destruct fuel; cbn [export_signal]; rewrite Hd, Ha, Hv, Ht, Hp, Hk; cbn;
    rewrite abs_start_top by assumption; reflexivity.
Qed.

Definition add_sigs (l : list dsignal) (acc : eacc) : eacc :=
  mkeacc (ea_comments acc) (ea_attrs acc) (ea_attrdefs acc) (ea_attrvals acc) (ea_valencs acc)
         (ea_extmuxes acc) (ea_messages acc) (ea_sigs acc ++ l) (ea_names acc) (ea_enums acc).

Lemma export_signals_plain : forall es sigs order msgid recs many fuel l acc,
  Forall plain_signal l ->
  fold_left (fun a s => export_signal es sigs order msgid recs many fuel s a) l acc
  = add_sigs (map (dsig_of order recs) l) acc.
Proof.
  intros es sigs order msgid recs many fuel l. induction l as [|s r IH]; intros acc H; cbn [fold_left map].
  - unfold add_sigs. rewrite app_nil_r. destruct acc; reflexivity.
  - inversion H; subst. rewrite export_signal_plain by assumption. rewrite IH by assumption.
    unfold add_sigs, add_sig. cbn. rewrite <- app_assoc. reflexivity.
Qed.

(* a list whose keys strictly ascend is its own sort *)
Fixpoint ascending_by {A} (key : A -> Z) (l : list A) : Prop :=
  match l with
  | [] => True
  | x :: r => (match r with [] => True | y :: _ => key x < key y end) /\ ascending_by key r
  end.

Lemma sort_by_ascending : forall {A} (key : A -> Z) l, ascending_by key l ->
  sort_by (fun a b => key a <? key b) l = l.
Proof.
  intros A key l. induction l as [|x r IH]; intros H; [reflexivity|].
  cbn [sort_by fold_right]. destruct H as [Hx Hr]. fold (sort_by (fun a b => key a <? key b) r). rewrite (IH Hr).
  destruct r as [|y q]; [reflexivity|]. cbn [insert_sorted].
  replace (key y <? key x) with false by lia. reflexivity.
Qed.

Lemma layout_ascending : forall l from limit, Forall plain_signal l -> layout_ok from limit l -> ascending_by s_rel l.
Proof.
  induction l as [|s r IH]; intros from limit Hp H; [exact I|].
  cbn in H. destruct H as [H1 [H2 H3]]. inversion Hp; subst. split; [|eapply IH; eauto].
  destruct r as [|y q]; [exact I|]. cbn in H3. destruct H3 as [H3 _].
  destruct H4 as [_ [_ [_ [_ [_ [_ [_ [Hs _]]]]]]]]. lia.
Qed.

Lemma filter_all : forall {A} (p : A -> bool) l, (forall x, In x l -> p x = true) -> filter p l = l.
Proof.
  intros A p l. induction l as [|x r IH]; intros H; cbn; [reflexivity|].
  rewrite (H x (or_introl eq_refl)). f_equal. apply IH. intros y Hy. apply H. right. assumption.
Qed.

Definition clean_acc (msgs : list dmessage) (sigs : list dsignal) : eacc :=
  mkeacc [] [] [] [] [] [] msgs sigs [] [].

Lemma export_message_plain : forall names es m msgs sigs,
  plain_message names m ->
  export_message es m (clean_acc msgs sigs) = clean_acc (msgs ++ [dmsg_of m]) [].
Proof.
  intros names es m msgs sigs [Hd [Ha [Hc [Hdl [Hsd [Hst [Hid [Hsz [Hps [Hlay _]]]]]]]]]].
  unfold export_message. rewrite Hd, Ha, Hc, Hdl, Hsd, Hst. cbn [String.eqb Z.eqb app sort_attrs sort_by fold_right fold_left].
  assert (Htop : filter (fun s => match s_parent s with None => true | Some _ => false end) (m_signals m) = m_signals m).
  { apply filter_all. intros s Hs. rewrite Forall_forall in Hps. destruct (Hps s Hs) as [_ [Hp _]]. rewrite Hp. reflexivity. }
  rewrite Htop. rewrite (sort_by_ascending s_rel) by (eapply layout_ascending; eauto).
  assert (Hmany : Nat.ltb 1 (length (filter (fun s => match s_kind s with KMux => true | _ => false end) (m_signals m))) = false).
  { rewrite (Proofs.filter_nil); [reflexivity|]. intros s Hs. rewrite Forall_forall in Hps. destruct (Hps s Hs) as [Hk _]. rewrite Hk. reflexivity. }
  rewrite Hmany. rewrite export_signals_plain by assumption.
  unfold dmsg_of, recs_out, clean_acc, add_message, add_sigs, set_sigs. cbn. reflexivity.
Qed.

Lemma export_messages_plain : forall names es l msgs,
  Forall (plain_message names) l ->
  fold_left (fun a m => export_message es m a) l (clean_acc msgs []) = clean_acc (msgs ++ map dmsg_of l) [].
Proof.
  intros names es l. induction l as [|m r IH]; intros msgs H; cbn [fold_left map].
  - rewrite app_nil_r. reflexivity.
  - inversion H; subst. rewrite (export_message_plain names) by assumption. rewrite IH by assumption.
    rewrite <- app_assoc. reflexivity.
Qed.

Definition plain_doc (b : bus) : doc :=
  mkdoc (b_name b) (map (fun n => clear (n_name n)) (b_nodes b)) [] (map dmsg_of (b_messages b)) [] [] [] [] [] [].

Lemma Forall_filter : forall {A} (P : A -> Prop) p l, Forall P l -> Forall P (filter p l).
Proof.
  intros A P p l H. induction H; cbn; [constructor|]. destruct (p x); [constructor|]; assumption.
Qed.

Lemma export_plain : forall b, plain_bus b -> export b = plain_doc b.
Proof.
  intros b [Hd [Ha [Hn [_ [_ [_ [Hm [_ [_ Hg]]]]]]]]].
  unfold export. rewrite Hd, Ha. cbn [String.eqb sort_attrs sort_by fold_right fold_left].
  assert (Hnodes : forall nodes msgs0,
    Forall (fun n => n_desc n = EmptyString /\ n_attrs n = []) nodes ->
    fold_left (fun a n =>
        let name := clear (n_name n) in
        let a := if String.eqb (n_desc n) EmptyString then a
                 else add_comment (mkdcomment ONode (n_desc n) name 0 EmptyString) a in
        let a := fold_left (fun a x => export_assignment ONode name 0 EmptyString x a) (sort_attrs (n_attrs n)) a in
        fold_left (fun a m => export_message (b_enums b) m a)
                  (filter (fun m => String.eqb (m_sender m) (n_name n)) (b_messages b)) a)
      nodes (clean_acc msgs0 [])
    = clean_acc (msgs0 ++ map dmsg_of (flat_map (fun n => filter (fun m => String.eqb (m_sender m) (n_name n)) (b_messages b)) nodes)) []).
  { induction nodes as [|n r IH]; intros msgs0 Hf; cbn [fold_left flat_map map].
    - rewrite app_nil_r. reflexivity.
    - inversion Hf as [|? ? [Hnd Hna] Hr]; subst. rewrite Hnd, Hna.
      cbn [String.eqb sort_attrs sort_by fold_right fold_left].
      rewrite (export_messages_plain (map n_name (b_nodes b))) by (apply Forall_filter; assumption).
      rewrite IH by assumption. rewrite map_app, app_assoc. reflexivity. }
  change (mkeacc [] [] [] [] [] [] [] [] [] []) with (clean_acc [] []).
  rewrite Hnodes by assumption. rewrite Hg. cbn. reflexivity.
Qed.

(* ---------------- what the importer makes of that document ---------------- *)
Fixpoint mk_nodes (i : Z) (names : list string) : list node :=
  match names with [] => [] | nm :: r => mknode nm i EmptyString [] :: mk_nodes (i + 1) r end.

Lemma not_in_mem_str : forall s l, ~ In s l -> mem_str s l = false.
Proof.
  intros s l H. unfold mem_str. destruct (existsb (String.eqb s) l) eqn:E; [|reflexivity].
  apply existsb_exists in E. destruct E as [x [Hx He]]. apply String.eqb_eq in He. subst. contradiction.
Qed.
Lemma not_in_mem_z : forall z l, ~ In z l -> mem_z z l = false.
Proof.
  intros z l H. unfold mem_z. destruct (existsb (Z.eqb z) l) eqn:E; [|reflexivity].
  apply existsb_exists in E. destruct E as [x [Hx He]]. apply Z.eqb_eq in He. subst. contradiction.
Qed.

Lemma import_nodes_aux_ok : forall names idx acc,
  NoDup (map n_name acc ++ names) -> ~ In dummy_node names -> (forall n, In n acc -> n_id n < idx) ->
  import_nodes_aux [] names idx acc = Ok (acc ++ mk_nodes idx names).
Proof.
  induction names as [|nm r IH]; intros idx acc Hnd Hdm Hid; cbn [import_nodes_aux mk_nodes].
  - rewrite app_nil_r. reflexivity.
  - assert (Hne : String.eqb nm dummy_node = false).
    { destruct (String.eqb nm dummy_node) eqn:E; [|reflexivity]. apply String.eqb_eq in E. subst. exfalso. apply Hdm. left. reflexivity. }
    rewrite Hne.
    assert (Hnot : ~ In nm (map n_name acc)).
    { apply NoDup_remove_2 in Hnd. intros Hin. apply Hnd. apply in_or_app. left. assumption. }
    rewrite (not_in_mem_str _ _ Hnot).
    rewrite not_in_mem_z.
    2:{ intros Hin. apply in_map_iff in Hin. destruct Hin as [n [Hn1 Hn2]]. specialize (Hid n Hn2). lia. }
    cbn [lookup]. rewrite IH.
    + rewrite <- app_assoc. reflexivity.
    + rewrite map_app. cbn [map n_name]. rewrite <- app_assoc. exact Hnd.
    + intros H. apply Hdm. right. assumption.
    + intros n Hn. apply in_app_or in Hn. destruct Hn as [Hn|[Hn|[]]]; [specialize (Hid n Hn); lia|subst; cbn; lia].
Qed.

Lemma mk_nodes_ids : forall names i n, In n (mk_nodes i names) -> i <= n_id n < i + Z.of_nat (length names).
Proof.
  induction names as [|nm r IH]; intros i n H; [destruct H|].
  cbn [mk_nodes length] in *. rewrite Nat2Z.inj_succ. destruct H as [H|H]; [subst; cbn; lia|].
  apply IH in H. lia.
Qed.
Lemma mk_nodes_names : forall names i, map n_name (mk_nodes i names) = names.
Proof. induction names as [|nm r IH]; intros i; cbn; [reflexivity|]. rewrite IH. reflexivity. Qed.

Lemma import_nodes_ok : forall names,
  NoDup names -> ~ In dummy_node names -> (length names <= 1024)%nat ->
  import_nodes [] names = Ok (mk_nodes 0 names ++ [mknode dummy_node 1024 EmptyString []]).
Proof.
  intros names Hnd Hdm Hlen. unfold import_nodes.
  rewrite (import_nodes_aux_ok names 0 []); [|assumption|assumption|intros n []].
  cbn [bind app]. rewrite not_in_mem_z; [reflexivity|].
  intros Hin. apply in_map_iff in Hin. destruct Hin as [n [Hn1 Hn2]]. apply mk_nodes_ids in Hn2. lia.
Qed.

(* ---- signals ---- *)
Definition empty_env : ienv := mkienv [] [] [] [] [].

Definition isig_of (id : Z) (s : signal) : signal :=
  mksignal id (clear (s_name s)) KStandard (s_rel s) None [] (s_size s) (s_signed s)
           (s_scale s) (s_offset s) (s_min s) (s_max s) (s_unit s) 0 0 0 EmptyString fl_zero 0 [].

Lemma dsig_start : forall o recs s, 0 <= s_rel s < 2 ^ 31 -> get_start_bit (dsig_of o recs s) = s_rel s.
Proof.
  intros o recs s H. unfold get_start_bit, dsig_of, dbc_start_bit. cbn [ds_order ds_start].
  destruct o.
  - apply u32_id. lia.
  - rewrite u32_id by lia.
    destruct (Proofs.start_bit_inverse BigEndian (s_rel s) ltac:(lia)) as [H1 _].
    unfold pos_of_dbc, dbc_of_pos in H1. exact H1.
Qed.

Lemma import_signal_plain : forall st mpos msgid id o recs s,
  plain_signal s ->
  exists st', import_signal empty_env st mpos msgid id (dsig_of o recs s)
              = Ok (place (isig_of id s) 0 None [], st') /\ is_enums st' = is_enums st.
Proof.
  intros st mpos msgid id o recs s [Hk [Hp [Hg [Hd [Hv [Ht [Ha [Hs Hr]]]]]]]].
  unfold import_signal, empty_env. cbn [ie_sig_enums ie_sig_desc lookup].
  unfold import_standard. cbn [dsig_of ds_size ds_name ds_signed ds_factor ds_offset ds_min ds_max ds_unit].
  rewrite u32_id by lia. replace (s_size s <=? 0) with false by lia.
  cbn [bind]. eexists. split; [reflexivity|reflexivity].
Qed.

Definition all_top (l : list signal) : Prop :=
  forall d, In d l -> s_parent d = None /\ s_kind d = KStandard.

Lemma verify_insert_ok : forall limit done size start,
  all_top done -> 0 <= start -> 0 < size -> start + size <= limit ->
  (forall d, In d done -> s_rel d + s_size d <= start) ->
  verify_insert [] limit done size start = Ok tt.
Proof.
  intros limit done size start Ht H0 Hs Hl Hd. unfold verify_insert.
  replace (start <? 0) with false by lia. replace (size >? limit) with false by lia.
  replace (start + size >? limit) with false by lia.
  replace (existsb _ done) with false; [reflexivity|].
  symmetry. destruct (existsb _ done) eqn:E; [|reflexivity].
  apply existsb_exists in E. destruct E as [d [Hin Ho]]. unfold overlaps in Ho.
  destruct (Ht d Hin) as [_ Hk]. unfold sig_size in Ho. rewrite Hk in Ho. specialize (Hd d Hin). lia.
Qed.

Lemma msg_insert_ok : forall msize done s start,
  all_top done -> ~ In (s_name s) (map s_name done) -> s_kind s = KStandard ->
  0 <= start -> 0 < s_size s -> start + s_size s <= msize * 8 ->
  (forall d, In d done -> s_rel d + s_size d <= start) ->
  msg_insert [] msize done (s, []) start = Ok (done ++ [place s start None []]).
Proof.
  intros msize done s start Ht Hfresh Hk H0 Hs Hl Hd. unfold msg_insert.
  rewrite (not_in_mem_str _ _ Hfresh). cbn [existsb map length dedup_str mem_str negb Nat.eqb].
  assert (Hfil : filter (fun x => match s_parent x with None => true | Some _ => false end) done = done).
  { apply filter_all. intros d Hin. destruct (Ht d Hin) as [Hpp _]. rewrite Hpp. reflexivity. }
  rewrite Hfil. unfold sig_size at 1. rewrite Hk.
  rewrite verify_insert_ok by assumption. reflexivity.
Qed.

Lemma plain_import_fold : forall mpos msgid msize o recs l i st done from,
  Forall plain_signal l -> layout_ok from (msize * 8) l -> 0 <= from -> msize <= 8 ->
  is_enums st = [] -> all_top done ->
  (forall d, In d done -> s_rel d + s_size d <= from) ->
  NoDup (map s_name done ++ map (fun s => clear (s_name s)) l) ->
  exists st',
  fold_left (fun acc (p : Z * dsignal) => let '(id, ds) := p in
      do (st0, sg) <- acc;
      do (s, st1) <- import_signal empty_env st0 mpos msgid id ds;
      (let '(st2, sg2) := (st1, sg) in
       do sg' <- msg_insert (is_enums st2) msize sg2 (s, []) (get_start_bit ds); Ok (st2, sg')))
    (index_from i (map (dsig_of o recs) l)) (Ok (st, done))
  = Ok (st', done ++ map (fun p => isig_of (fst p) (snd p)) (index_from i l)) /\ is_enums st' = [].
Proof.
  intros mpos msgid msize o recs l. induction l as [|s r IH]; intros i st done from Hp Hl H0 Hm He Ht Hd Hn.
  - cbn. exists st. rewrite app_nil_r. auto.
  - inversion Hp as [|? ? Hps Hpr]; subst. cbn [layout_ok] in Hl. destruct Hl as [L1 [L2 L3]].
    pose proof Hps as [Hk [Hpa [Hg [Hde [Hv [Hty [Ha [Hs Hr]]]]]]]].
    cbn [map index_from fold_left bind].
    destruct (import_signal_plain st mpos msgid i o recs s Hps) as [st1 [E1 E2]].
    rewrite E1. cbn [bind]. rewrite E2, He.
    rewrite dsig_start by lia.
    assert (Hfresh : ~ In (s_name (place (isig_of i s) 0 None [])) (map s_name done)).
    { cbn [map] in Hn. apply NoDup_remove_2 in Hn. intros Hin. apply Hn. apply in_or_app. left. exact Hin. }
    rewrite msg_insert_ok; try assumption; try reflexivity; try (cbn [s_size place isig_of]; lia);
      try (intros d Hin; specialize (Hd d Hin); lia).
    cbn [bind app].
    destruct (IH (i + 1) st1 (done ++ [isig_of i s]) (s_rel s + s_size s)) as [st' [F1 F2]]; try assumption; try lia.
    + rewrite E2. assumption.
    + intros d Hin. apply in_app_or in Hin. destruct Hin as [Hin|[Hin|[]]]; [apply Ht; assumption|subst; cbn; auto].
    + intros d Hin. apply in_app_or in Hin. destruct Hin as [Hin|[Hin|[]]]; [specialize (Hd d Hin); lia|subst; cbn; lia].
    + rewrite map_app. cbn [map s_name isig_of]. rewrite <- app_assoc. exact Hn.
    + exists st'. split; [|assumption]. 
      replace (place (place (isig_of i s) 0 None []) (s_rel s) None []) with (isig_of i s) by reflexivity.
      rewrite F1. rewrite <- app_assoc. reflexivity.
Qed.

(* ---- messages ---- *)
Definition recs_in (m : message) : list string :=
  match m_signals m with [] => [] | _ => map clear (sort_by str_ltb (m_receivers m)) end.

Definition imsg_of (m : message) : message :=
  mkmessage (m_canid m) (clear (m_name m)) (m_size m)
            (match m_signals m with [] => LittleEndian | _ => m_order m end) 0 0 0 0
            (clear (m_sender m)) (recs_in m) EmptyString []
            (map (fun p => isig_of (fst p) (snd p)) (index_from 0 (m_signals m))).

Lemma dedup_all_seen : forall l seen, (forall x, In x l -> In x seen) -> dedup_str seen l = [].
Proof.
  induction l as [|x r IH]; intros seen H; cbn; [reflexivity|].
  assert (Hx : mem_str x seen = true).
  { unfold mem_str. apply existsb_exists. exists x. split; [apply H; left; reflexivity|apply String.eqb_refl]. }
  rewrite Hx. apply IH. intros y Hy. apply H. right. assumption.
Qed.

Lemma dedup_app_fresh : forall l seen rest, NoDup l -> (forall x, In x l -> ~ In x seen) ->
  dedup_str seen (l ++ rest) = l ++ dedup_str (rev l ++ seen) rest.
Proof.
  induction l as [|x r IH]; intros seen rest Hnd Hs; cbn [app rev dedup_str]; [reflexivity|].
  inversion Hnd; subst. rewrite (not_in_mem_str x seen) by (apply Hs; left; reflexivity).
  rewrite IH; [|assumption|].
  - rewrite <- app_assoc. reflexivity.
  - intros y Hy [Hy'|Hy']; [subst; contradiction|]. apply (Hs y); [right; assumption|assumption].
Qed.

Lemma dedup_copies : forall (l : list string) (ds : list dsignal) d,
  NoDup l -> (forall x, In x (d :: ds) -> ds_receivers x = l) ->
  dedup_str [] (flat_map ds_receivers (d :: ds)) = l.
Proof.
  intros l ds d Hnd Hall. cbn [flat_map]. rewrite (Hall d (or_introl eq_refl)).
  rewrite dedup_app_fresh; [|assumption|intros x _ []].
  rewrite dedup_all_seen; [apply app_nil_r|].
  intros x Hx. apply in_flat_map in Hx. destruct Hx as [y [Hy Hx]].
  rewrite (Hall y (or_intror Hy)) in Hx. apply in_or_app. left. apply in_rev in Hx. exact Hx.
Qed.

Lemma In_sort_str : forall x l, In x (sort_by str_ltb l) <-> In x l.
Proof. intros x l. apply Proofs.In_sort_by. Qed.

Lemma sorted_dsigs : forall o recs l from limit, Forall plain_signal l -> layout_ok from limit l -> 0 <= from -> limit <= 64 ->
  sort_by (fun a b => get_start_bit a <? get_start_bit b) (map (dsig_of o recs) l) = map (dsig_of o recs) l.
Proof.
  intros o recs l from limit Hp Hl H0 Hlim. apply (sort_by_ascending get_start_bit).
  revert from Hl H0. induction l as [|s r IH]; intros from Hl H0; [exact I|].
  inversion Hp as [|? ? Hps Hpr]; subst. cbn [layout_ok] in Hl. destruct Hl as [L1 [L2 L3]].
  destruct Hps as [_ [_ [_ [_ [_ [_ [_ [Hs Hr]]]]]]]].
  cbn [map ascending_by]. split; [|apply (IH Hpr (s_rel s + s_size s)); [assumption|lia]].
  destruct r as [|y q]; [exact I|]. cbn [map].
  inversion Hpr as [|? ? Hpy _]; subst. destruct Hpy as [_ [_ [_ [_ [_ [_ [_ [Hsy Hry]]]]]]]].
  cbn [layout_ok] in L3. destruct L3 as [M1 [M2 _]].
  rewrite !dsig_start by lia. lia.
Qed.

Lemma import_message_signals_plain_ok : forall st mpos m names,
  plain_message names m -> is_enums st = [] ->
  exists st', import_message_signals empty_env st mpos (dmsg_of m)
              = Ok (st', map (fun p => isig_of (fst p) (snd p)) (index_from 0 (m_signals m))) /\ is_enums st' = [].
Proof.
  intros st mpos m names [Hd [Ha [Hc [Hdl [Hsd [Hst [Hid [Hsz [Hps [Hlay [Hnn _]]]]]]]]]]] He.
  unfold import_message_signals. cbn [dm_signals dm_id dm_size dmsg_of].
  rewrite (sorted_dsigs _ _ _ 0 (m_size m * 8)) by (try assumption; lia).
  rewrite Proofs.filter_nil.
  2:{ intros [i ds] Hin. cbn [snd].
      assert (Hds : In ds (map (dsig_of (m_order m) (recs_out m)) (m_signals m))).
      { rewrite <- (Proofs.index_from_snd (map (dsig_of (m_order m) (recs_out m)) (m_signals m)) 0).
        apply in_map_iff. exists (i, ds). auto. }
      apply in_map_iff in Hds. destruct Hds as [s [Hs _]]. subst ds. reflexivity. }
  assert (Hnomuxed : existsb (fun p : Z * dsignal => ds_muxed (snd p))
                            (index_from 0 (map (dsig_of (m_order m) (recs_out m)) (m_signals m))) = false).
  { destruct (existsb _ _) eqn:E; [|reflexivity]. apply existsb_exists in E. destruct E as [[i ds] [Hin Hmd]]. cbn [snd] in Hmd.
    assert (Hds : In ds (map (dsig_of (m_order m) (recs_out m)) (m_signals m))).
    { rewrite <- (Proofs.index_from_snd (map (dsig_of (m_order m) (recs_out m)) (m_signals m)) 0).
      apply in_map_iff. exists (i, ds). auto. }
    apply in_map_iff in Hds. destruct Hds as [s [Hs _]]. subst ds. discriminate Hmd. }
  rewrite Hnomuxed.
  rewrite (u32_id (m_size m)) by lia.
  destruct (plain_import_fold mpos (u32 (m_canid m)) (m_size m) (m_order m) (recs_out m) (m_signals m) 0 st [] 0)
    as [st' [F1 F2]]; try assumption; try lia.
  - intros d [].
  - intros d [].
  - exists st'. split; [|assumption]. cbn [app] in F1. exact F1.
Qed.

Lemma import_message_plain : forall raw_names nodes st done m,
  plain_message raw_names m -> is_enums st = [] ->
  (forall r, In r raw_names -> In (clear r) (map n_name nodes)) ->
  (forall r, In r raw_names -> clear r <> dummy_node) ->
  ~ In (m_canid m) (map m_canid done) ->
  ~ In (clear (m_sender m), clear (m_name m)) (map (fun x => (m_sender x, m_name x)) done) ->
  exists st', import_message empty_env (st, done) nodes (dmsg_of m) = Ok (st', done ++ [imsg_of m]) /\ is_enums st' = [].
Proof.
  intros raw_names nodes st done m Hpm He Hnodes Hnd Hcan Hpair.
  pose proof Hpm as [Hd [Ha [Hc [Hdl [Hsd [Hst [Hid [Hsz [Hps [Hlay [Hnn [Hsn [Hrc [Hrn Hre]]]]]]]]]]]]]].
  destruct (import_message_signals_plain_ok st (length done) m raw_names Hpm He) as [st' [Hsig He']].
  exists st'. split; [|assumption].
  unfold import_message. cbv zeta.
  cbn [dm_signals dm_id dm_size dm_tx dm_name dmsg_of ie_msg_desc empty_env lookup].
  rewrite (sorted_dsigs _ _ _ 0 (m_size m * 8)) by (try assumption; lia).
  (* byte order *)
  assert (Hord : match map (dsig_of (m_order m) (recs_out m)) (m_signals m) with
                 | [] => LittleEndian | s :: _ => ds_order s end
                 = match m_signals m with [] => LittleEndian | _ => m_order m end).
  { destruct (m_signals m); reflexivity. }
  rewrite Hord.
  assert (Hfo : forallb (fun s => bo_eqb (ds_order s) (match m_signals m with [] => LittleEndian | _ => m_order m end))
                        (map (dsig_of (m_order m) (recs_out m)) (m_signals m)) = true).
  { apply forallb_forall. intros ds Hin. apply in_map_iff in Hin. destruct Hin as [s [Hs Hin]]. subst ds.
    destruct (m_signals m); [destruct Hin|]. cbn. destruct (m_order m); reflexivity. }
  rewrite Hfo. cbn [negb].
  (* receivers *)
  assert (Hrecs : filter (fun r => negb (String.eqb r dummy_node))
                         (dedup_str [] (flat_map ds_receivers (map (dsig_of (m_order m) (recs_out m)) (m_signals m))))
                  = recs_in m).
  { unfold recs_in. destruct (m_signals m) as [|s0 sr] eqn:Es; [reflexivity|].
    cbn [map]. rewrite (dedup_copies (recs_out m)).
    - unfold recs_out. destruct (m_receivers m) as [|r0 rr] eqn:Er; [reflexivity|].
      apply filter_all. intros x Hx. apply in_map_iff in Hx. destruct Hx as [y [Hy Hin]]. subst x.
      rewrite In_sort_str in Hin.
      destruct (String.eqb (clear y) dummy_node) eqn:E; [|reflexivity].
      apply String.eqb_eq in E. exfalso. apply (Hnd y); [apply Hrc; assumption|assumption].
    - unfold recs_out. destruct (m_receivers m) as [|r0 rr] eqn:Er; [constructor; [intros []|constructor]|].
      eapply Permutation_NoDup; [|exact Hrn]. apply Permutation_map. apply sort_by_perm.
    - intros x Hx. destruct Hx as [Hx|Hx]; [subst; reflexivity|].
      apply in_map_iff in Hx. destruct Hx as [y [Hy _]]. subst. reflexivity. }
  rewrite Hrecs.
  assert (Hrin : forallb (fun r => mem_str r (map n_name nodes)) (recs_in m) = true).
  { apply forallb_forall. intros x Hx. unfold recs_in in Hx. destruct (m_signals m); [destruct Hx|].
    apply in_map_iff in Hx. destruct Hx as [y [Hy Hin]]. subst x. rewrite In_sort_str in Hin.
    unfold mem_str. apply existsb_exists. exists (clear y). split; [apply Hnodes, Hrc; assumption|apply String.eqb_refl]. }
  rewrite Hrin. cbn [negb].
  assert (Htx : mem_str (clear (m_sender m)) (map n_name nodes) = true).
  { unfold mem_str. apply existsb_exists. exists (clear (m_sender m)). split; [apply Hnodes; assumption|apply String.eqb_refl]. }
  rewrite Htx. cbn [negb].
  assert (Hname : mem_str (clear (m_name m))
                    (map m_name (filter (fun x => String.eqb (m_sender x) (clear (m_sender m))) done)) = false).
  { apply not_in_mem_str. intros Hin. apply in_map_iff in Hin. destruct Hin as [x [Hx Hin]].
    apply filter_In in Hin. destruct Hin as [Hin Hs]. apply String.eqb_eq in Hs.
    apply Hpair. apply in_map_iff. exists x. split; [rewrite Hs, Hx; reflexivity|assumption]. }
  rewrite Hname.
  rewrite (u32_id (m_size m)) by lia. replace (m_size m >? 8) with false by lia.
  rewrite (u32_id (m_canid m)) by lia. rewrite (not_in_mem_z _ _ Hcan).
  rewrite Hsig. cbn [bind]. reflexivity.
Qed.

Lemma import_messages_plain : forall raw_names nodes l st done,
  Forall (plain_message raw_names) l -> is_enums st = [] ->
  (forall r, In r raw_names -> In (clear r) (map n_name nodes)) ->
  (forall r, In r raw_names -> clear r <> dummy_node) ->
  NoDup (map m_canid done ++ map m_canid l) ->
  NoDup (map (fun x => (m_sender x, m_name x)) done ++ map (fun m => (clear (m_sender m), clear (m_name m))) l) ->
  exists st',
    fold_left (fun acc dm => do a <- acc; import_message empty_env a nodes dm) (map dmsg_of l) (Ok (st, done))
    = Ok (st', done ++ map imsg_of l) /\ is_enums st' = [].
Proof.
  intros raw_names nodes l. induction l as [|m r IH]; intros st done Hp He Hn Hd Hc Hq.
  - cbn. exists st. rewrite app_nil_r. auto.
  - inversion Hp as [|? ? Hpm Hpr]; subst. cbn [map fold_left bind].
    destruct (import_message_plain raw_names nodes st done m Hpm He Hn Hd) as [st1 [E1 E2]].
    + cbn [map] in Hc. apply NoDup_remove_2 in Hc. intros Hin. apply Hc. apply in_or_app. left. assumption.
    + cbn [map] in Hq. apply NoDup_remove_2 in Hq. intros Hin. apply Hq. apply in_or_app. left. assumption.
    + rewrite E1. destruct (IH st1 (done ++ [imsg_of m])) as [st' [F1 F2]]; try assumption.
      * rewrite map_app. cbn [map m_canid imsg_of]. rewrite <- app_assoc. exact Hc.
      * rewrite map_app. cbn [map m_sender m_name imsg_of]. rewrite <- app_assoc. exact Hq.
      * exists st'. split; [|assumption]. rewrite F1, <- app_assoc. reflexivity.
Qed.

Definition imported (b : bus) : bus :=
  mkbus (b_name b) EmptyString [] (mk_nodes 0 (map (fun n => clear (n_name n)) (b_nodes b))) []
        (map imsg_of (b_messages b)).

Lemma mk_nodes_not_dummy : forall names i, ~ In dummy_node names ->
  filter (fun n => negb (String.eqb (n_name n) dummy_node)) (mk_nodes i names) = mk_nodes i names.
Proof.
  intros names i H. apply filter_all. intros n Hn.
  assert (Hin : In (n_name n) names) by (rewrite <- (mk_nodes_names names i); apply in_map; assumption).
  destruct (String.eqb (n_name n) dummy_node) eqn:E; [|reflexivity].
  apply String.eqb_eq in E. rewrite E in Hin. contradiction.
Qed.

Lemma export_import_plain : forall b, plain_bus b -> export_import b = Ok (imported b).
Proof.
  intros b Hpb. pose proof Hpb as [Hd [Ha [Hn [Hnn [Hdm [Hlen [Hm [Hcan [Hpair Hg]]]]]]]]].
  unfold export_import. rewrite (export_plain b Hpb).
  unfold text_roundtrip, plain_doc. cbn [d_filename d_nodes d_valtables d_messages d_comments d_attrs d_attrdefs d_attrvals d_valencs d_extmuxes map].
  unfold import. cbn [d_filename d_nodes d_valtables d_messages d_comments d_attrs d_attrdefs d_attrvals d_valencs d_extmuxes
                     import_comments fold_left bind length fst snd import_ext_muxes].
  rewrite import_nodes_ok; [|assumption|assumption|rewrite map_length; assumption].
  cbn [bind]. fold empty_env.
  set (nodes' := mk_nodes 0 (map (fun n => clear (n_name n)) (b_nodes b)) ++ [mknode dummy_node 1024 EmptyString []]).
  assert (Hnames' : map n_name nodes' = map (fun n => clear (n_name n)) (b_nodes b) ++ [dummy_node]).
  { unfold nodes'. rewrite map_app, mk_nodes_names. reflexivity. }
  destruct (import_messages_plain (map n_name (b_nodes b)) nodes' (b_messages b) (mkistate [] [] []) []) as [st' [F1 F2]];
    try assumption; try reflexivity.
  - intros r Hr. rewrite Hnames'. apply in_or_app. left. apply in_map_iff in Hr. destruct Hr as [n [Hr Hin]]. subst r.
    apply in_map_iff. exists n. auto.
  - intros r Hr Heq. apply Hdm. apply in_map_iff in Hr. destruct Hr as [n [Hr Hin]]. subst r.
    rewrite <- Heq. apply in_map_iff. exists n. auto.
  - change (mkienv [] [] [] [] []) with empty_env. rewrite F1. cbn [bind app]. rewrite F2.
    unfold import_attributes. cbn [d_attrdefs d_attrs d_attrvals fold_left bind].
    cbn [b_messages b_nodes set_b_nodes].
    assert (Hnos : existsb (fun m => String.eqb (m_sender m) dummy_node) (map imsg_of (b_messages b)) = false).
    { destruct (existsb _ _) eqn:E; [|reflexivity]. apply existsb_exists in E. destruct E as [x [Hx He]].
      apply in_map_iff in Hx. destruct Hx as [m [Hx Hin]]. subst x. cbn [m_sender imsg_of] in He.
      apply String.eqb_eq in He. exfalso. apply Hdm.
      rewrite Forall_forall in Hm. destruct (Hm m Hin) as [_ [_ [_ [_ [_ [_ [_ [_ [_ [_ [_ [Hs _]]]]]]]]]]]].
      apply in_map_iff in Hs. destruct Hs as [n [Hs Hn']]. rewrite <- He, <- Hs. apply in_map_iff. exists n. auto. }
    rewrite Hnos. unfold imported, nodes'. rewrite filter_app, mk_nodes_not_dummy by assumption.
    cbn. rewrite app_nil_r. reflexivity.
Qed.

(* ---------------- the projections agree ---------------- *)
Lemma proj_signal_plain : forall es es' sigs sigs' id s, plain_signal s ->
  proj_signal es' sigs' (isig_of id s) = proj_signal es sigs s.
Proof.
  intros es es' sigs sigs' id s [Hk [Hp [Hg [Hd [Hv [Ht [Ha _]]]]]]].
  unfold proj_signal, membership, sig_size.
  rewrite !abs_start_top by (try assumption; reflexivity).
  cbn [s_kind s_name s_rel s_parent s_groups s_size s_signed s_scale s_offset s_min s_max s_unit s_desc
       s_startval s_sendtype s_attrs isig_of].
  rewrite Hk, Hp, Hd, Hv, Ht, Ha, clear_spaces_idem. reflexivity.
Qed.

Lemma index_from_map : forall {A B} (f : Z -> A -> B) (g : A -> B) (l : list A) i,
  (forall j x, In x l -> f j x = g x) -> map (fun p => f (fst p) (snd p)) (index_from i l) = map g l.
Proof.
  intros A B f g l. induction l as [|x r IH]; intros i H; cbn; [reflexivity|].
  rewrite (H i x (or_introl eq_refl)). f_equal. apply IH. intros j y Hy. apply H. right. assumption.
Qed.

Lemma proj_message_plain : forall names es m, plain_message names m ->
  proj_message [] (imsg_of m) = proj_message es m.
Proof.
  intros names es m [Hd [Ha [Hc [Hdl [Hsd [Hst [Hid [Hsz [Hps [Hlay [Hnn [Hsn [Hrc [Hrn Hre]]]]]]]]]]]]]].
  unfold proj_message.
  cbn [m_canid m_name m_size m_order m_cycle m_delay m_startdelay m_sendtype m_sender m_receivers m_desc m_attrs m_signals imsg_of].
  rewrite Hd, Ha, Hc, Hdl, Hsd, Hst, !clear_spaces_idem.
  assert (Hord : match map (fun p => isig_of (fst p) (snd p)) (index_from 0 (m_signals m)) with
                 | [] => LittleEndian
                 | _ :: _ => match m_signals m with [] => LittleEndian | _ :: _ => m_order m end
                 end = match m_signals m with [] => LittleEndian | _ :: _ => m_order m end).
  { destruct (m_signals m); reflexivity. }
  rewrite Hord.
  assert (Hrecs : sort_by str_ltb (map clear (recs_in m)) = sort_by str_ltb (map clear (m_receivers m))).
  { unfold recs_in. destruct (m_signals m) eqn:Es.
    - rewrite (Hre eq_refl). reflexivity.
    - rewrite map_map. rewrite (map_ext (fun x => clear (clear x)) clear) by (intros; apply clear_spaces_idem).
      apply sort_str_perm_eq. apply Permutation_map. apply Permutation_sym. apply sort_by_perm. }
  rewrite Hrecs.
  assert (Hsigs : map (proj_signal [] (map (fun p => isig_of (fst p) (snd p)) (index_from 0 (m_signals m))))
                      (map (fun p => isig_of (fst p) (snd p)) (index_from 0 (m_signals m)))
                  = map (proj_signal es (m_signals m)) (m_signals m)).
  { rewrite map_map.
    apply (index_from_map (fun i s => proj_signal [] (map (fun p => isig_of (fst p) (snd p)) (index_from 0 (m_signals m))) (isig_of i s))).
    intros j s Hs. apply proj_signal_plain. rewrite Forall_forall in Hps. apply Hps. assumption. }
  rewrite Hsigs. reflexivity.
Qed.

Lemma proj_imported : forall b, plain_bus b -> proj_bus (imported b) = proj_bus b.
Proof.
  intros b [Hd [Ha [Hn [Hnn [Hdm [Hlen [Hm [Hcan [Hpair Hg]]]]]]]]].
  unfold proj_bus, imported. cbn [b_desc b_attrs b_nodes b_enums b_messages]. rewrite Hd, Ha.
  f_equal.
  - (* nodes *)
    assert (Hgen : forall nodes i, Forall (fun n => n_desc n = EmptyString /\ n_attrs n = []) nodes ->
              map proj_node (mk_nodes i (map (fun n => clear (n_name n)) nodes)) = map proj_node nodes).
    { induction nodes as [|n r IH]; intros i Hf; cbn [map mk_nodes]; [reflexivity|].
      inversion Hf as [|? ? [Hnd Hna] Hr]; subst. rewrite IH by assumption. f_equal.
      unfold proj_node. cbn [n_name n_desc n_attrs]. rewrite Hnd, Hna, clear_spaces_idem. reflexivity. }
    apply Hgen. assumption.
  - (* messages *)
    rewrite map_map. f_equal. apply map_ext_in. intros m Hin.
    rewrite Forall_forall in Hm. eapply proj_message_plain. apply Hm. assumption.
Qed.

(* ---------------- the theorem ---------------- *)
Theorem export_import_plain_thm : forall b, plain_bus b ->
  exists b', export_import b = Ok b' /\ proj_bus b' = proj_bus b.
Proof.
  intros b H. exists (imported b). split; [apply export_import_plain; assumption|apply proj_imported; assumption].
Qed.

(* ------------------------------------------------------------------------------------------
   FULL STATEMENT (not proved; the plain fragment above and the component theorems of Proofs.v are).
   well_formed: the invariants C01/C04/C05/C07 give on a bus, as far as export/import depend on them.
   names_ok: the "DBC-expressible" proviso.
   ------------------------------------------------------------------------------------------ *)
Definition is_ident_char (c : ascii) : bool :=
  let n := nat_of_ascii c in
  ((65 <=? n) && (n <=? 90) || (97 <=? n) && (n <=? 122) || (48 <=? n) && (n <=? 57) || (n =? 95) || (n =? 45))%nat.
Definition is_letter (c : ascii) : bool :=
  let n := nat_of_ascii c in ((65 <=? n) && (n <=? 90) || (97 <=? n) && (n <=? 122))%nat.
Fixpoint all_chars (p : ascii -> bool) (s : string) : bool :=
  match s with EmptyString => true | String c r => p c && all_chars p r end.
Definition dbc_keywords : list string :=
  ["VERSION"; "NS_"; "BS_"; "BU_"; "VAL_TABLE_"; "BO_"; "SG_"; "BO_TX_BU_"; "EV_"; "ENVVAR_DATA_"; "SGTYPE_"; "CM_";
   "BA_DEF_"; "BA_DEF_DEF_"; "BA_"; "VAL_"; "SIG_GROUP_"; "SIG_VALTYPE_"; "SG_MUL_VAL_"; "INT"; "HEX"; "FLOAT"; "STRING"; "ENUM";
   "NS_DESC_"; "CAT_DEF_"; "CAT_"; "FILTER"; "EV_DATA_"; "SGTYPE_VAL_"; "BA_DEF_SGTYPE_"; "BA_SGTYPE_"; "SIG_TYPE_REF_";
   "SIGTYPE_VALTYPE_"; "BA_DEF_REL_"; "BA_REL_"; "BA_DEF_DEF_REL_"; "BU_SG_REL_"; "BU_EV_REL_"; "BU_BO_REL_"]%string.
(* m<digits>[M] or M: read as a multiplexer indicator by the scanner *)
Fixpoint all_digits_then_M (s : string) : bool :=
  match s with
  | EmptyString => true
  | String c EmptyString => (Nat.eqb (nat_of_ascii c) 77) || ((48 <=? nat_of_ascii c) && (nat_of_ascii c <=? 57))%nat
  | String c r => ((48 <=? nat_of_ascii c) && (nat_of_ascii c <=? 57))%nat && all_digits_then_M r
  end.
Definition mux_shaped (s : string) : bool :=
  match s with
  | String c EmptyString => Nat.eqb (nat_of_ascii c) 77
  | String c (String d r) => Nat.eqb (nat_of_ascii c) 109 && ((48 <=? nat_of_ascii d) && (nat_of_ascii d <=? 57))%nat && all_digits_then_M (String d r)
  | _ => false
  end.
Definition ident_ok (s : string) : Prop :=
  let c := clear s in
  match c with String a _ => is_letter a = true | EmptyString => False end /\
  all_chars is_ident_char c = true /\ ~ In c dbc_keywords /\ mux_shaped c = false.
Definition text_ok (s : string) : Prop := all_chars (fun c => negb (Nat.eqb (nat_of_ascii c) 34)) s = true.

Definition well_known_names : list string :=
  ["GenMsgCycleTime"; "GenMsgDelayTime"; "GenMsgStartDelayTime"; "GenMsgSendType"; "GenSigStartValue"; "GenSigSendType"]%string.

Definition asgs_ok (l : list attr_asg) : Prop :=
  NoDup (map (fun a => clear (aa_name a)) l) /\
  Forall (fun a => wf_asg a /\ all_chars (fun c => negb (is_space c)) (clear (aa_name a)) = true /\
                   clear (aa_name a) <> EmptyString /\ text_ok (clear (aa_name a)) /\
                   ~ In (clear (aa_name a)) well_known_names /\
                   match aa_def a with DefString d => text_ok d | DefEnum _ vs => Forall text_ok vs | _ => True end /\
                   match aa_val a with ValString v => text_ok v | _ => True end) l.

(* every assignment of one attribute name in the bus carries the same definition *)
Definition all_asgs (b : bus) : list attr_asg :=
  b_attrs b ++ flat_map n_attrs (b_nodes b)
  ++ flat_map (fun m => m_attrs m ++ flat_map s_attrs (m_signals m)) (b_messages b).

Definition children_of (sigs : list signal) (p : signal) : list signal :=
  filter (fun c => match s_parent c with Some q => q =? s_id p | None => false end) sigs.
Definition disjoint_in (es : list enum_def) (limit : Z) (l : list signal) : Prop :=
  Forall (fun s => 0 <= s_rel s /\ s_rel s + sig_size es s <= limit) l /\
  forall i j a c, i <> j -> nth_error l i = Some a -> nth_error l j = Some c ->
     overlaps (s_rel a) (s_rel a + sig_size es a) (s_rel c) (s_rel c + sig_size es c) = false.

Definition signals_wf (es : list enum_def) (msize : Z) (sigs : list signal) : Prop :=
  NoDup (map s_id sigs) /\
  (* the parent relation is a forest of multiplexers *)
  (exists depth : signal -> nat, forall c p, In c sigs -> s_parent c = Some (s_id p) -> In p sigs ->
       s_kind p = KMux /\ (depth p < depth c)%nat) /\
  (forall c q, In c sigs -> s_parent c = Some q -> exists p, find_sig sigs q = Some p /\ In p sigs) /\
  disjoint_in es (msize * 8) (filter (fun s => match s_parent s with None => true | _ => false end) sigs) /\
  Forall (fun s =>
    fl_canonical (s_startval s) /\ 0 <= s_sendtype s < 8 /\ asgs_ok (s_attrs s) /\ text_ok (s_desc s) /\
    (s_parent s = None -> s_groups s = []) /\
    match s_kind s with
    | KStandard => 0 < s_size s <= 64 /\ fl_canonical (s_scale s) /\ fl_canonical (s_offset s) /\
                   fl_canonical (s_min s) /\ fl_canonical (s_max s) /\ text_ok (s_unit s)
    | KEnum => 0 <= s_enum s < Z.of_nat (length es) /\ enum_size (nth_enum es (s_enum s)) <= 64
    | KMux => 1 <= s_gcount s <= 2 ^ 16 /\ 1 <= s_gsize s /\
              forall g, 0 <= g < s_gcount s ->
                disjoint_in es (s_gsize s) (filter (fun c => in_group c g) (children_of sigs s))
    end /\
    (forall p, s_parent s = Some (s_id p) -> In p sigs ->
       ascending (-1) (s_groups s) /\ forall g, In g (s_groups s) -> g < s_gcount p)) sigs.

Definition well_formed (b : bus) : Prop :=
  (length (b_nodes b) <= 1024)%nat /\ text_ok (b_desc b) /\ asgs_ok (b_attrs b) /\
  Forall (fun n => text_ok (n_desc n) /\ asgs_ok (n_attrs n)) (b_nodes b) /\
  Forall (fun e => en_minsize e >= 0 /\ NoDup (map fst (en_values e)) /\ NoDup (map snd (en_values e)) /\
                   Forall (fun v => 0 <= fst v < 2 ^ 32 /\ fst v <= en_maxindex e /\ text_ok (snd v)) (en_values e) /\
                   (en_values e = [] -> en_maxindex e = 0) /\
                   (en_values e <> [] -> In (en_maxindex e) (map fst (en_values e)))) (b_enums b) /\
  NoDup (map m_canid (b_messages b)) /\
  flat_map (fun n => filter (fun m => String.eqb (m_sender m) (n_name n)) (b_messages b)) (b_nodes b) = b_messages b /\
  (forall a c, In a (all_asgs b) -> In c (all_asgs b) -> clear (aa_name a) = clear (aa_name c) -> aa_def a = aa_def c) /\
  Forall (fun m =>
    0 <= m_canid m < 2 ^ 32 /\ 0 <= m_size m <= 8 /\ 0 <= m_sendtype m < 5 /\ text_ok (m_desc m) /\ asgs_ok (m_attrs m) /\
    In (m_sender m) (map n_name (b_nodes b)) /\ incl (m_receivers m) (map n_name (b_nodes b)) /\
    NoDup (m_receivers m) /\ (m_signals m = [] -> m_receivers m = []) /\
    signals_wf (b_enums b) (m_size m) (m_signals m)) (b_messages b).

Definition names_ok (b : bus) : Prop :=
  Forall (fun n => ident_ok (n_name n)) (b_nodes b) /\
  NoDup (map (fun n => clear (n_name n)) (b_nodes b)) /\
  ~ In dummy_node (map (fun n => clear (n_name n)) (b_nodes b)) /\
  Forall (fun e => ident_ok (en_name e)) (b_enums b) /\
  NoDup (map (fun m => (clear (m_sender m), clear (m_name m))) (b_messages b)) /\
  Forall (fun m => ident_ok (m_name m) /\ Forall (fun s => ident_ok (s_name s)) (m_signals m) /\
                   NoDup (map (fun s => clear (s_name s)) (m_signals m))) (b_messages b).

Definition export_import_full_statement : Prop :=
  forall b, well_formed b -> names_ok b ->
  exists b', export_import b = Ok b' /\ proj_bus b' = proj_bus b.

(* ------------------------------------------------------------------------------------------
   the hypothesis of the plain theorem is satisfiable: two nodes (one with a blank in its name), a
   big-endian message with two signals (one narrower than a byte, one crossing a byte boundary)
   and a receiver, a message without signals
   ------------------------------------------------------------------------------------------ *)
Local Open Scope string_scope.
Definition example_bus : bus :=
  mkbus "bus" "" []
    [mknode "ECU 1" 3 "" []; mknode "GW" 7 "" []] []
    [ mkmessage 256 "engine status" 2 BigEndian 0 0 0 0 "ECU 1" ["GW"] "" []
        [ mksignal 0 "st" KStandard 0 None [] 2 false fl_one fl_zero fl_zero (mkfl 3 0) "" 0 0 0 "" fl_zero 0 [];
          mksignal 1 "speed x" KStandard 4 None [] 10 true (mkfl 1 (-1)) fl_zero fl_zero (mkfl 1023 (-1)) "km/h" 0 0 0 "" fl_zero 0 [] ];
      mkmessage 512 "empty" 1 LittleEndian 0 0 0 0 "GW" [] "" [] [] ].

Ltac nodup_tac := vm_compute; repeat constructor; cbn; intuition discriminate.
Ltac plain_sig_tac := unfold plain_signal; cbn; repeat split; try reflexivity; try lia.

Ltac fin_tac :=
  match goal with
  | |- _ <= _ => cbn; lia
  | |- _ < _ => cbn; lia
  | |- Forall plain_signal _ => repeat (constructor; [plain_sig_tac|]); constructor
  | |- NoDup _ => nodup_tac
  | |- In _ _ => cbn; auto
  | |- incl _ _ => let x := fresh in let Hx := fresh in intros x Hx; cbn in Hx; cbn; intuition
  | |- True => exact I
  | |- _ = [] -> _ => let Hx := fresh in intros Hx; first [discriminate | reflexivity]
  | |- _ => cbn; lia
  end.

Example example_bus_plain : plain_bus example_bus.
Proof.
  unfold plain_bus, example_bus. cbn [b_desc b_attrs b_nodes b_messages map n_name n_desc n_attrs length].
  repeat split; try reflexivity; try lia.
  - repeat constructor.
  - nodup_tac.
  - vm_compute. intuition discriminate.
  - constructor; [|constructor; [|constructor]];
      unfold plain_message;
      cbn [m_desc m_attrs m_cycle m_delay m_startdelay m_sendtype m_canid m_size m_signals m_sender m_receivers];
      repeat split; try reflexivity; fin_tac.
  - nodup_tac.
  - nodup_tac.
Qed.

Example example_bus_roundtrip :
  exists b', export_import example_bus = Ok b' /\ proj_bus b' = proj_bus example_bus /\
             map (fun m => map (fun s => (s_name s, s_rel s)) (m_signals m)) (b_messages b')
             = [[("st", 0); ("speed_x", 4)]; []].
Proof. eexists. split; [vm_compute; reflexivity|]. split; vm_compute; reflexivity. Qed.
