(* C11 — ONE whole-bus theorem for the union of the fragments: standard and enum signals, descriptions,
   attribute assignments of the four types (and hex) on bus, nodes, messages and signals together with the
   six dedicated fields, and per message any number of top-level multiplexers (standard or enum children in one group, several
   groups or fixed) whose message may carry attributes on every signal, the multiplexers and their children included.
   Structure: RoundTripMux on the stripped bus; attribute layer: RoundTripAttr's, with the signals of a
   message located by name / id instead of by position (the importer re-orders the signals of a message that
   holds a multiplexer). *)
From Coq Require Import String Ascii ZArith List Bool Lia Permutation.
From Coq Require Import ZifyBool.
From Acme.C10 Require Import DbcDoc BusModel Import Export Bits.
From Acme.C10 Require Proofs ProofsEnum ProofsLayout ProofsFaithful ProofsIds ProofsMux.
From Acme.C11 Require Import Strings Proofs RoundTrip RoundTripEnum RoundTripAttr RoundTripMux.
Import ListNotations.
Open Scope Z_scope.

(* ---------------- the assignments in export order (RoundTripMux.SX) ---------------- *)
Definition TM_msg (m : message) : list tasg :=
  map (mktasg OMessage EmptyString (u32 (m_canid m)) EmptyString) (sort_attrs (m_attrs m) ++ wk_msg m)
  ++ flat_map (T_sig (u32 (m_canid m))) (SX m).
Definition TM_node (b : bus) (n : node) : list tasg :=
  map (mktasg ONode (clear (n_name n)) 0 EmptyString) (sort_attrs (n_attrs n))
  ++ flat_map TM_msg (filter (fun m => String.eqb (m_sender m) (n_name n)) (b_messages b)).
Definition TM_bus (b : bus) : list tasg :=
  map (mktasg OGeneral EmptyString 0 EmptyString) (sort_attrs (b_attrs b)) ++ flat_map (TM_node b) (b_nodes b).

(* ---------------- structure of the unstripped signals, from the stripped message ---------------- *)
Section StripFacts.
  Variables (es : list enum_def) (names : list string) (m : message).
  Hypothesis Hmm : mmessage es names (strip_msg m).
  Let sigs := m_signals m.
  Let Hms : msigs_ok es (map strip_sig sigs).
  Proof. destruct Hmm as [_ [_ [_ [_ [_ [_ [_ [H _]]]]]]]]. exact H. Qed.

  Lemma ids_nodup : NoDup (map s_id sigs).
  Proof. destruct Hms as [H _]. rewrite map_map in H. exact H. Qed.
  Lemma names_nodup : NoDup (map (fun s => clear (s_name s)) sigs).
  Proof. destruct Hms as [_ [H _]]. rewrite map_map in H. exact H. Qed.

  Lemma top_strip : forall t, In t sigs -> is_topb t = true -> top_ok es (strip_sig t).
  Proof.
    intros t Ht Htt. destruct Hms as [_ [_ [Htops _]]]. rewrite Forall_forall in Htops. apply Htops.
    apply filter_In. split; [apply in_map; assumption|exact Htt].
  Qed.

  Lemma child_strip : forall c, In c sigs -> is_topb c = false ->
    exists mx, In mx sigs /\ is_topb mx = true /\ is_muxb mx = true /\ child_ok es (strip_sig mx) (strip_sig c).
  Proof.
    intros c Hc Hct. destruct Hms as [_ [_ [_ [_ [Hch _]]]]].
    destruct (Hch (strip_sig c) (in_map strip_sig _ _ Hc) Hct) as [mx' [Hmx' [Ht [Hm Hok]]]].
    apply in_map_iff in Hmx'. destruct Hmx' as [mx [<- Hmx]]. exists mx. auto.
  Qed.

  Lemma kids_strip : forall mx, In mx sigs -> is_muxb mx = true ->
    Forall (fun c => child_ok es (strip_sig mx) (strip_sig c)) (children sigs mx) /\
    NoDup (map (fun c => clear (s_name c)) (children sigs mx)).
  Proof.
    intros mx Hmx Hm. split.
    - apply Forall_forall. intros c Hc. unfold children in Hc. apply Proofs.In_sort_by in Hc. apply filter_In in Hc. destruct Hc as [Hc Hp].
      destruct (s_parent c) as [q|] eqn:Ep; [|discriminate].
      destruct (child_strip c Hc ltac:(unfold is_topb; rewrite Ep; reflexivity)) as [mx' [Hmx' [_ [Hm' Hok]]]].
      assert (mx = mx').
      { apply (NoDup_map_inj s_id sigs); [exact ids_nodup|assumption|assumption|]. destruct Hok as [_ [Hpar _]]. cbn [s_parent s_id strip_sig] in Hpar.
        rewrite Ep in Hpar. apply Z.eqb_eq in Hp. inversion Hpar. congruence. }
      subst mx'. exact Hok.
    - eapply Permutation_NoDup; [apply Permutation_map; apply sort_by_perm|]. apply NoDup_map_filter. exact names_nodup.
  Qed.
End StripFacts.

(* ---------------- the exporter with attribute accumulators, multiplexer included ---------------- *)
Definition gacx (cms : list dcomment) (vs : list dvalenc) (xs : list dextmux) (msgs : list dmessage) (sigs : list dsignal) (L : list Z) (A : eacc) : eacc :=
  mkeacc cms (ea_attrs A) (ea_attrdefs A) (ea_attrvals A) vs xs msgs sigs (ea_names A) L.

Lemma asgs_gacx : forall k n mi sg l cms vs xs msgs sigs L A,
  fold_left (fun a x => export_assignment k n mi sg x a) l (gacx cms vs xs msgs sigs L A)
  = gacx cms vs xs msgs sigs L (fold_left exp_t (map (mktasg k n mi sg) l) A).
Proof.
  intros. change (gacx cms vs xs msgs sigs L A) with (with_ext xs (gacc cms vs msgs sigs L A)).
  rewrite fold_assignment_ext, asgs_gacc. reflexivity.
Qed.

Lemma export_signal_gx : forall es sigs order msgid recs many fuel s cms vs xs msgs sg L A,
  esig_ok es (strip_sig s) ->
  export_signal es sigs order msgid recs many fuel s (gacx cms vs xs msgs sg L A)
  = gacx (cms ++ sig_cms msgid s) (vs ++ venc_e es msgid s) xs msgs (sg ++ [dsig_e es order recs s]) (enums_step L s)
         (fold_left exp_t (T_sig msgid s) A).
Proof.
  intros es sigs order msgid recs many fuel s cms vs xs msgs sg L A Hok.
  change (gacx cms vs xs msgs sg L A) with (with_ext xs (gacc cms vs msgs sg L A)).
  rewrite export_signal_ext.
  - rewrite export_signal_g by assumption. reflexivity.
  - destruct Hok as [_ [_ [_ [_ [_ [_ Hk]]]]]]. cbn [s_kind strip_sig] in Hk. intros E. rewrite E in Hk. exact Hk.
Qed.

Section GWalk.
  Variables (es : list enum_def) (sigs : list signal) (order : byte_order) (msgid : Z) (recs : list string) (many : bool).
  Variable mx : signal.
  Hypothesis Hids : NoDup (map s_id sigs).
  Hypothesis Hmx : In mx sigs.
  Hypothesis Hpm : s_parent mx = None.
  Let K := children sigs mx.
  Hypothesis HK : Forall (fun c => child_ok es (strip_sig mx) (strip_sig c)) K.

  Lemma export_child_g : forall fuel c cms vs xs msgs sg L A,
    child_ok es (strip_sig mx) (strip_sig c) ->
    export_signal es sigs order msgid recs many fuel c (gacx cms vs xs msgs sg L A)
    = gacx (cms ++ sig_cms msgid c) (vs ++ venc_e es msgid c) xs msgs (sg ++ [child_dsig es order recs mx 0 c]) (enums_step L c)
           (fold_left exp_t (T_sig msgid c) A).
  Proof.
    intros fuel c cms vs xs msgs sg L A [Hk [Hp _]]. cbn [s_kind s_parent strip_sig s_id] in Hk, Hp.
    assert (Habs : abs_start (length sigs) sigs c = s_rel mx + sel_width mx + s_rel c).
    { destruct sigs as [|x r] eqn:Es; [destruct Hmx|]. rewrite <- Es in *.
      replace (length sigs) with (S (length r)) by (rewrite Es; reflexivity).
      cbn [abs_start]. rewrite Hp, (ProofsIds.find_sig_unique sigs mx Hids Hmx), abs_start_top by assumption. reflexivity. }
    unfold sig_cms, opt_cm, venc_e, child_dsig, enums_step, e_of, T_sig, wk_sig.
    assert (Hcm : forall x, add_comment x (gacx cms vs xs msgs sg L A) = gacx (cms ++ [x]) vs xs msgs sg L A) by reflexivity.
    destruct fuel; cbn [export_signal]; rewrite Hp, Habs;
      (destruct (String.eqb (s_desc c) EmptyString); [|rewrite Hcm]; rewrite asgs_gacx;
       destruct (s_kind c); try (exfalso; apply Hk; reflexivity); cbn [app]; rewrite ?app_nil_r; reflexivity).
  Qed.

  (* the first-visit steps of the group walk, on the accumulator with attributes *)
  Lemma xsteps_gacx : forall k ids cms vs xs msgs sg L A,
    fold_left (xstep es sigs order msgid recs many k) (wpairs sigs mx ids) (gacx cms vs xs msgs sg L A)
    = gacx (cms ++ flat_map (sig_cms msgid) (wall sigs mx ids)) (vs ++ flat_map (venc_e es msgid) (wall sigs mx ids)) xs msgs
           (sg ++ wsigs es sigs order recs mx ids) (fold_left enums_step (wall sigs mx ids) L)
           (fold_left exp_t (flat_map (T_sig msgid) (wall sigs mx ids)) A).
  Proof.
    intros k ids. induction ids as [|id r IH]; intros cms vs xs msgs sg L A; cbn [wpairs wall wsigs flat_map fold_left].
    - rewrite !app_nil_r. reflexivity.
    - rewrite fold_left_app.
      assert (G : forall l cms vs sg L A, (forall c, In c l -> child_ok es (strip_sig mx) (strip_sig c)) ->
                fold_left (xstep es sigs order msgid recs many k) (map (pair id) l) (gacx cms vs xs msgs sg L A)
                = gacx (cms ++ flat_map (sig_cms msgid) l) (vs ++ flat_map (venc_e es msgid) l) xs msgs
                       (sg ++ map (child_dsig es order recs mx (u32 id)) l) (fold_left enums_step l L)
                       (fold_left exp_t (flat_map (T_sig msgid) l) A)).
      { induction l as [|c q IHl]; intros cms0 vs0 sg0 L0 A0 Hl; cbn [map fold_left flat_map]; [rewrite !app_nil_r; reflexivity|].
        unfold xstep at 2. cbn [fst snd]. rewrite (export_child_g k c) by (apply Hl; left; reflexivity).
        replace (set_sigs (set_last_switch (u32 id) (ea_sigs (gacx (cms0 ++ sig_cms msgid c) (vs0 ++ venc_e es msgid c) xs msgs (sg0 ++ [child_dsig es order recs mx 0 c]) (enums_step L0 c) (fold_left exp_t (T_sig msgid c) A0))))
                          (gacx (cms0 ++ sig_cms msgid c) (vs0 ++ venc_e es msgid c) xs msgs (sg0 ++ [child_dsig es order recs mx 0 c]) (enums_step L0 c) (fold_left exp_t (T_sig msgid c) A0)))
          with (gacx (cms0 ++ sig_cms msgid c) (vs0 ++ venc_e es msgid c) xs msgs (sg0 ++ [child_dsig es order recs mx (u32 id) c]) (enums_step L0 c) (fold_left exp_t (T_sig msgid c) A0))
          by (unfold gacx, set_sigs; cbn [ea_sigs ea_comments ea_attrs ea_attrdefs ea_attrvals ea_valencs ea_extmuxes ea_messages ea_names ea_enums];
              rewrite set_last_switch_snoc, child_dsig_switch; reflexivity).
        rewrite IHl by (intros c' Hc'; apply Hl; right; assumption). rewrite fold_left_app, <- !app_assoc. reflexivity. }
      rewrite G by (intros c Hc; apply filter_In in Hc; rewrite Forall_forall in HK; apply HK; tauto).
      rewrite IH. rewrite !flat_map_app, !fold_left_app, <- !app_assoc. reflexivity.
  Qed.
End GWalk.

Lemma export_top_g : forall es sigs order msgid recs many k s cms vs xs msgs sg L A,
  NoDup (map s_id sigs) -> In s sigs -> top_ok es (strip_sig s) ->
  (is_muxb s = true -> Forall (fun c => child_ok es (strip_sig s) (strip_sig c)) (children sigs s) /\
                       NoDup (map (fun c => clear (s_name c)) (children sigs s))) ->
  export_signal es sigs order msgid recs many (S k) s (gacx cms vs xs msgs sg L A)
  = gacx (cms ++ flat_map (sig_cms msgid) (tx sigs s)) (vs ++ flat_map (venc_e es msgid) (tx sigs s)) (xs ++ texts many msgid sigs s) msgs
         (sg ++ tdsigs es sigs order recs s) (fold_left enums_step (tx sigs s) L)
         (fold_left exp_t (flat_map (T_sig msgid) (tx sigs s)) A).
Proof.
  intros es sigs order msgid recs many k s cms vs xs msgs sg L A Hids Hin Htop Hkids.
  destruct Htop as [Hp [Hg [_ [_ [_ [Hr Hm]]]]]]. cbn [s_parent s_groups s_rel s_kind strip_sig s_size s_gcount s_gsize] in Hp, Hg, Hr, Hm.
  destruct (s_kind s) eqn:Ek.
  - unfold tdsigs, tx, texts, is_muxb. rewrite Ek. cbn [flat_map fold_left]. rewrite !app_nil_r. apply export_signal_gx.
    unfold esig_ok. cbn [s_parent s_groups s_startval s_sendtype s_attrs s_rel s_kind strip_sig s_size]. rewrite Ek. auto 10.
  - unfold tdsigs, tx, texts, is_muxb. rewrite Ek. cbn [flat_map fold_left]. rewrite !app_nil_r. apply export_signal_gx.
    unfold esig_ok. cbn [s_parent s_groups s_startval s_sendtype s_attrs s_rel s_kind strip_sig s_size]. rewrite Ek. auto 10.
  - destruct Hm as [[Hg1 Hg2] Hgs].
    destruct (Hkids ltac:(unfold is_muxb; rewrite Ek; reflexivity)) as [HK HKn].
    (* the group walk does not look at attributes: its facts come from the stripped children *)
    assert (HKg : Forall (gok s) (children sigs s)).
    { eapply Forall_impl; [|exact HK]. intros c Hc. exact (child_gok es (strip_sig s) (strip_sig c) Hc). }
    unfold tdsigs, tx, texts, is_muxb. rewrite Ek. cbn [flat_map fold_left].
    unfold sig_cms at 1, opt_cm, venc_e at 1, enums_step at 2. rewrite Ek. cbn [app].
    cbn [export_signal]. rewrite Hp, Ek.
    rewrite abs_start_top by assumption.
    assert (Hcm : (if String.eqb (s_desc s) EmptyString then gacx cms vs xs msgs sg L A
                   else add_comment (mkdcomment OSignal (s_desc s) EmptyString msgid (clear (s_name s))) (gacx cms vs xs msgs sg L A))
                  = gacx (cms ++ (if String.eqb (s_desc s) EmptyString then [] else [mkdcomment OSignal (s_desc s) EmptyString msgid (clear (s_name s))])) vs xs msgs sg L A).
    { destruct (String.eqb (s_desc s) EmptyString); [rewrite app_nil_r|]; reflexivity. }
    rewrite Hcm. fold (wk_sig s). rewrite asgs_gacx. fold (T_sig msgid s).
    change (add_sig ?d (gacx ?c ?v ?x ?m ?g ?l ?a)) with (gacx c v x m (g ++ [d]) l a).
    set (cms1 := cms ++ (if String.eqb (s_desc s) EmptyString then [] else [mkdcomment OSignal (s_desc s) EmptyString msgid (clear (s_name s))])).
    destruct (walk_outer es sigs order msgid recs many s Hg1 HKg HKn k (Z.to_nat (s_gcount s)) 0
                (gacx cms1 vs xs msgs (sg ++ [mux_dsig order recs s]) L (fold_left exp_t (T_sig msgid s) A)) [] [] many false ltac:(lia) ltac:(lia)) as [gmap' [E EG]].
    { intros c _. cbn. reflexivity. }
    match goal with |- context[fold_left ?f (zrange 0 ?n) ?init] =>
      replace (fold_left f (zrange 0 n) init) with
        (fold_left (xstep es sigs order msgid recs many k) (wpairs sigs s (zrange 0 (Z.to_nat (s_gcount s))))
                   (gacx cms1 vs xs msgs (sg ++ [mux_dsig order recs s]) L (fold_left exp_t (T_sig msgid s) A)),
         [] ++ map (fun c => clear (s_name c)) (wall sigs s (zrange 0 (Z.to_nat (s_gcount s)))), gmap', many,
         false || existsb (fun id => existsb (fun c => in_group c id && negb (id =? grp c)) (children sigs s)) (zrange 0 (Z.to_nat (s_gcount s))))
        by (symmetry; exact E) end.
    cbn [orb app].
    rewrite (xsteps_gacx es sigs order msgid recs many s Hids Hin Hp HK).
    set (W := wall sigs s (zrange 0 (Z.to_nat (s_gcount s)))).
    assert (HW : forall c, In c W -> In c (children sigs s)).
    { intros c Hc. unfold W, wall in Hc. apply in_flat_map in Hc. destruct Hc as [id [_ Hc]]. apply filter_In in Hc. tauto. }
    assert (HGm : forall c, In c W -> lookup String.eqb (clear (s_name c)) gmap' = Some (mem_of (s_gcount s) c)).
    { intros c Hc. rewrite (EG c (HW c Hc)). rewrite Forall_forall in HKg. rewrite (vis_all s c (HKg c (HW c Hc)) Hg1).
      pose proof (mem_of_nonempty s c (HKg c (HW c Hc))) as Hne. destruct (mem_of (s_gcount s) c); [contradiction|reflexivity]. }
    assert (Hfin : forall acc,
      (if negb (existsb (fun id => existsb (fun c => in_group c id && negb (id =? grp c)) (children sigs s)) (zrange 0 (Z.to_nat (s_gcount s)))) && negb many
       then acc
       else fold_left (fun acc cn0 =>
              let g := match lookup String.eqb cn0 gmap' with Some g => g | None => [] end in
              if negb many && Nat.eqb (length g) 1 then acc
              else add_extmux (mkdextmux msgid (clear (s_name s)) cn0 (ranges_of g)) acc) (map (fun c => clear (s_name c)) W) acc)
      = fold_left (fun a e => add_extmux e a) (flat_map (ext_of msgid s many) W) acc).
    { intros acc. destruct many.
      - rewrite andb_false_r. apply (ext_fold msgid s true gmap' W acc HGm).
      - destruct (existsb _ (zrange 0 (Z.to_nat (s_gcount s)))) eqn:Ee; cbn [negb andb].
        + apply (ext_fold msgid s false gmap' W acc HGm).
        + replace (flat_map (ext_of msgid s false) W) with (@nil dextmux); [reflexivity|].
          symmetry. clear HGm. induction W as [|c r IHW]; [reflexivity|]. cbn [flat_map].
          rewrite (no_revisit sigs msgid s Hg1 HKg Ee c (HW c (or_introl eq_refl))). apply IHW. intros x Hx. apply HW. right. assumption. }
    rewrite Hfin.
    change (gacx ?c ?v xs ?m ?g ?l ?a) with (with_ext xs (gacx c v [] m g l a)). rewrite fold_add_extmux.
    unfold with_ext, gacx, cms1, W. cbn [ea_comments ea_attrs ea_attrdefs ea_attrvals ea_valencs ea_messages ea_sigs ea_names ea_enums].
    unfold walk_of. rewrite fold_left_app, <- !app_assoc. reflexivity.
Qed.

Lemma export_tops_g : forall es sigs order msgid recs many k l cms vs xs msgs sg L A,
  NoDup (map s_id sigs) ->
  (forall s, In s l -> In s sigs /\ top_ok es (strip_sig s) /\
     (is_muxb s = true -> Forall (fun c => child_ok es (strip_sig s) (strip_sig c)) (children sigs s) /\
                          NoDup (map (fun c => clear (s_name c)) (children sigs s)))) ->
  fold_left (fun a s => export_signal es sigs order msgid recs many (S k) s a) l (gacx cms vs xs msgs sg L A)
  = gacx (cms ++ flat_map (sig_cms msgid) (flat_map (tx sigs) l)) (vs ++ flat_map (venc_e es msgid) (flat_map (tx sigs) l))
         (xs ++ flat_map (texts many msgid sigs) l) msgs
         (sg ++ flat_map (tdsigs es sigs order recs) l) (fold_left enums_step (flat_map (tx sigs) l) L)
         (fold_left exp_t (flat_map (T_sig msgid) (flat_map (tx sigs) l)) A).
Proof.
  intros es sigs order msgid recs many k l. induction l as [|s r IH]; intros cms vs xs msgs sg L A Hids H; cbn [fold_left flat_map].
  - rewrite !app_nil_r. reflexivity.
  - destruct (H s (or_introl eq_refl)) as [H1 [H2 H3]]. rewrite export_top_g by assumption.
    rewrite IH by (try assumption; intros x Hx; apply H; right; assumption).
    rewrite !flat_map_app, !fold_left_app, <- !app_assoc. reflexivity.
Qed.

(* ---------------- stripping commutes with what the exporter computes from the signal list ---------------- *)
Lemma filter_map_comm : forall {A B} (f : A -> B) (p : B -> bool) l, filter p (map f l) = map f (filter (fun x => p (f x)) l).
Proof. intros A B f p l. induction l as [|x r IH]; [reflexivity|]. cbn [map filter]. destruct (p (f x)); cbn [map]; rewrite IH; reflexivity. Qed.

Lemma insert_sorted_map : forall {A B} (f : A -> B) (ltb : B -> B -> bool) x l,
  insert_sorted ltb (f x) (map f l) = map f (insert_sorted (fun a b => ltb (f a) (f b)) x l).
Proof.
  intros A B f ltb x l. induction l as [|y r IH]; [reflexivity|]. cbn [map insert_sorted].
  destruct (ltb (f y) (f x)); cbn [map]; [rewrite IH|]; reflexivity.
Qed.
Lemma sort_by_map : forall {A B} (f : A -> B) (ltb : B -> B -> bool) l,
  sort_by ltb (map f l) = map f (sort_by (fun a b => ltb (f a) (f b)) l).
Proof.
  intros A B f ltb l. induction l as [|x r IH]; [reflexivity|]. cbn [map sort_by fold_right].
  fold (sort_by ltb (map f r)). fold (sort_by (fun a b => ltb (f a) (f b)) r). rewrite IH. apply insert_sorted_map.
Qed.

Lemma children_strip : forall sigs t, children (map strip_sig sigs) (strip_sig t) = map strip_sig (children sigs t).
Proof. intros sigs t. unfold children. rewrite filter_map_comm, sort_by_map. reflexivity. Qed.

Lemma child_dsig_strip : forall es o recs mx g c,
  child_dsig es o recs (strip_sig mx) g (strip_sig c) = child_dsig es o recs mx g c.
Proof. intros. reflexivity. Qed.

Lemma tdsigs_strip : forall es sigs o recs t,
  tdsigs es (map strip_sig sigs) o recs (strip_sig t) = tdsigs es sigs o recs t.
Proof.
  intros es sigs o recs t. unfold tdsigs. cbn [s_kind strip_sig]. destruct (s_kind t); try reflexivity.
  f_equal. unfold wsigs. cbn [s_gcount strip_sig]. apply flat_map_ext_in_simple. intros id _.
  rewrite children_strip, filter_map_comm, map_map. reflexivity.
Qed.

Lemma dmsg_m_strip : forall es m, dmsg_m es (strip_msg m) = dmsg_m es m.
Proof.
  intros es m. unfold dmsg_m. cbn [m_canid m_name m_size m_sender m_order m_signals strip_msg]. f_equal.
  replace (recs_out (strip_msg m)) with (recs_out m) by reflexivity.
  rewrite filter_map_comm. change (fun x => is_topb (strip_sig x)) with is_topb.
  induction (filter is_topb (m_signals m)) as [|t r IH]; [reflexivity|]. cbn [map flat_map]. rewrite IH, tdsigs_strip. reflexivity.
Qed.

Lemma export_message_mg : forall names es m cms vs xs msgs sigs0 L A,
  mmessage es names (strip_msg m) ->
  export_message es m (gacx cms vs xs msgs sigs0 L A)
  = gacx (cms ++ msg_cms (xmsg m)) (vs ++ msg_vencs es (xmsg m)) (xs ++ msg_exts m) (msgs ++ [dmsg_m es m]) [] (fold_left enums_step (SX m) L)
         (fold_left exp_t (TM_msg m) A).
Proof.
  intros names es m cms vs xs msgs sigs0 L A Hmm.
  pose proof Hmm as [_ [_ [_ [_ [_ [Hid [Hsz [Hms [Hlay _]]]]]]]]].
  cbn [m_canid m_size m_signals strip_msg] in Hid, Hsz, Hms, Hlay.
  unfold export_message. cbv zeta.
  change (filter (fun s => match s_parent s with None => true | Some _ => false end) (m_signals m)) with (filter is_topb (m_signals m)).
  assert (Htops : forall t, In t (filter is_topb (m_signals m)) -> In t (m_signals m) /\ top_ok es (strip_sig t) /\
             (is_muxb t = true -> Forall (fun c => child_ok es (strip_sig t) (strip_sig c)) (children (m_signals m) t) /\
                                  NoDup (map (fun c => clear (s_name c)) (children (m_signals m) t)))).
  { intros t Ht. apply filter_In in Ht. destruct Ht as [Ht Htt]. split; [assumption|]. split; [apply (top_strip es names m Hmm t Ht Htt)|].
    intros Hm. apply (kids_strip es names m Hmm t Ht Hm). }
  assert (Hasc : ascending_by s_rel (filter is_topb (m_signals m))).
  { rewrite filter_map_comm in Hlay. change (fun x => is_topb (strip_sig x)) with is_topb in Hlay.
    assert (G : forall l from lim, (forall t, In t l -> top_ok es (strip_sig t)) -> layout_e es from lim (map strip_sig l) -> ascending_by s_rel l).
    { induction l as [|t r IH]; intros from lim Hl H; [exact I|]. cbn [map layout_e] in H. destruct H as [H1 [H2 H3]].
      split; [|eapply IH; [intros x Hx; apply Hl; right; assumption|exact H3]].
      destruct r as [|y q]; [exact I|]. cbn [map layout_e] in H3. destruct H3 as [H3 _].
      pose proof (top_size_pos es (strip_sig t) (Hl t (or_introl eq_refl))) as Hpos. cbn [s_rel strip_sig] in *. lia. }
    eapply G; [|exact Hlay]. intros t Ht. apply Htops. assumption. }
  rewrite (sort_by_ascending s_rel) by exact Hasc.
  fold (many_of (m_signals m)).
  assert (Hacc : (if String.eqb (m_desc m) EmptyString then gacx cms vs xs msgs sigs0 L A
                    else add_comment (mkdcomment OMessage (m_desc m) EmptyString (u32 (m_canid m)) EmptyString) (gacx cms vs xs msgs sigs0 L A))
                 = gacx (cms ++ opt_cm (m_desc m) (mkdcomment OMessage (m_desc m) EmptyString (u32 (m_canid m)) EmptyString)) vs xs msgs sigs0 L A).
  { unfold opt_cm. destruct (String.eqb (m_desc m) EmptyString); [rewrite app_nil_r|]; reflexivity. }
  rewrite Hacc. fold (wk_msg m). rewrite asgs_gacx.
  change (set_sigs [] (gacx ?c ?v ?x ?ms ?sg ?l ?a)) with (gacx c v x ms [] l a).
  unfold msg_cms, msg_vencs, msg_exts, xmsg. cbn [m_desc m_canid m_signals set_m_signals]. unfold TM_msg, SX.
  destruct (m_signals m) as [|s0 r0] eqn:Es.
  - cbn [filter fold_left length flat_map]. unfold dmsg_m, gacx, add_message. rewrite Es. cbn. rewrite !app_nil_r. reflexivity.
  - rewrite <- Es in *. replace (length (m_signals m)) with (S (length r0)) by (rewrite Es; reflexivity).
    rewrite export_tops_g; [|apply (ids_nodup es names m Hmm)|exact Htops].
    unfold dmsg_m, gacx, add_message. cbn. rewrite fold_left_app, <- ?app_assoc. reflexivity.
Qed.

Lemma export_messages_mg : forall names es l cms vs xs msgs L A,
  Forall (fun m => mmessage es names (strip_msg m)) l ->
  exists L', fold_left (fun a m => export_message es m a) l (gacx cms vs xs msgs [] L A)
  = gacx (cms ++ flat_map msg_cms (map xmsg l)) (vs ++ flat_map (msg_vencs es) (map xmsg l)) (xs ++ flat_map msg_exts l) (msgs ++ map (dmsg_m es) l) [] L'
         (fold_left exp_t (flat_map TM_msg l) A).
Proof.
  intros names es l. induction l as [|m r IH]; intros cms vs xs msgs L A H; cbn [fold_left map flat_map].
  - exists L. rewrite !app_nil_r. reflexivity.
  - inversion H; subst. rewrite (export_message_mg names) by assumption.
    destruct (IH (cms ++ msg_cms (xmsg m)) (vs ++ msg_vencs es (xmsg m)) (xs ++ msg_exts m) (msgs ++ [dmsg_m es m]) (fold_left enums_step (SX m) L)
                 (fold_left exp_t (TM_msg m) A)) as [L' E]; [assumption|].
    exists L'. rewrite E. rewrite fold_left_app, <- !app_assoc. reflexivity.
Qed.

Definition AM_of (b : bus) : eacc := fold_left exp_t (TM_bus b) empty_acc.
Definition amdoc (b : bus) (L : list Z) : doc :=
  mkdoc (b_name b) (map (fun n => clear (n_name n)) (b_nodes b)) (map (table_of (b_enums b)) L)
        (map (dmsg_m (b_enums b)) (b_messages b)) (doc_cms (xbus b))
        (ea_attrs (AM_of b)) (ea_attrdefs (AM_of b)) (ea_attrvals (AM_of b)) (bus_vencs (xbus b)) (bus_exts b).

Lemma strip_msgs_m : forall es names l, Forall (mmessage es names) (map strip_msg l) -> Forall (fun m => mmessage es names (strip_msg m)) l.
Proof. intros es names l H. induction l as [|m r IH]; [constructor|]. cbn [map] in H. inversion H; subst. constructor; auto. Qed.

Lemma export_mg : forall b, grouped b -> mbus (strip_bus b) -> exists L, export b = amdoc b L.
Proof.
  intros b Hg [_ [_ [_ [_ [_ [Hm _]]]]]]. cbn [b_messages b_nodes b_enums strip_bus] in Hm. apply strip_msgs_m in Hm.
  unfold export. cbv zeta.
  assert (Hnodes : forall nodes cms0 vs0 xs0 msgs0 L0 A0,
    exists L1,
    fold_left (fun a n =>
        let name := clear (n_name n) in
        let a := if String.eqb (n_desc n) EmptyString then a
                 else add_comment (mkdcomment ONode (n_desc n) name 0 EmptyString) a in
        let a := fold_left (fun a x => export_assignment ONode name 0 EmptyString x a) (sort_attrs (n_attrs n)) a in
        fold_left (fun a m => export_message (b_enums b) m a)
                  (filter (fun m => String.eqb (m_sender m) (n_name n)) (b_messages b)) a)
      nodes (gacx cms0 vs0 xs0 msgs0 [] L0 A0)
    = gacx (cms0 ++ flat_map (node_cms (xbus b)) nodes)
           (vs0 ++ flat_map (msg_vencs (b_enums b)) (map xmsg (flat_map (fun n => filter (fun m => String.eqb (m_sender m) (n_name n)) (b_messages b)) nodes)))
           (xs0 ++ flat_map msg_exts (flat_map (fun n => filter (fun m => String.eqb (m_sender m) (n_name n)) (b_messages b)) nodes))
           (msgs0 ++ map (dmsg_m (b_enums b)) (flat_map (fun n => filter (fun m => String.eqb (m_sender m) (n_name n)) (b_messages b)) nodes)) [] L1
           (fold_left exp_t (flat_map (TM_node b) nodes) A0)).
  { induction nodes as [|n r IH]; intros cms0 vs0 xs0 msgs0 L0 A0; cbn [fold_left flat_map map].
    - exists L0. rewrite !app_nil_r. reflexivity.
    - assert (Hcm : (if String.eqb (n_desc n) EmptyString then gacx cms0 vs0 xs0 msgs0 [] L0 A0
                     else add_comment (mkdcomment ONode (n_desc n) (clear (n_name n)) 0 EmptyString) (gacx cms0 vs0 xs0 msgs0 [] L0 A0))
                    = gacx (cms0 ++ opt_cm (n_desc n) (mkdcomment ONode (n_desc n) (clear (n_name n)) 0 EmptyString)) vs0 xs0 msgs0 [] L0 A0).
      { unfold opt_cm. destruct (String.eqb (n_desc n) EmptyString); [rewrite app_nil_r; reflexivity|reflexivity]. }
      cbv zeta. rewrite Hcm. rewrite asgs_gacx.
      match goal with |- exists L1, fold_left ?f r (fold_left ?g ?l (gacx ?c ?v ?x ?ms [] ?L ?a)) = _ =>
        destruct (export_messages_mg (map n_name (map strip_node (b_nodes b))) (b_enums b) l c v x ms L a) as [L2 E2]; [apply Forall_filter; assumption|] end.
      rewrite E2.
      match goal with |- exists L1, fold_left ?f r (gacx ?c ?v ?x ?m [] ?l ?a) = _ => destruct (IH c v x m l a) as [L1 E] end.
      exists L1. refine (eq_trans E _). unfold node_cms, TM_node, xbus. cbn [b_messages set_b_messages]. rewrite filter_xmsg.
      rewrite !map_app, !flat_map_app, !fold_left_app, <- !app_assoc. reflexivity. }
  assert (H0 : (if String.eqb (b_desc b) EmptyString then mkeacc [] [] [] [] [] [] [] [] [] []
                else add_comment (mkdcomment OGeneral (b_desc b) EmptyString 0 EmptyString) (mkeacc [] [] [] [] [] [] [] [] [] []))
               = gacx (opt_cm (b_desc b) (mkdcomment OGeneral (b_desc b) EmptyString 0 EmptyString)) [] [] [] [] [] empty_acc).
  { unfold opt_cm. destruct (String.eqb (b_desc b) EmptyString); reflexivity. }
  rewrite H0. rewrite asgs_gacx.
  match goal with |- context[fold_left ?f (b_nodes b) (gacx ?c ?v ?x ?m [] ?l ?a)] => destruct (Hnodes (b_nodes b) c v x m l a) as [L1 E] end.
  exists L1. cbv zeta in E. rewrite E. unfold grouped in Hg. rewrite Hg. unfold amdoc, AM_of, TM_bus, bus_exts. rewrite fold_left_app. cbn. reflexivity.
Qed.

(* export order and stripping commute *)
Lemma walk_of_strip : forall sigs t, walk_of (map strip_sig sigs) (strip_sig t) = map strip_sig (walk_of sigs t).
Proof.
  intros sigs t. unfold walk_of. cbn [s_gcount strip_sig]. rewrite children_strip, map_flat_map.
  apply flat_map_ext_in_simple. intros id _. rewrite filter_map_comm. reflexivity.
Qed.
Lemma SX_strip_msg : forall m, SX (strip_msg m) = map strip_sig (SX m).
Proof.
  intros m. unfold SX. cbn [m_signals strip_msg]. rewrite filter_map_comm. change (fun x => is_topb (strip_sig x)) with is_topb.
  induction (filter is_topb (m_signals m)) as [|t r IH]; [reflexivity|]. cbn [map flat_map]. rewrite map_app, IH. f_equal.
  unfold tx. cbn [map]. change (is_muxb (strip_sig t)) with (is_muxb t). destruct (is_muxb t); [rewrite walk_of_strip|]; reflexivity.
Qed.
(* ---------------- the export order is a permutation of the signals ---------------- *)
Section SXFacts.
  Variables (es : list enum_def) (names : list string) (m : message).
  Hypothesis Hmm : mmessage es names (strip_msg m).
  Let sigs := m_signals m.

  Lemma SX_in : forall s, In s (SX m) -> In s sigs.
  Proof.
    intros s H. unfold SX in H. apply in_flat_map in H. destruct H as [t [Ht Hs]]. apply filter_In in Ht. destruct Ht as [Ht _].
    destruct Hs as [<-|Hs]; [assumption|]. destruct (is_muxb t); [|destruct Hs].
    unfold walk_of in Hs. apply in_flat_map in Hs. destruct Hs as [id [_ Hs]]. apply filter_In in Hs. destruct Hs as [Hs _].
    unfold children in Hs. apply Proofs.In_sort_by in Hs. apply filter_In in Hs. tauto.
  Qed.

  Lemma SX_perm : Permutation sigs (SX m).
  Proof.
    pose proof (ids_nodup es names m Hmm) as Hids. assert (Hnd : NoDup sigs) by (eapply NoDup_map_inv; exact Hids).
    pose proof (SXg_perm es names (strip_msg m) Hmm) as HP. cbn [m_signals strip_msg] in HP. rewrite SX_strip_msg in HP.
    apply NoDup_Permutation; [assumption| |].
    + assert (Hn2 : NoDup (map strip_sig (SX m))).
      { eapply Permutation_NoDup; [exact HP|]. apply (NoDup_map_inv s_id). rewrite map_map. exact Hids. }
      eapply NoDup_map_inv. exact Hn2.
    + intros s. split; [|apply SX_in].
      intros Hs. assert (Hin : In (strip_sig s) (map strip_sig (SX m))) by (eapply Permutation_in; [exact HP|apply in_map; assumption]).
      apply in_map_iff in Hin. destruct Hin as [s2 [E Hs2]].
      assert (s2 = s) by (apply (NoDup_map_inj s_id sigs); [assumption|apply SX_in; assumption|assumption|apply (f_equal s_id) in E; exact E]).
      subst. assumption.
  Qed.

  Lemma SX_names : NoDup (map (fun s => clear (s_name s)) (SX m)).
  Proof. eapply Permutation_NoDup; [apply Permutation_map; exact SX_perm|]. apply (names_nodup es names m Hmm). Qed.
End SXFacts.

(* ---------------- the attribute layer, signals located by name ---------------- *)
Definition upd1 (s : signal) (sg : list signal) : list signal :=
  map (fun x => if String.eqb (s_name x) (clear (s_name s)) then fin_sig s x else x) sg.
Definition upd_sigs (l : list signal) (sg : list signal) : list signal := fold_left (fun g s => upd1 s g) l sg.

Lemma app_sig_name : forall a s, s_name (app_sig a s) = s_name s.
Proof. intros a s. unfold app_sig. destruct (special_of _) as [[]|]; try destruct (aa_val a); reflexivity. Qed.
Lemma fin_sig_name : forall s s', s_name (fin_sig s s') = s_name s'.
Proof.
  intros s s'. unfold fin_sig. generalize (sort_attrs (s_attrs s) ++ wk_sig s). intros l. revert s'.
  induction l as [|a r IH]; intros s'; cbn [fold_left]; [reflexivity|]. rewrite IH. apply app_sig_name.
Qed.

Lemma upd1_names : forall s sg, map s_name (upd1 s sg) = map s_name sg.
Proof. intros s sg. unfold upd1. rewrite map_map. apply map_ext. intros x. destruct (String.eqb _ _); [apply fin_sig_name|reflexivity]. Qed.
Lemma upd1_ids : forall s sg, map s_id (upd1 s sg) = map s_id sg.
Proof. intros s sg. unfold upd1. rewrite map_map. apply map_ext. intros x. destruct (String.eqb _ _); [apply fin_sig_id|reflexivity]. Qed.

Lemma upd1_zip : forall s spre s' spost, NoDup (map s_name (spre ++ s' :: spost)) -> s_name s' = clear (s_name s) ->
  spre ++ fin_sig s s' :: spost = upd1 s (spre ++ s' :: spost).
Proof.
  intros s spre s' spost Hnd Hn. unfold upd1. rewrite map_app. cbn [map]. rewrite Hn, String.eqb_refl.
  rewrite map_app in Hnd. cbn [map] in Hnd. pose proof (NoDup_remove_2 _ _ _ Hnd) as Hni.
  assert (Hid : forall l, (forall x, In x l -> s_name x <> clear (s_name s)) ->
            map (fun x => if String.eqb (s_name x) (clear (s_name s)) then fin_sig s x else x) l = l).
  { induction l as [|x r IH]; intros Hl; [reflexivity|]. cbn [map].
    rewrite IH by (intros y Hy; apply Hl; right; assumption).
    destruct (String.eqb (s_name x) (clear_spaces (s_name s))) eqn:E; [|reflexivity].
    apply String.eqb_eq in E. exfalso. apply (Hl x (or_introl eq_refl)). exact E. }
  rewrite !Hid; [reflexivity| |].
  - intros x Hx Heq. apply Hni. apply in_or_app. right. rewrite Hn, <- Heq. apply in_map. assumption.
  - intros x Hx Heq. apply Hni. apply in_or_app. left. rewrite Hn, <- Heq. apply in_map. assumption.
Qed.

Lemma fold_sigs_n : forall amap sm msgid l cur pre m' post,
  (forall t, In t (flat_map (T_sig msgid) l) -> t_ok amap t) ->
  b_messages cur = pre ++ m' :: post ->
  NoDup (map s_id (m_signals m')) -> NoDup (map s_name (m_signals m')) ->
  (forall s, In s l -> exists s', In s' (m_signals m') /\ s_name s' = clear (s_name s) /\
                                  lookup key_eqb (msgid, clear (s_name s)) sm = Some (length pre, s_id s')) ->
  fold_left (istep amap sm) (avs (flat_map (T_sig msgid) l)) (Ok cur)
  = Ok (set_b_messages cur (pre ++ set_m_signals m' (upd_sigs l (m_signals m')) :: post)).
Proof.
  intros amap sm msgid l. induction l as [|s r IH]; intros cur pre m' post Hok Hn Hids Hnms Hl.
  - cbn [flat_map avs map fold_left upd_sigs]. replace (set_m_signals m' (m_signals m')) with m' by (destruct m'; reflexivity).
    rewrite <- Hn. destruct cur; reflexivity.
  - destruct (Hl s (or_introl eq_refl)) as [s' [Hs' [Hnm Hlk]]].
    apply in_split in Hs'. destruct Hs' as [spre [spost Hsp]].
    cbn [flat_map upd_sigs fold_left]. rewrite avs_app, fold_left_app.
    change (T_sig msgid s) with (map (mktasg OSignal EmptyString msgid (clear (s_name s))) (sort_attrs (s_attrs s) ++ wk_sig s)).
    rewrite (fold_sig amap sm msgid (clear (s_name s)) _ cur pre m' post spre s' spost).
    + fold (fin_sig s s'). rewrite (upd1_zip s spre s' spost) by (try assumption; rewrite <- Hsp; assumption). rewrite <- Hsp.
      rewrite (IH _ pre (set_m_signals m' (upd1 s (m_signals m'))) post).
      * destruct m', cur; reflexivity.
      * intros t Ht. apply Hok. cbn [flat_map]. apply in_or_app. right. assumption.
      * reflexivity.
      * cbn [m_signals set_m_signals]. rewrite upd1_ids. assumption.
      * cbn [m_signals set_m_signals]. rewrite upd1_names. assumption.
      * intros s2 Hs2. destruct (Hl s2 (or_intror Hs2)) as [x [Hx [Hxn Hxl]]]. cbn [m_signals set_m_signals].
        exists (if String.eqb (s_name x) (clear (s_name s)) then fin_sig s x else x). split.
        -- unfold upd1. apply in_map_iff. exists x. auto.
        -- destruct (String.eqb (s_name x) (clear (s_name s))); [rewrite fin_sig_name, fin_sig_id|]; auto.
    + intros a Ha. assert (Ht : t_ok amap (mktasg OSignal EmptyString msgid (clear (s_name s)) a)).
      { apply Hok. cbn [flat_map]. apply in_or_app. left. unfold T_sig. apply in_map. assumption. }
      destruct Ht as [H1 H2]. split; assumption.
    + assumption.
    + assumption.
    + assumption.
    + intros x Hx Heq. rewrite Hsp, map_app in Hids. cbn [map] in Hids. apply NoDup_remove_2 in Hids. apply Hids.
      apply in_or_app. left. rewrite <- Heq. apply in_map. assumption.
Qed.

(* ---------------- generic composition over messages and nodes ---------------- *)
Section GenFold.
  Variables (amap : list (string * attr_def)) (sm : list (key * (nat * Z))) (b : bus).
  Variable Tm : message -> list tasg.
  Variable fm : message -> message -> message.
  Variable R : nat -> message -> message -> Prop.
  Hypothesis Hone : forall m m' cur pre post,
    (forall t, In t (Tm m) -> t_ok amap t) -> b_messages cur = pre ++ m' :: post ->
    (forall x, In x pre -> m_canid x <> m_canid m') -> R (length pre) m m' ->
    fold_left (istep amap sm) (avs (Tm m)) (Ok cur) = Ok (set_b_messages cur (pre ++ fm m m' :: post)).
  Hypothesis Hcan : forall m m', m_canid (fm m m') = m_canid m'.

  Fixpoint Rs (p : nat) (l l' : list message) : Prop :=
    match l, l' with
    | [], [] => True
    | m :: r, m' :: r' => R p m m' /\ Rs (S p) r r'
    | _, _ => False
    end.

  Lemma Rs_app : forall a c p l', Rs p (a ++ c) l' ->
    exists a' c', l' = a' ++ c' /\ length a' = length a /\ Rs p a a' /\ Rs (p + length a) c c'.
  Proof.
    induction a as [|m r IH]; intros c p l' H; cbn [app] in H.
    - exists [], l'. cbn. rewrite Nat.add_0_r. auto.
    - destruct l' as [|m' r']; [destruct H|]. cbn [Rs] in H. destruct H as [H1 H4].
      destruct (IH c (S p) r' H4) as [a' [c' [E1 [E2 [E3 E4]]]]]. exists (m' :: a'), c'. subst r'. cbn [app length Rs].
      rewrite E2. replace (p + S (length r))%nat with (S p + length r)%nat by lia. auto 10.
  Qed.

  Lemma zipf_fm_canids : forall l l', map m_canid (zipf fm l l') = map m_canid l'.
  Proof. induction l as [|x r IH]; intros [|y r']; cbn [zipf map]; try reflexivity. rewrite IH, Hcan. reflexivity. Qed.

  Lemma gen_msgs : forall l l' cur pre post,
    (forall t, In t (flat_map Tm l) -> t_ok amap t) ->
    b_messages cur = pre ++ l' ++ post -> NoDup (map m_canid (pre ++ l' ++ post)) ->
    Rs (length pre) l l' ->
    fold_left (istep amap sm) (avs (flat_map Tm l)) (Ok cur) = Ok (set_b_messages cur (pre ++ zipf fm l l' ++ post)).
  Proof.
    induction l as [|m r IH]; intros l' cur pre post Hok Hn Hnd HR.
    - destruct l'; [|destruct HR]. cbn [flat_map avs map fold_left zipf]. rewrite <- Hn. destruct cur; reflexivity.
    - destruct l' as [|m' r']; [destruct HR|]. cbn [Rs] in HR. destruct HR as [H1 H4].
      cbn [flat_map zipf]. rewrite avs_app, fold_left_app.
      rewrite (Hone m m' cur pre (r' ++ post)); try assumption.
      + rewrite (IH r' _ (pre ++ [fm m m']) post).
        * rewrite <- app_assoc. destruct cur; reflexivity.
        * intros t Ht. apply Hok. cbn [flat_map]. apply in_or_app. right. assumption.
        * cbn [b_messages set_b_messages]. rewrite <- app_assoc. reflexivity.
        * rewrite <- app_assoc. cbn [app] in *. rewrite !map_app in *. cbn [map] in *. rewrite Hcan. assumption.
        * rewrite app_length. cbn [length]. replace (length pre + 1)%nat with (S (length pre)) by lia. assumption.
      + intros t Ht. apply Hok. cbn [flat_map]. apply in_or_app. left. assumption.
      + intros x Hx Heq. rewrite map_app in Hnd. cbn [app map] in Hnd. apply NoDup_remove_2 in Hnd. apply Hnd.
        apply in_or_app. left. rewrite <- Heq. apply in_map. assumption.
  Qed.

  Definition Tn (n : node) : list tasg :=
    map (mktasg ONode (clear (n_name n)) 0 EmptyString) (sort_attrs (n_attrs n))
    ++ flat_map Tm (filter (fun m => String.eqb (m_sender m) (n_name n)) (b_messages b)).

  Lemma gen_nodes : forall ns ns' cur npre npost mpre l' mpost,
    (forall t, In t (flat_map Tn ns) -> t_ok amap t) ->
    b_nodes cur = npre ++ ns' ++ npost -> Forall2 (fun n n' => n_name n' = clear (n_name n)) ns ns' ->
    NoDup (map n_name (npre ++ ns' ++ npost)) -> (forall n, In n ns -> clear (n_name n) <> dummy_node) ->
    b_messages cur = mpre ++ l' ++ mpost -> NoDup (map m_canid (mpre ++ l' ++ mpost)) ->
    Rs (length mpre) (flat_map (Fn b) ns) l' ->
    fold_left (istep amap sm) (avs (flat_map Tn ns)) (Ok cur)
    = Ok (set_b_messages (set_b_nodes cur (npre ++ zipf fin_node ns ns' ++ npost))
                         (mpre ++ zipf fm (flat_map (Fn b) ns) l' ++ mpost)).
  Proof.
    induction ns as [|n r IH]; intros ns' cur npre npost mpre l' mpost Hok Hn HF Hnd Hdm Hm Hcd HR.
    - inversion HF; subst. cbn [flat_map] in HR. destruct l'; [|destruct HR].
      cbn [flat_map avs map fold_left zipf]. rewrite <- Hn, <- Hm. destruct cur; reflexivity.
    - inversion HF as [|? n' ? r' Hnm HF']; subst. cbn [flat_map zipf]. cbn [flat_map] in HR.
      destruct (Rs_app _ _ _ _ HR) as [a' [b' [-> [Hla [HRa HRb]]]]].
      unfold Tn at 1. rewrite !avs_app, !fold_left_app.
      rewrite (fold_node amap sm (clear (n_name n)) _ cur npre n' (r' ++ npost)); try assumption.
      2:{ intros a Ha. assert (Ht : t_ok amap (mktasg ONode (clear (n_name n)) 0 EmptyString a)).
          { apply Hok. cbn [flat_map]. apply in_or_app. left. unfold Tn. apply in_or_app. left. apply in_map. assumption. }
          destruct Ht as [H1 H2]. split; assumption. }
      2:{ apply Hdm. left. reflexivity. }
      2:{ intros x Hx Heq. rewrite map_app in Hnd. cbn [app map] in Hnd. apply NoDup_remove_2 in Hnd. apply Hnd.
          apply in_or_app. left. rewrite Hnm, <- Heq. apply in_map. assumption. }
      fold (fin_node n n').
      rewrite (gen_msgs (Fn b n) a' _ mpre (b' ++ mpost)).
      2:{ intros t Ht. apply Hok. cbn [flat_map]. apply in_or_app. left. unfold Tn. apply in_or_app. right. assumption. }
      2:{ cbn [b_messages set_b_nodes]. rewrite Hm, <- app_assoc. reflexivity. }
      2:{ rewrite <- app_assoc in Hcd. assumption. }
      2:{ assumption. }
      rewrite (IH r' _ (npre ++ [fin_node n n']) npost (mpre ++ zipf fm (Fn b n) a') b' mpost).
      + rewrite (zipf_app fm) by (symmetry; assumption). rewrite <- !app_assoc. destruct cur; reflexivity.
      + intros t Ht. apply Hok. cbn [flat_map]. apply in_or_app. right. assumption.
      + cbn [b_nodes set_b_nodes set_b_messages]. rewrite <- app_assoc. reflexivity.
      + assumption.
      + rewrite <- app_assoc. cbn [app] in *. rewrite !map_app in *. cbn [map] in *. rewrite fin_node_name. assumption.
      + intros x Hx. apply Hdm. right. assumption.
      + cbn [b_messages set_b_messages]. rewrite <- !app_assoc. reflexivity.
      + rewrite <- !app_assoc in *. rewrite !map_app in *. rewrite zipf_fm_canids. assumption.
      + rewrite app_length, zipf_length, Hla. assumption.
  Qed.
End GenFold.

(* ---------------- projections: what depends on the attribute layer, what on the signal list ---------------- *)
Definition ps_upd (p : psignal) (sv : fl) (st : Z) (at_ : list attr_asg) : psignal :=
  mkpsignal (ps_name p) (ps_kind p) (ps_start p) (ps_size p) (ps_signed p) (ps_scale p) (ps_offset p) (ps_min p) (ps_max p)
            (ps_unit p) (ps_enum p) (ps_parent p) (ps_membership p) (ps_desc p) sv st at_.

(* the fields of a signal the attribute layer never touches *)
Definition score (s : signal) :=
  (s_id s, s_name s, s_kind s, s_rel s, s_parent s, s_groups s, s_size s, s_signed s,
   (s_scale s, s_offset s, s_min s, s_max s, s_unit s, s_enum s, s_gcount s, s_gsize s, s_desc s)).

Lemma score_fields : forall a b, score a = score b ->
  s_id a = s_id b /\ s_name a = s_name b /\ s_kind a = s_kind b /\ s_rel a = s_rel b /\ s_parent a = s_parent b /\
  s_groups a = s_groups b /\ s_size a = s_size b /\ s_signed a = s_signed b /\ s_scale a = s_scale b /\ s_offset a = s_offset b /\
  s_min a = s_min b /\ s_max a = s_max b /\ s_unit a = s_unit b /\ s_enum a = s_enum b /\ s_gcount a = s_gcount b /\
  s_gsize a = s_gsize b /\ s_desc a = s_desc b.
Proof. intros a b H. unfold score in H. inversion H. repeat split; assumption. Qed.

Lemma find_sig_map : forall (g : signal -> signal) L p, (forall x, s_id (g x) = s_id x) ->
  find_sig (map g L) p = option_map g (find_sig L p).
Proof.
  intros g L p Hg. unfold find_sig. induction L as [|x r IH]; [reflexivity|]. cbn [map find]. rewrite Hg.
  destruct (s_id x =? p); [reflexivity|exact IH].
Qed.

Lemma abs_start_score : forall (g : signal -> signal) L, (forall x, score (g x) = score x) ->
  forall k x y, score y = score x -> abs_start k (map g L) y = abs_start k L x.
Proof.
  intros g L Hg k. induction k as [|k IH]; intros x y Hxy; destruct (score_fields _ _ Hxy) as [_ [_ [_ [Hr [Hp _]]]]];
    cbn [abs_start]; rewrite Hp, Hr; [reflexivity|].
  destruct (s_parent x) as [p|]; [|reflexivity].
  rewrite find_sig_map by (intros z; apply (score_fields _ _ (Hg z))).
  destruct (find_sig L p) as [ps|]; cbn [option_map]; [|reflexivity].
  rewrite (IH ps (g ps) (Hg ps)). unfold sel_width. destruct (score_fields _ _ (Hg ps)) as [_ [_ [_ [_ [_ [_ [_ [_ [_ [_ [_ [_ [_ [_ [Hgc _]]]]]]]]]]]]]]].
  rewrite Hgc. reflexivity.
Qed.

Lemma proj_signal_score : forall es (g : signal -> signal) L x y, (forall z, score (g z) = score z) -> score y = score x ->
  proj_signal es (map g L) y = ps_upd (proj_signal es L x) (s_startval y) (s_sendtype y) (proj_attrs (s_attrs y)).
Proof.
  intros es g L x y Hg Hxy. destruct (score_fields _ _ Hxy) as [_ [Hn [Hk [Hr [Hp [Hgr [Hsz [Hsg [Hsc [Hof [Hmn [Hmx [Hun [Hen [Hgc [Hgs Hd]]]]]]]]]]]]]]]].
  unfold proj_signal, ps_upd, membership, sig_size, sel_width. rewrite map_length.
  rewrite (abs_start_score g L Hg (length L) x y Hxy).
  cbn [ps_name ps_kind ps_start ps_size ps_signed ps_scale ps_offset ps_min ps_max ps_unit ps_enum ps_parent ps_membership ps_desc].
  rewrite Hn, Hk, Hp, Hgr, Hsz, Hsg, Hsc, Hof, Hmn, Hmx, Hun, Hen, Hgc, Hgs, Hd.
  destruct (s_parent x) as [p|]; [|reflexivity].
  rewrite find_sig_map by (intros z; apply (score_fields _ _ (Hg z))).
  destruct (find_sig L p) as [ps|]; cbn [option_map]; [|reflexivity].
  destruct (score_fields _ _ (Hg ps)) as [_ [Hn2 [_ [_ [_ [_ [_ [_ [_ [_ [_ [_ [_ [_ [Hgc2 _]]]]]]]]]]]]]]].
  rewrite Hn2, Hgc2. reflexivity.
Qed.

Lemma score_strip : forall s, score (strip_sig s) = score s.
Proof. reflexivity. Qed.
Lemma score_app_sig : forall a s, score (app_sig a s) = score s.
Proof. intros a s. unfold app_sig. destruct (special_of _) as [[]|]; try destruct (aa_val a); reflexivity. Qed.
Lemma score_fin_sig : forall s x, score (fin_sig s x) = score x.
Proof.
  intros s x. unfold fin_sig. generalize (sort_attrs (s_attrs s) ++ wk_sig s). intros l. revert x.
  induction l as [|a r IH]; intros x; cbn [fold_left]; [reflexivity|]. rewrite IH. apply score_app_sig.
Qed.

Lemma ps_upd_self : forall es L s,
  ps_upd (proj_signal es L s) (s_startval s) (s_sendtype s) (proj_attrs (s_attrs s)) = proj_signal es L s.
Proof. reflexivity. Qed.

Lemma proj_signal_unstrip : forall es sigs s,
  proj_signal es sigs s
  = ps_upd (proj_signal es (map strip_sig sigs) (strip_sig s)) (s_startval s) (s_sendtype s) (proj_attrs (s_attrs s)).
Proof.
  intros es sigs s. rewrite (proj_signal_score es strip_sig sigs s (strip_sig s) score_strip (score_strip s)). reflexivity.
Qed.

(* ---------------- the by-name update as a map ---------------- *)
Definition GU (l : list signal) (x : signal) : signal :=
  fold_left (fun y s => if String.eqb (s_name y) (clear (s_name s)) then fin_sig s y else y) l x.

Lemma upd_sigs_map : forall l sg, upd_sigs l sg = map (GU l) sg.
Proof.
  induction l as [|s r IH]; intros sg; cbn [upd_sigs fold_left GU].
  - symmetry. apply map_id.
  - fold (upd_sigs r (upd1 s sg)). rewrite IH. unfold upd1. rewrite map_map. reflexivity.
Qed.

Lemma GU_score : forall l x, score (GU l x) = score x.
Proof.
  induction l as [|s r IH]; intros x; cbn [GU fold_left]; [reflexivity|].
  fold (GU r (if String.eqb (s_name x) (clear (s_name s)) then fin_sig s x else x)). rewrite IH.
  destruct (String.eqb _ _); [apply score_fin_sig|reflexivity].
Qed.

Lemma GU_miss : forall l x, (forall s, In s l -> s_name x <> clear (s_name s)) -> GU l x = x.
Proof.
  induction l as [|s r IH]; intros x H; cbn [GU fold_left]; [reflexivity|].
  destruct (String.eqb (s_name x) (clear (s_name s))) eqn:E; [apply String.eqb_eq in E; exfalso; apply (H s (or_introl eq_refl) E)|].
  apply IH. intros s2 Hs2. apply H. right. assumption.
Qed.

Lemma GU_hit : forall l s x, NoDup (map (fun s => clear (s_name s)) l) -> In s l -> s_name x = clear (s_name s) ->
  GU l x = fin_sig s x.
Proof.
  induction l as [|a r IH]; intros s x Hnd Hs Hn; [destruct Hs|]. cbn [map] in Hnd. inversion Hnd as [|? ? Hni Hr]; subst.
  cbn [GU fold_left]. destruct Hs as [->|Hs].
  - rewrite Hn, String.eqb_refl. apply GU_miss. intros s2 Hs2 Heq. rewrite fin_sig_name, Hn in Heq. apply Hni. rewrite Heq.
    apply (in_map (fun s => clear (s_name s))). assumption.
  - destruct (String.eqb (s_name x) (clear (s_name a))) eqn:E.
    + apply String.eqb_eq in E. exfalso. apply Hni. rewrite <- E, Hn. apply (in_map (fun s => clear (s_name s))). assumption.
    + apply IH; assumption.
Qed.

(* ---------------- what the structural import provides for a message, in a form both kinds of message share ---------------- *)
Definition Base (es es' : list enum_def) (ms m' : message) : Prop :=
  exists ord sigs',
    m' = mkmessage (m_canid ms) (clear (m_name ms)) (m_size ms) ord 0 0 0 0 (clear (m_sender ms)) (recs_in ms) (m_desc ms) [] sigs' /\
    (m_signals ms <> [] -> ord = m_order ms) /\
    NoDup (map s_id sigs') /\ Permutation (map s_name sigs') (map (fun s => clear (s_name s)) (m_signals ms)) /\
    forall s, In s (m_signals ms) -> exists x, In x sigs' /\ s_name x = clear (s_name s) /\
       s_attrs x = [] /\ s_startval x = fl_zero /\ s_sendtype x = 0 /\
       proj_signal es' sigs' x = proj_signal es (m_signals ms) s.

Lemma proj_message_n : forall es es' m m' l,
  Base es es' (strip_msg m) m' -> NoDup (map (fun s => clear (s_name s)) (m_signals m)) -> Permutation (m_signals m) l ->
  user_asgs_ok (m_attrs m) -> 0 <= m_sendtype m < 5 ->
  Forall (fun s => user_asgs_ok (s_attrs s) /\ fl_canonical (s_startval s) /\ 0 <= s_sendtype s < 8) (m_signals m) ->
  (m_signals m = [] -> m_receivers m = []) ->
  proj_message es' (set_m_signals (fin_matt m m') (upd_sigs l (m_signals m'))) = proj_message es m.
Proof.
  intros es es' m m' l [ord [sigs' [-> [Hord [Hids [Hpn Hsig]]]]]] Hnd Hpl Hu Hst Hsg Hre.
  cbn [m_canid m_name m_size m_order m_sender m_receivers m_desc m_signals strip_msg] in *.
  rewrite fin_matt_eval; try assumption; try reflexivity.
  cbn [m_signals]. rewrite upd_sigs_map. unfold proj_message.
  cbn [m_canid m_name m_size m_order m_cycle m_delay m_startdelay m_sendtype m_sender m_receivers m_desc m_attrs m_signals
       set_m_signals set_m_times set_m_attrs].
  rewrite !clear_spaces_idem, recs_in_strip, (proj_attrs_img _ (proj1 Hu)).
  rewrite map_map in Hpn. cbn [s_name strip_sig] in Hpn.
  assert (Hlen : length sigs' = length (m_signals m)).
  { rewrite <- (map_length s_name), (Permutation_length Hpn), map_length. reflexivity. }
  assert (Hordq : match map (GU l) sigs' with [] => LittleEndian | _ :: _ => ord end
                  = match m_signals m with [] => LittleEndian | _ :: _ => m_order m end).
  { destruct (m_signals m) eqn:Es; [destruct sigs'; [reflexivity|discriminate]|].
    destruct sigs'; [discriminate|]. cbn [map]. apply Hord. discriminate. }
  rewrite Hordq.
  assert (Hrecs : sort_by str_ltb (map clear (recs_in m)) = sort_by str_ltb (map clear (m_receivers m))).
  { unfold recs_in. destruct (m_signals m) eqn:Es.
    - rewrite (Hre eq_refl). reflexivity.
    - rewrite map_map. rewrite (map_ext (fun x => clear (clear x)) clear) by (intros; apply clear_spaces_idem).
      apply sort_str_perm_eq. apply Permutation_map. apply Permutation_sym. apply sort_by_perm. }
  rewrite Hrecs.
  set (F := map (GU l) sigs').
  assert (Hndl : NoDup (map (fun s => clear (s_name s)) l)) by (eapply Permutation_NoDup; [apply Permutation_map; exact Hpl|exact Hnd]).
  assert (Hnn : NoDup (map s_name sigs')) by (eapply Permutation_NoDup; [apply Permutation_sym; exact Hpn|exact Hnd]).
  assert (Core : forall s x, In s (m_signals m) -> In x sigs' -> s_name x = clear (s_name s) ->
            s_attrs x = [] -> s_startval x = fl_zero -> s_sendtype x = 0 ->
            proj_signal es' sigs' x = proj_signal es (map strip_sig (m_signals m)) (strip_sig s) ->
            proj_signal es' F (GU l x) = proj_signal es (m_signals m) s).
  { intros s x Hs Hx Hn Ha Hv Ht HB. rewrite Forall_forall in Hsg. destruct (Hsg s Hs) as [Hus [Hcan Hss]].
    rewrite (GU_hit l s x Hndl (Permutation_in _ Hpl Hs) Hn).
    unfold F. rewrite (proj_signal_score es' (GU l) sigs' x (fin_sig s x) (GU_score l) (score_fin_sig s x)).
    rewrite fin_sig_eval by assumption. cbn [s_startval s_sendtype s_attrs set_s_special set_s_attrs].
    rewrite (proj_attrs_img _ (proj1 Hus)), HB. symmetry. apply proj_signal_unstrip. }
  assert (HP : Permutation (map (proj_signal es' F) F) (map (proj_signal es (m_signals m)) (m_signals m))).
  { apply NoDup_Permutation.
    - apply (NoDup_map_inv ps_name). rewrite map_map. cbn [ps_name proj_signal]. unfold F. rewrite map_map.
      rewrite (map_ext _ (fun x => clear (s_name x))) by (intros x; destruct (score_fields _ _ (GU_score l x)) as [_ [E _]]; rewrite E; reflexivity).
      rewrite <- (map_map s_name clear). eapply Permutation_NoDup; [apply Permutation_sym; apply Permutation_map; exact Hpn|].
      rewrite map_map. rewrite (map_ext _ (fun s => clear (s_name s))) by (intros; apply clear_spaces_idem). exact Hnd.
    - apply (NoDup_map_inv ps_name). rewrite map_map. cbn [ps_name proj_signal]. exact Hnd.
    - intros p. split; intros Hp; apply in_map_iff in Hp.
      + destruct Hp as [y [<- Hy]]. unfold F in Hy. apply in_map_iff in Hy. destruct Hy as [x [<- Hx]].
        assert (Hin : In (s_name x) (map (fun s => clear (s_name s)) (m_signals m)))
          by (eapply Permutation_in; [exact Hpn|apply in_map; assumption]).
        apply in_map_iff in Hin. destruct Hin as [s [Hsn Hs]].
        destruct (Hsig (strip_sig s) (in_map strip_sig _ _ Hs)) as [x2 [Hx2 [Hn2 [Ha2 [Hv2 [Ht2 HB2]]]]]]. cbn [s_name strip_sig] in Hn2.
        assert (x2 = x) by (apply (NoDup_map_inj s_name sigs'); try assumption; rewrite Hn2, Hsn; reflexivity). subst x2.
        fold F. rewrite (Core s x Hs Hx Hn2 Ha2 Hv2 Ht2 HB2). apply in_map. assumption.
      + destruct Hp as [s [<- Hs]].
        destruct (Hsig (strip_sig s) (in_map strip_sig _ _ Hs)) as [x [Hx [Hn2 [Ha2 [Hv2 [Ht2 HB2]]]]]]. cbn [s_name strip_sig] in Hn2.
        rewrite <- (Core s x Hs Hx Hn2 Ha2 Hv2 Ht2 HB2). apply in_map. unfold F. apply in_map. assumption. }
  assert (Hsigs : sort_by (fun a b => str_ltb (ps_name a) (ps_name b)) (map (proj_signal es' F) F)
                  = sort_by (fun a b => str_ltb (ps_name a) (ps_name b)) (map (proj_signal es (m_signals m)) (m_signals m))).
  { apply (keyed_sort_perm_eq ps_name); [exact HP|].
    eapply Permutation_NoDup; [apply Permutation_map; apply Permutation_sym; exact HP|].
    rewrite map_map. cbn [ps_name proj_signal]. exact Hnd. }
  rewrite Hsigs. reflexivity.
Qed.

Lemma Forall2_in_l : forall {A B} (R : A -> B -> Prop) l l' x, Forall2 R l l' -> In x l -> exists y, In y l' /\ R x y.
Proof.
  intros A B R l l' x H. induction H; intros Hin; [destruct Hin|].
  destruct Hin as [->|Hin]; [exists y; split; [left; reflexivity|assumption]|].
  destruct (IHForall2 Hin) as [y0 [H1 H2]]. exists y0. split; [right; assumption|assumption].
Qed.

Lemma base_plain : forall names es st ms m',
  emessage es names ms -> (forall s, In s (m_signals ms) -> enum_wf (e_of es s)) -> Rmsg es st ms m' ->
  Base es (is_enums st) ms m'.
Proof.
  intros names es st ms m' Hem Hwf [sigs' [-> HR]].
  pose proof Hem as [_ [_ [_ [_ [_ [_ [_ [Hps _]]]]]]]].
  exists (match m_signals ms with [] => LittleEndian | _ => m_order ms end), sigs'. split; [reflexivity|].
  split; [intros Hne; destruct (m_signals ms); [contradiction|reflexivity]|].
  assert (Hid : map s_id sigs' = map fst (index_from 0 (m_signals ms))).
  { eapply Forall2_map_eq; [exact HR|]. intros p x _ Hp. apply (proj2 (Rsig_name_id _ _ _ _ _ Hp)). }
  assert (Hnm : map s_name sigs' = map (fun p => clear (s_name (snd p))) (index_from 0 (m_signals ms))).
  { eapply Forall2_map_eq; [exact HR|]. intros p x _ Hp. apply (proj1 (Rsig_name_id _ _ _ _ _ Hp)). }
  split; [rewrite Hid; apply ProofsIds.index_from_fst_nodup|].
  split.
  { rewrite Hnm, <- (map_map snd (fun s => clear (s_name s))), Proofs.index_from_snd. apply Permutation_refl. }
  intros s Hs. destruct (in_index_from (m_signals ms) 0 s Hs) as [i Hi].
  destruct (Forall2_in_l _ _ _ _ HR Hi) as [x [Hx HRx]]. cbn [fst snd] in HRx.
  destruct (Rsig_id _ _ _ _ _ HRx) as [_ [A1 [A2 A3]]].
  exists x. refine (conj Hx (conj (proj1 (Rsig_name_id _ _ _ _ _ HRx)) (conj A1 (conj A2 (conj A3 _))))).
  rewrite Forall_forall in Hps. eapply proj_signal_e; [apply Hps; exact Hs|apply Hwf; exact Hs|exact HRx].
Qed.

Lemma base_mux : forall names es st ms mx mid gs EI S',
  mmessage es names ms -> In mx (m_signals ms) -> is_muxb mx = true -> one_mux (m_signals ms) ->
  (forall s, In s (m_signals ms) -> enum_wf (e_of es s)) ->
  (forall s, In s (m_signals ms) -> s <> mx -> EIok es st s (EI s)) ->
  Permutation (m_signals ms) S' -> In (mid, mx) (index_from 0 S') ->
  Base es (is_enums st) ms (mkmessage (m_canid ms) (clear (m_name ms)) (m_size ms) (m_order ms) 0 0 0 0 (clear (m_sender ms)) (recs_in ms) (m_desc ms) []
                            (mux_result mx mid gs EI S')).
Proof.
  intros names es st ms mx mid gs EI S' Hmm Hmx Hmxm Huniq Hwf HEI HpS Hmid.
  exists (m_order ms), (mux_result mx mid gs EI S'). split; [reflexivity|]. split; [reflexivity|].
  split; [apply (R_ids es names ms mx mid gs EI S'); assumption|].
  pose proof (R_map es names ms mx mid gs EI S' Hmm Hmx Hmxm Huniq HpS) as HRm.
  pose proof (XY_perm es names ms mx mid S' Hmm Hmx Hmxm Huniq HpS Hmid) as HXY.
  pose proof (Fimg_facts ms mx mid gs EI S' Hmx Hmxm Huniq HpS) as HF.
  split.
  { rewrite HRm, map_map.
    eapply Permutation_trans; [apply Permutation_map; apply Permutation_sym; exact HXY|].
    rewrite (map_ext_in _ (fun p => clear (s_name (snd p)))) by (intros p Hp; apply (proj1 (HF p Hp))).
    rewrite <- (map_map snd (fun s => clear (s_name s))), Proofs.index_from_snd.
    apply Permutation_map. apply Permutation_sym. exact HpS. }
  intros s Hs. assert (Hs' : In s S') by (eapply Permutation_in; [exact HpS|exact Hs]).
  destruct (in_index_from S' 0 s Hs') as [i Hi].
  destruct (HF (i, s) Hi) as [F1 [F2 [F3 F4]]]. cbn [snd] in F1.
  exists (Fimg mx mid gs EI (i, s)). split.
  { rewrite HRm. apply in_map. eapply Permutation_in; [exact HXY|exact Hi]. }
  refine (conj F1 (conj F2 (conj F3 (conj F4 _)))).
  apply (proj_pt es st names ms mx mid gs EI S' Hmm Hmx Hmxm Huniq Hwf HEI HpS Hmid (i, s) Hi).
Qed.

Lemma FM_zero : forall es m MU X EI st1 p,
  s_attrs (FM es m MU X EI st1 p) = [] /\ s_startval (FM es m MU X EI st1 p) = fl_zero /\ s_sendtype (FM es m MU X EI st1 p) = 0.
Proof.
  intros es m MU X EI st1 p. unfold FM. destruct (is_muxb (snd p)); [cbn; auto|].
  destruct (rimg_fields (fst p) (snd p) (EI (snd p))) as [_ [_ [_ [F4 [F5 F6]]]]].
  destruct (is_topb (snd p)); cbn [s_attrs s_startval s_sendtype timg kimg place]; auto.
Qed.

Lemma base_multi : forall names es st ms EI S' st1,
  mmessage es names ms ->
  (forall s, In s (m_signals ms) -> enum_wf (e_of es s)) ->
  (forall s, In s (m_signals ms) -> is_muxb s = false -> EIok es st s (EI s)) ->
  Permutation (m_signals ms) S' ->
  Base es (is_enums st) ms (mkmessage (m_canid ms) (clear (m_name ms)) (m_size ms) (m_order ms) 0 0 0 0 (clear (m_sender ms)) (recs_in ms) (m_desc ms) []
                            (multi_result es ms EI st1 S')).
Proof.
  intros names es st ms EI S' st1 Hmm Hwf HEI HpS.
  exists (m_order ms), (multi_result es ms EI st1 S'). split; [reflexivity|]. split; [reflexivity|].
  unfold multi_result. cbv zeta.
  split; [apply (RM_ids es names ms EI S' st1 Hmm HpS)|].
  pose proof (XYM_perm es names ms S' Hmm HpS) as HXY.
  split.
  { rewrite map_map.
    eapply Permutation_trans; [apply Permutation_map; apply Permutation_sym; exact HXY|].
    rewrite (map_ext _ (fun p => clear (s_name (snd p)))) by (intros p; apply (FM_name es ms EI S' st1 p)).
    rewrite <- (map_map snd (fun s => clear (s_name s))), Proofs.index_from_snd.
    apply Permutation_map. apply Permutation_sym. exact HpS. }
  intros s Hs. assert (Hs' : In s S') by (eapply Permutation_in; [exact HpS|exact Hs]).
  destruct (in_index_from S' 0 s Hs') as [i Hi].
  destruct (FM_zero es ms (filter (fun p : Z * signal => is_muxb (snd p)) (index_from 0 S')) (index_from 0 S') EI st1 (i, s)) as [F2 [F3 F4]].
  eexists. split; [apply (RM_in es names ms EI S' st1 Hmm HpS (i, s) Hi)|].
  refine (conj (FM_name es ms EI S' st1 (i, s)) (conj F2 (conj F3 (conj F4 _)))).
  apply (proj_ptM es st names ms EI S' st1 Hmm Hwf HEI HpS (i, s) Hi).
Qed.

Lemma base_of_Rmsg_m : forall names es st ms m',
  mmessage es names ms -> (forall s, In s (m_signals ms) -> enum_wf (e_of es s)) ->
  Rmsg_m es st ms m' -> Base es (is_enums st) ms m'.
Proof.
  intros names es st ms m' Hmm Hwf [[Hnm HR]|[[mx [mid [gs [S' [EI [Hmx [Hmxm [Huniq [-> [HpS [Hmid [Hgs HEI]]]]]]]]]]]]|[S' [EI [st1 [Hmany [-> [HpS HEI]]]]]]]].
  - destruct (mmessage_plain es names ms Hmm Hnm) as [Hem _]. eapply base_plain; eauto.
  - apply (base_mux names); assumption.
  - apply (base_multi names); assumption.
Qed.

(* ---------------- one message of the attribute section ---------------- *)
Definition fin_msg_n (m m' : message) : message := set_m_signals (fin_matt m m') (upd_sigs (SX m) (m_signals m')).
Definition Rn (sm : list (key * (nat * Z))) (p : nat) (m m' : message) : Prop :=
  m_canid m' = u32 (m_canid m) /\ NoDup (map s_id (m_signals m')) /\ NoDup (map s_name (m_signals m')) /\
  forall s, In s (SX m) -> exists s', In s' (m_signals m') /\ s_name s' = clear (s_name s) /\
     lookup key_eqb (u32 (m_canid m), clear (s_name s)) sm = Some (p, s_id s').

Lemma one_msg_n : forall amap sm m m' cur pre post,
  (forall t, In t (TM_msg m) -> t_ok amap t) -> b_messages cur = pre ++ m' :: post ->
  (forall x, In x pre -> m_canid x <> m_canid m') -> Rn sm (length pre) m m' ->
  fold_left (istep amap sm) (avs (TM_msg m)) (Ok cur) = Ok (set_b_messages cur (pre ++ fin_msg_n m m' :: post)).
Proof.
  intros amap sm m m' cur pre post Hok Hn Hpre [Hc [Hids [Hnms Hl]]].
  unfold TM_msg. rewrite avs_app, fold_left_app.
  rewrite (fold_msg amap sm (u32 (m_canid m)) _ cur pre m' post); try assumption.
  - fold (fin_matt m m').
    rewrite (fold_sigs_n amap sm (u32 (m_canid m)) (SX m) _ pre (fin_matt m m') post).
    + rewrite fin_matt_signals. unfold fin_msg_n. destruct cur; reflexivity.
    + intros t Ht. apply Hok. unfold TM_msg. apply in_or_app. right. assumption.
    + reflexivity.
    + rewrite fin_matt_signals. assumption.
    + rewrite fin_matt_signals. assumption.
    + rewrite fin_matt_signals. exact Hl.
  - intros a Ha. assert (Ht : t_ok amap (mktasg OMessage EmptyString (u32 (m_canid m)) EmptyString a)).
    { apply Hok. unfold TM_msg. apply in_or_app. left. apply in_map. assumption. }
    destruct Ht as [H1 H2]. split; assumption.
  - intros x Hx. rewrite <- Hc. apply Hpre. assumption.
Qed.

Lemma fin_msg_n_canid : forall m m', m_canid (fin_msg_n m m') = m_canid m'.
Proof. intros m m'. unfold fin_msg_n. cbn [m_canid set_m_signals]. apply fin_matt_canid. Qed.

Lemma fin_msg_n_sender : forall m m', m_sender (fin_msg_n m m') = m_sender m'.
Proof.
  intros m m'. unfold fin_msg_n. cbn [m_sender set_m_signals]. unfold fin_matt.
  generalize (sort_attrs (m_attrs m) ++ wk_msg m). intros l. revert m'.
  induction l as [|a r IH]; intros m'; cbn [fold_left]; [reflexivity|]. rewrite IH. apply app_msg_sender.
Qed.

(* ---------------- the fragment: attributes on every entity, over the structure of RoundTripMux ---------------- *)
Definition ambus (b : bus) : Prop :=
  grouped b /\ mbus (strip_bus b) /\ T_ok (TM_bus b) /\
  user_asgs_ok (b_attrs b) /\ Forall (fun n => user_asgs_ok (n_attrs n)) (b_nodes b) /\
  Forall (fun m => user_asgs_ok (m_attrs m) /\ 0 <= m_sendtype m < 5 /\
            Forall (fun s => user_asgs_ok (s_attrs s) /\ fl_canonical (s_startval s) /\ 0 <= s_sendtype s < 8) (m_signals m))
         (b_messages b).

Lemma all_t_ok_m : forall b amap, ambus b ->
  (forall t, In t (TM_bus b) -> lookup String.eqb (tname t) amap = Some (t_def t)) ->
  forall t, In t (TM_bus b) -> t_ok amap t.
Proof.
  intros b amap [_ [_ [_ [Hub [Hun Hum]]]]] Hl t Ht. pose proof (Hl t Ht) as Hlk.
  unfold TM_bus in Ht. apply in_app_or in Ht. destruct Ht as [Ht|Ht].
  - apply in_map_iff in Ht. destruct Ht as [a [<- Ha]]. destruct (user_asg_ok _ a Hub Ha) as [H1 [H2 H3]].
    split; [split; assumption|exact H2].
  - apply in_flat_map in Ht. destruct Ht as [n [Hn Ht]]. unfold TM_node in Ht. apply in_app_or in Ht. destruct Ht as [Ht|Ht].
    + apply in_map_iff in Ht. destruct Ht as [a [<- Ha]]. rewrite Forall_forall in Hun.
      destruct (user_asg_ok _ a (Hun n Hn) Ha) as [H1 [H2 H3]]. split; [split; assumption|exact H2].
    + apply in_flat_map in Ht. destruct Ht as [m [Hm Ht]]. apply filter_In in Hm. destruct Hm as [Hm _].
      rewrite Forall_forall in Hum. destruct (Hum m Hm) as [Hua [Hst Hsg]].
      unfold TM_msg in Ht. apply in_app_or in Ht. destruct Ht as [Ht|Ht].
      * apply in_map_iff in Ht. destruct Ht as [a [<- Ha]]. apply in_app_or in Ha. destruct Ha as [Ha|Ha].
        -- destruct (user_asg_ok _ a Hua Ha) as [H1 [H2 H3]]. split; [split; assumption|]. cbn [t_kind t_asg]. unfold masg_ok. rewrite H3. exact H2.
        -- destruct (wk_msg_ok m a Hst Ha) as [H1 H2]. split; [split; assumption|exact H2].
      * apply in_flat_map in Ht. destruct Ht as [s [Hs Ht]]. apply SX_in in Hs.
        rewrite Forall_forall in Hsg. destruct (Hsg s Hs) as [Hus [Hcan Hss]].
        unfold T_sig in Ht. apply in_map_iff in Ht. destruct Ht as [a [<- Ha]]. apply in_app_or in Ha. destruct Ha as [Ha|Ha].
        -- destruct (user_asg_ok _ a Hus Ha) as [H1 [H2 H3]]. split; [split; assumption|]. cbn [t_kind t_asg]. unfold sasg_ok. rewrite H3. exact H2.
        -- destruct (wk_sig_ok s a Hcan Hss Ha) as [H1 H2]. split; [split; assumption|exact H2].
Qed.

(* the relation the attribute section needs, from the structural import *)
Lemma build_Rs : forall es es' sm names l l' p,
  Forall (fun m => mmessage es names (strip_msg m)) l ->
  Forall2 (fun m m' => Base es es' (strip_msg m) m') l l' ->
  SMs sm p (map strip_msg l) l' ->
  Rs (Rn sm) p l l'.
Proof.
  intros es es' sm names l l' p Hmm HF. revert p. induction HF as [|m m' r r' HB HF IH]; intros p HS; cbn [map SMs Rs] in *; [exact I|].
  inversion Hmm as [|? ? Hm Hr]; subst. destruct HS as [Hsm HS]. split; [|apply IH; assumption].
  pose proof Hm as [_ [_ [_ [_ [_ [Hid _]]]]]]. cbn [m_canid strip_msg] in Hid.
  destruct HB as [ord [sigs' [-> [_ [Hids [Hpn _]]]]]]. unfold Rn. cbn [m_canid m_signals strip_msg] in *.
  split; [rewrite u32_id by lia; reflexivity|]. split; [exact Hids|]. split.
  { eapply Permutation_NoDup; [apply Permutation_sym; exact Hpn|]. rewrite map_map. cbn [s_name strip_sig]. apply (names_nodup es names m Hm). }
  intros s Hs. apply SX_in in Hs. destruct (Hsm (strip_sig s) (in_map strip_sig _ _ Hs)) as [s' [H1 [H2 H3]]].
  exists s'. cbn [m_signals m_canid strip_msg s_name strip_sig] in *. auto.
Qed.

Lemma Forall2_conj_base : forall names es st l l',
  Forall (fun m => mmessage es names (strip_msg m)) l ->
  (forall m, In m l -> forall s, In s (m_signals (strip_msg m)) -> enum_wf (e_of es s)) ->
  Forall2 (fun m m' => Rmsg_m es st (strip_msg m) m') l l' ->
  Forall2 (fun m m' => Base es (is_enums st) (strip_msg m) m') l l'.
Proof.
  intros names es st l l' Hmm Hwf HF. induction HF as [|m m' r r' HR HF IH]; [constructor|].
  inversion Hmm as [|? ? Hm Hr]; subst. constructor.
  - eapply base_of_Rmsg_m; [exact Hm| |exact HR]. intros s Hs. apply (Hwf m (or_introl eq_refl) s Hs).
  - apply IH; [assumption|]. intros m0 Hm0. apply Hwf. right. assumption.
Qed.

Lemma xbus_strip : forall b, xbus (strip_bus b) = strip_bus (xbus b).
Proof.
  intros b. unfold xbus, strip_bus, set_b_messages. cbn [b_name b_desc b_attrs b_nodes b_enums b_messages]. f_equal.
  rewrite !map_map. apply map_ext. intros m. unfold xmsg. rewrite SX_strip_msg. reflexivity.
Qed.

Lemma many_of_strip : forall sigs, many_of (map strip_sig sigs) = many_of sigs.
Proof. intros sigs. unfold many_of. rewrite !filter_map_comm, map_length. reflexivity. Qed.

Lemma bus_exts_strip : forall b, bus_exts (strip_bus b) = bus_exts b.
Proof.
  intros b. unfold bus_exts. cbn [b_messages strip_bus].
  induction (b_messages b) as [|m r IH]; [reflexivity|]. cbn [map flat_map]. rewrite IH. f_equal.
  unfold msg_exts. cbn [m_canid m_signals strip_msg]. rewrite many_of_strip, filter_map_comm. change (fun x => is_topb (strip_sig x)) with is_topb.
  induction (filter is_topb (m_signals m)) as [|t q IHq]; [reflexivity|]. cbn [map flat_map]. rewrite IHq. f_equal.
  unfold texts. change (is_muxb (strip_sig t)) with (is_muxb t). destruct (is_muxb t); [|reflexivity].
  rewrite walk_of_strip. induction (walk_of (m_signals m) t) as [|c w IHw]; [reflexivity|]. cbn [map flat_map]. rewrite IHw. reflexivity.
Qed.

Definition all_result (b : bus) (es' : list enum_def) (msgs' : list message) : bus :=
  mkbus (b_name b) (b_desc b) (map RoundTripAttr.img (sort_attrs (b_attrs b)))
        (zipf fin_node (b_nodes b) (mk_nodes 0 (map strip_node (b_nodes b)))) es' (zipf fin_msg_n (b_messages b) msgs').

Theorem export_import_all_thm : forall b, ambus b ->
  exists b', export_import b = Ok b' /\ proj_bus b' = proj_bus b.
Proof.
  intros b Hab. pose proof Hab as [Hg [Hsb [HT [Hub [Hun Hum]]]]].
  destruct (export_mg b Hg Hsb) as [L HE].
  set (d := text_roundtrip (amdoc b L)).
  assert (D2 : d_nodes d = map (fun n => clear (n_name n)) (b_nodes (strip_bus b))).
  { cbn. rewrite map_map. reflexivity. }
  assert (D4 : d_messages d = map (dmsg_m (b_enums (strip_bus b))) (b_messages (strip_bus b))).
  { cbn. rewrite map_map. apply map_ext. intros m. symmetry. apply dmsg_m_strip. }
  assert (D5 : d_comments d = doc_cms (xbus (strip_bus b))) by (rewrite xbus_strip; symmetry; apply doc_cms_strip).
  assert (D6 : d_valencs d = bus_vencs (xbus (strip_bus b))) by (rewrite xbus_strip; symmetry; apply bus_vencs_strip).
  assert (D7 : d_extmuxes d = bus_exts (strip_bus b)) by (rewrite bus_exts_strip; reflexivity).
  destruct (import_struct_m (strip_bus b) L d Hsb eq_refl D2 eq_refl D4 D5 D6 D7) as [st' [msgs' [HI [HF HS]]]].
  cbn [b_name b_desc b_nodes b_messages b_enums strip_bus] in HI, HF, HS.
  destruct (attrs_map_ok (TM_bus b) HT) as [amap [Hfold Hlk]]. cbv zeta in Hfold.
  pose proof (all_t_ok_m b amap Hab Hlk) as Hok.
  destruct Hsb as [_ [_ [Hnn [Hdm [_ [Hms [Hcan [_ [_ Hes]]]]]]]]].
  cbn [b_nodes b_messages b_enums strip_bus] in Hnn, Hdm, Hms, Hcan, Hes.
  rewrite map_map in Hnn, Hdm, Hcan. cbn [n_name strip_node m_canid strip_msg] in Hnn, Hdm, Hcan.
  pose proof (strip_msgs_m _ _ _ Hms) as Hms'.
  apply Forall2_map_l in HF.
  assert (HB : Forall2 (fun m m' => Base (b_enums b) (is_enums st') (strip_msg m) m') (b_messages b) msgs').
  { eapply Forall2_conj_base; [exact Hms'| |exact HF].
    intros m _ s _. apply enum_wf_nth. assumption. }
  assert (Hcan' : map m_canid msgs' = map m_canid (b_messages b)).
  { eapply Forall2_map_eq; [exact HF|]. intros m m' _ HR. destruct (Rmsg_m_head _ _ _ _ HR) as [E _]. exact E. }
  assert (Hrel : Rs (Rn (is_sigmap st')) 0 (b_messages b) msgs').
  { eapply build_Rs; [exact Hms'|exact HB|exact HS]. }
  exists (all_result b (is_enums st') msgs'). split.
  - unfold export_import. rewrite HE. fold d. rewrite HI. rewrite import_attributes_unfold.
    change (d_attrdefs d) with (map reparse_def (ea_attrdefs (AM_of b))). change (d_attrs d) with (ea_attrs (AM_of b)).
    unfold AM_of at 1 2. rewrite Hfold. cbn [bind].
    assert (Hvals : d_attrvals d = avs (TM_bus b)).
    { change (d_attrvals d) with (map reparse_val (ea_attrvals (AM_of b))). unfold AM_of. rewrite fold_exp_vals. reflexivity. }
    rewrite Hvals. unfold TM_bus. rewrite avs_app, fold_left_app.
    rewrite fold_gen.
    2:{ intros a Ha. assert (Ht : t_ok amap (mktasg OGeneral EmptyString 0 EmptyString a)).
        { apply Hok. unfold TM_bus. apply in_or_app. left. apply in_map. assumption. }
        destruct Ht as [H1 H2]. split; assumption. }
    cbn [b_attrs].
    change (flat_map (TM_node b) (b_nodes b)) with (flat_map (Tn b TM_msg) (b_nodes b)).
    rewrite (gen_nodes amap (is_sigmap st') b TM_msg fin_msg_n (Rn (is_sigmap st')) (one_msg_n amap (is_sigmap st')) fin_msg_n_canid
               (b_nodes b) (mk_nodes 0 (map strip_node (b_nodes b))) _ []
               [mknode dummy_node 1024 EmptyString []] [] msgs' []).
    + cbn [app bind]. rewrite app_nil_r. unfold finish.
      cbn [b_messages b_nodes set_b_messages set_b_nodes set_b_attrs].
      unfold grouped in Hg. rewrite Hg.
      assert (Hnos : existsb (fun m => String.eqb (m_sender m) dummy_node) (zipf fin_msg_n (b_messages b) msgs') = false).
      { destruct (existsb _ _) eqn:E; [|reflexivity]. exfalso.
        apply existsb_exists in E. destruct E as [x [Hx He]]. apply String.eqb_eq in He.
        assert (Hsend : exists m, In m (b_messages b) /\ m_sender x = clear (m_sender m)).
        { clear - HF Hx. induction HF as [|m m' r r' HR HF IH]; cbn [zipf] in Hx; [destruct Hx|].
          destruct Hx as [<-|Hx].
          - exists m. split; [left; reflexivity|]. rewrite fin_msg_n_sender. destruct (Rmsg_m_head _ _ _ _ HR) as [_ [E _]]. exact E.
          - destruct (IH Hx) as [m1 [Hm1 Hs1]]. exists m1. split; [right; assumption|assumption]. }
        destruct Hsend as [m [Hm Hs]]. rewrite Forall_forall in Hms'.
        destruct (Hms' m Hm) as [_ [_ [_ [_ [_ [_ [_ [_ [_ [Hsn _]]]]]]]]]]. cbn [m_sender strip_msg] in Hsn.
        rewrite map_map in Hsn. cbn [n_name strip_node] in Hsn. apply in_map_iff in Hsn. destruct Hsn as [n [Hn1 Hn2]].
        apply Hdm. apply in_map_iff. exists n. split; [|assumption]. rewrite Hn1, <- Hs. assumption. }
      rewrite Hnos. rewrite filter_app. cbn [filter String.eqb negb]. rewrite app_nil_r.
      rewrite filter_all.
      2:{ intros x Hx. assert (Hin : In (n_name x) (map n_name (zipf fin_node (b_nodes b) (mk_nodes 0 (map strip_node (b_nodes b))))))
            by (apply in_map; assumption).
          rewrite zipf_names, mk_nodes_names, map_map in Hin. cbn [n_name strip_node] in Hin.
          destruct (String.eqb (n_name x) dummy_node) eqn:E; [|reflexivity]. apply String.eqb_eq in E. rewrite E in Hin. contradiction. }
      unfold all_result, set_b_nodes. cbn [b_name b_desc b_attrs b_enums b_messages].
      rewrite fold_app_attrs by (cbn [map app]; apply (proj1 (user_sorted _ Hub))). reflexivity.
    + intros t Ht. apply Hok. unfold TM_bus. apply in_or_app. right. assumption.
    + reflexivity.
    + apply mk_nodes_strip_rel.
    + cbn [app]. rewrite map_app, mk_nodes_names, map_map. cbn [map n_name strip_node]. apply NoDup_snoc; assumption.
    + intros n Hn Heq. apply Hdm. rewrite <- Heq. apply (in_map (fun n => clear (n_name n))). assumption.
    + cbn [app b_messages set_b_attrs]. rewrite app_nil_r. reflexivity.
    + cbn [app]. rewrite app_nil_r, Hcan'. assumption.
    + cbn [length]. unfold grouped in Hg. rewrite Hg. exact Hrel.
  - unfold proj_bus, all_result. cbn [b_desc b_attrs b_nodes b_enums b_messages]. f_equal.
    + apply proj_attrs_img. apply (proj1 Hub).
    + apply proj_nodes_fin. assumption.
    + f_equal.
      eapply (zipf_map_eq (fun m m' => Base (b_enums b) (is_enums st') (strip_msg m) m')); [exact HB|].
      intros m m' Hm HBm. rewrite Forall_forall in Hms', Hum. destruct (Hum m Hm) as [U1 [U2 U3]].
      pose proof (Hms' m Hm) as Hmm. unfold fin_msg_n.
      apply proj_message_n; try assumption.
      * apply (names_nodup (b_enums b) _ m Hmm).
      * apply (SX_perm (b_enums b) _ m Hmm).
      * destruct Hmm as [_ [_ [_ [_ [_ [_ [_ [_ [_ [_ [_ [_ Hre]]]]]]]]]]]]. cbn [m_signals m_receivers strip_msg] in Hre.
        intros E. apply Hre. rewrite E. reflexivity.
Qed.

(* ------------------------------------------------------------------------------------------
   the hypothesis is satisfiable: the bus of RoundTripMux.example_mux_bus with attributes on the bus, a node,
   the message that holds the multiplexer (with the dedicated timing / send-type fields), a plain signal, the
   multiplexer itself and two of its children (start value, send type, user attribute), and on the enum signal
   of the second message
   ------------------------------------------------------------------------------------------ *)
Local Open Scope string_scope.
Definition example_all_bus : bus :=
  mkbus "bus" "mux" [mkasg "BusStr" (DefString "d") (ValString "x")]
    [mknode "ECU 1" 3 "" []; mknode "GW" 7 "" [mkasg "NInt" (DefInt 1 0 10 false) (ValInt 5)]]
    [ mkenum "on off" [(1, "on"); (0, "off")] 1 0 ]
    [ mkmessage 256 "status" 4 LittleEndian 100 0 7 2 "ECU 1" ["GW"] ""
        [mkasg "MHex" (DefInt 0 0 255 true) (ValInt 16); mkasg "MEnum" (DefEnum "a" ["a"; "b"]) (ValString "b")]
        [ mksignal 0 "a" KStandard 0 None [] 8 false fl_one fl_zero fl_zero (mkfl 255 0) "" 0 0 0 "first" fl_zero 0 [a_flt (mkfl 1 1)];
          mksignal 1 "mode sel" KMux 8 None [] 0 false fl_one fl_zero fl_zero fl_zero "" 0 4 16 "the switch" fl_zero 3 [a_flt (mkfl 3 (-1))];
          std_sig 2 "c0" 0 8 (Some 1) [0; 2] "in two groups";
          mksignal 3 "c1" KEnum 0 (Some 1) [1] 0 false fl_one fl_zero fl_zero fl_zero "" 0 0 0 "an enum child" (mkfl 3 0) 0 [a_flt (mkfl 5 (-1))];
          mksignal 4 "c 2" KStandard 4 (Some 1) [1] 4 false fl_one fl_zero fl_zero (mkfl 255 0) "" 0 0 0 "a described child" fl_zero 2 [];
          mksignal 6 "fx" KStandard 8 (Some 1) [] 8 false fl_one fl_zero fl_zero (mkfl 255 0) "" 0 0 0 "fixed: in every group" fl_zero 0 [a_flt (mkfl 1 1)];
          mksignal 5 "z" KEnum 26 None [] 0 false fl_one fl_zero fl_zero fl_zero "" 0 0 0 "an enum beside the switch" fl_zero 0 [] ];
      mkmessage 512 "other" 1 BigEndian 0 20 0 0 "GW" [] "second" []
        [ mksignal 0 "n" KEnum 0 None [] 0 false fl_one fl_zero fl_zero fl_zero "" 0 0 0 "" fl_zero 3 [a_flt (mkfl 1 1)] ];
      mkmessage 768 "dual" 8 LittleEndian 0 0 0 1 "GW" ["ECU 1"] "two multiplexers" []
        [ mksignal 0 "m a" KMux 0 None [] 0 false fl_one fl_zero fl_zero fl_zero "" 0 2 8 "first switch" fl_zero 0 [a_flt (mkfl 1 1)];
          std_sig 1 "ka" 0 8 (Some 0) [0] "";
          mksignal 2 "m b" KMux 16 None [] 0 false fl_one fl_zero fl_zero fl_zero "" 0 2 8 "" fl_zero 2 [];
          mksignal 3 "kb" KStandard 0 (Some 2) [1] 4 false fl_one fl_zero fl_zero (mkfl 255 0) "" 0 0 0 "under the second switch" (mkfl 1 1) 0 [a_flt (mkfl 3 (-1))];
          std_sig 4 "kf" 4 4 (Some 2) [] "";
          std_sig 5 "p" 40 8 None [] "" ] ].

Example example_all_bus_ok : ambus example_all_bus.
Proof.
  unfold ambus. split; [reflexivity|]. split.
  { change (strip_bus example_all_bus) with example_mux_bus. exact example_mux_bus_ok. }
  split.
  { unfold T_ok. let L := eval vm_compute in (TM_bus example_all_bus) in change (TM_bus example_all_bus) with L. split.
    - apply Forall_forall.
      repeat (apply Forall_cons;
        [unfold t_def; cbn [t_asg aa_def]; unfold wf_def, msg_cycle_att, msg_delay_att, msg_start_delay_att, msg_send_att, sig_start_att, sig_send_att;
         first [exact I
               | (split; [lia|intros Hh; first [discriminate Hh | (split; cbn; lia)]])
               | (split; [reflexivity|split; [reflexivity|first [left; split; reflexivity|right; reflexivity]]])
               | (split; [repeat constructor; cbn; intuition discriminate|eexists; reflexivity])]|]).
      apply Forall_nil.
    - match goal with |- forall t t', In t ?L -> _ =>
        assert (HH : Forall (fun t => Forall (fun t' => tname t = tname t' -> t_def t = t_def t') L) L) end.
      { repeat (apply Forall_cons; [repeat (apply Forall_cons; [intros Hh; first [reflexivity | (vm_compute in Hh; discriminate Hh)]|]); apply Forall_nil|]).
        apply Forall_nil. }
      intros t t' Ht Ht'. rewrite Forall_forall in HH. specialize (HH t Ht). rewrite Forall_forall in HH. apply HH; assumption. }
  split; [asgs_tac|]. split.
  { repeat (apply Forall_cons; [cbn [n_attrs]; asgs_tac|]). apply Forall_nil. }
  repeat (apply Forall_cons; [cbn [m_attrs m_sendtype m_signals]; split; [asgs_tac|]; split; [lia|];
     repeat (apply Forall_cons; [cbn [s_attrs s_startval s_sendtype std_sig]; split; [asgs_tac|]; split; [first [left; split; reflexivity|right; reflexivity]|lia]|]);
     try apply Forall_nil|]).
  apply Forall_nil.
Qed.

Example example_all_bus_roundtrip :
  exists b', export_import example_all_bus = Ok b' /\ proj_bus b' = proj_bus example_all_bus /\
             map (fun m => (m_cycle m, m_startdelay m, m_sendtype m, map aa_name (m_attrs m),
                            map (fun s => (s_name s, s_parent s, s_groups s, s_startval s, s_sendtype s, map aa_val (s_attrs s))) (m_signals m)))
                 (b_messages b')
             = [ (100, 7, 2, ["MEnum"; "MHex"],
                  [ ("a", None, [], fl_zero, 0, [ValFloat (mkfl 1 1)]); ("z", None, [], fl_zero, 0, []);
                    ("mode_sel", None, [], fl_zero, 3, [ValFloat (mkfl 3 (-1))]);
                    ("c0", Some 1, [0; 2], fl_zero, 0, []); ("c1", Some 1, [1], mkfl 3 0, 0, [ValFloat (mkfl 5 (-1))]);
                    ("c_2", Some 1, [1], fl_zero, 2, []); ("fx", Some 1, [], fl_zero, 0, [ValFloat (mkfl 1 1)]) ]);
                 (0, 0, 0, [], [("n", None, [], fl_zero, 3, [ValFloat (mkfl 1 1)])]);
                 (0, 0, 1, [],
                  [ ("p", None, [], fl_zero, 0, []); ("m_b", None, [], fl_zero, 2, []);
                    ("kb", Some 2, [1], mkfl 1 1, 0, [ValFloat (mkfl 3 (-1))]); ("kf", Some 2, [], fl_zero, 0, []);
                    ("m_a", None, [], fl_zero, 0, [ValFloat (mkfl 1 1)]); ("ka", Some 0, [0], fl_zero, 0, []) ]) ].
Proof. eexists. split; [vm_compute; reflexivity|]. split; vm_compute; reflexivity. Qed.

(* ------------------------------------------------------------------------------------------
   the fragment of RoundTripMux (no attributes) lies inside the merged fragment: its theorem is a corollary
   ------------------------------------------------------------------------------------------ *)
Lemma strip_sig_id : forall s, s_startval s = fl_zero -> s_sendtype s = 0 -> s_attrs s = [] -> strip_sig s = s.
Proof. intros s H1 H2 H3. destruct s. cbn in *. subst. reflexivity. Qed.
Lemma strip_node_id : forall n, n_attrs n = [] -> strip_node n = n.
Proof. intros n H. destruct n. cbn in *. subst. reflexivity. Qed.

Lemma mmessage_zero : forall es names m, mmessage es names m ->
  forall s, In s (m_signals m) -> s_startval s = fl_zero /\ s_sendtype s = 0 /\ s_attrs s = [].
Proof.
  intros es names m [_ [_ [_ [_ [_ [_ [_ [[_ [_ [Htops [_ [Hch _]]]]] _]]]]]]]] s Hs.
  destruct (is_topb s) eqn:Et.
  - rewrite Forall_forall in Htops. destruct (Htops s (proj2 (filter_In _ _ _) (conj Hs Et))) as [_ [_ [H1 [H2 [H3 _]]]]]. auto.
  - destruct (Hch s Hs Et) as [mx [_ [_ [_ [_ [_ [_ [H1 [H2 [H3 _]]]]]]]]]]. auto.
Qed.

Lemma mbus_strip_id : forall b, mbus b -> strip_bus b = b.
Proof.
  intros b [Ha [Hn [_ [_ [_ [Hm _]]]]]]. destruct b as [bn bd ba bns bes bms]. cbn [b_attrs b_nodes b_messages b_enums] in *. subst ba.
  unfold strip_bus. cbn [b_name b_desc b_nodes b_enums b_messages]. f_equal.
  - rewrite <- (map_id bns) at 2. apply map_ext_in. intros n Hin. rewrite Forall_forall in Hn. apply strip_node_id. apply Hn. assumption.
  - rewrite <- (map_id bms) at 2. apply map_ext_in. intros m Hin. rewrite Forall_forall in Hm. pose proof (Hm m Hin) as Hmm.
    pose proof (mmessage_zero _ _ _ Hmm) as Hz. destruct Hmm as [A1 [A2 [A3 [A4 [A5 _]]]]].
    destruct m as [ci nm sz od cy dl sd st sn rc ds at_ sg]. cbn [m_attrs m_cycle m_delay m_startdelay m_sendtype m_signals] in *. subst.
    unfold strip_msg. cbn [m_canid m_name m_size m_order m_sender m_receivers m_desc m_signals]. f_equal.
    rewrite <- (map_id sg) at 2. apply map_ext_in. intros s Hs. destruct (Hz s Hs) as [Z1 [Z2 Z3]]. apply strip_sig_id; assumption.
Qed.

Theorem mbus_ambus : forall b, mbus b -> ambus b.
Proof.
  intros b Hb. pose proof (mbus_strip_id b Hb) as Hs. pose proof Hb as [Ha [Hn [_ [_ [_ [Hm [_ [_ [Hg _]]]]]]]]].
  assert (Hu0 : user_asgs_ok []) by (split; constructor).
  assert (HTm : forall m, In m (b_messages b) -> TM_msg m = []).
  { intros m Hin. rewrite Forall_forall in Hm. pose proof (Hm m Hin) as Hmm. pose proof (mmessage_zero _ _ _ Hmm) as Hz.
    destruct Hmm as [A1 [A2 [A3 [A4 [A5 _]]]]]. unfold TM_msg, wk_msg. rewrite A1, A2, A3, A4, A5. cbn [sort_attrs sort_by fold_right Z.eqb app map].
    assert (G : forall l, (forall s, In s l -> In s (m_signals m)) -> flat_map (T_sig (u32 (m_canid m))) l = []).
    { induction l as [|s r IH]; intros Hl; [reflexivity|]. cbn [flat_map]. rewrite IH by (intros x Hx; apply Hl; right; assumption).
      destruct (Hz s (Hl s (or_introl eq_refl))) as [Z1 [Z2 Z3]]. unfold T_sig, wk_sig. rewrite Z1, Z2, Z3. reflexivity. }
    apply G. intros s Hs'. apply (SX_in m s Hs'). }
  assert (HT : TM_bus b = []).
  { unfold TM_bus. rewrite Ha. cbn [sort_attrs sort_by fold_right map app].
    assert (G : forall ns, (forall n, In n ns -> n_attrs n = []) -> flat_map (TM_node b) ns = []).
    { induction ns as [|n r IH]; intros Hns; [reflexivity|]. cbn [flat_map]. rewrite IH by (intros x Hx; apply Hns; right; assumption).
      unfold TM_node. rewrite (Hns n (or_introl eq_refl)). cbn [sort_attrs sort_by fold_right map app].
      assert (Gm : forall l, (forall m, In m l -> In m (b_messages b)) -> flat_map TM_msg l = []).
      { induction l as [|m q IHq]; intros Hl; [reflexivity|]. cbn [flat_map]. rewrite (HTm m (Hl m (or_introl eq_refl))), IHq by (intros x Hx; apply Hl; right; assumption). reflexivity. }
      rewrite Gm; [reflexivity|]. intros m Hm'. apply filter_In in Hm'. tauto. }
    apply G. intros n Hin. rewrite Forall_forall in Hn. apply Hn. assumption. }
  split; [exact Hg|]. split; [rewrite Hs; exact Hb|]. split; [rewrite HT; split; [intros t []|intros t t' []]|]. split; [rewrite Ha; exact Hu0|]. split.
  - eapply Forall_impl; [|exact Hn]. intros n Hna. rewrite Hna. exact Hu0.
  - apply Forall_forall. intros m Hin. rewrite Forall_forall in Hm. pose proof (Hm m Hin) as Hmm. pose proof (mmessage_zero _ _ _ Hmm) as Hz.
    destruct Hmm as [A1 [_ [_ [_ [A5 _]]]]]. rewrite A1, A5. split; [exact Hu0|]. split; [lia|].
    apply Forall_forall. intros s Hs'. destruct (Hz s Hs') as [Z1 [Z2 Z3]]. rewrite Z1, Z2, Z3. split; [exact Hu0|]. split; [|lia].
    first [left; split; reflexivity|right; reflexivity].
Qed.

Corollary export_import_mux_from_all : forall b, mbus b -> exists b', export_import b = Ok b' /\ proj_bus b' = proj_bus b.
Proof. intros b Hb. apply export_import_all_thm. apply mbus_ambus. assumption. Qed.

(* the fragments of RoundTripEnum / RoundTripAttr lie inside as well, when the signal ids of every message are
   distinct (those fragments never look at ids; the multiplexer fragment resolves parents through them) *)
Lemma emessage_mmessage : forall es names m, emessage es names m -> NoDup (map s_id (m_signals m)) -> mmessage es names m.
Proof.
  intros es names m [Ha [Hc [Hdl [Hsd [Hst [Hid [Hsz [Hps [Hlay [Hnn [Hsn [Hrc [Hrn Hre]]]]]]]]]]]]] Hids.
  assert (Hall : filter is_topb (m_signals m) = m_signals m).
  { apply filter_all. intros s Hs. rewrite Forall_forall in Hps. destruct (Hps s Hs) as [Hp _]. unfold is_topb. rewrite Hp. reflexivity. }
  assert (Hnm : forall s, In s (m_signals m) -> is_muxb s = false).
  { intros s Hs. rewrite Forall_forall in Hps. destruct (Hps s Hs) as [_ [_ [_ [_ [_ [_ Hk]]]]]]. unfold is_muxb. destruct (s_kind s); try reflexivity. destruct Hk. }
  refine (conj Ha (conj Hc (conj Hdl (conj Hsd (conj Hst (conj Hid (conj Hsz (conj _ (conj _ (conj Hsn (conj Hrc (conj Hrn Hre)))))))))))).
  - split; [exact Hids|]. split; [exact Hnn|]. split.
    { rewrite Hall. eapply Forall_impl; [|exact Hps]. intros s [H1 [H2 [H3 [H4 [H5 [H6 H7]]]]]].
      refine (conj H1 (conj H2 (conj H3 (conj H4 (conj H5 (conj H6 _)))))). destruct (s_kind s); try assumption. destruct H7. }
    split; [intros a Ha0 Hma; rewrite (Hnm a Ha0) in Hma; discriminate|].
    split; [intros c Hc0 Hct; rewrite <- Hall in Hc0; apply filter_In in Hc0; destruct Hc0 as [_ Hc0]; congruence|].
    intros c c' Hc0 _ Hct. rewrite <- Hall in Hc0. apply filter_In in Hc0. destruct Hc0 as [_ Hc0]. congruence.
  - rewrite Hall. exact Hlay.
Qed.

Lemma SX_plain : forall m, (forall s, In s (m_signals m) -> is_topb s = true /\ is_muxb s = false) -> SX m = m_signals m.
Proof.
  intros m H. unfold SX. rewrite filter_all by (intros s Hs; apply (H s Hs)).
  assert (G : forall l, (forall s, In s l -> is_muxb s = false) -> flat_map (tx (m_signals m)) l = l).
  { induction l as [|t r IH]; intros Hl; [reflexivity|]. cbn [flat_map]. unfold tx at 1. rewrite (Hl t (or_introl eq_refl)), IH by (intros x Hx; apply Hl; right; assumption). reflexivity. }
  apply G. intros s Hs. apply (H s Hs).
Qed.

Theorem abus_ambus : forall b, abus b -> Forall (fun m => NoDup (map s_id (m_signals m))) (b_messages b) -> ambus b.
Proof.
  intros b [Hg [Hsb [HT [Hub [Hun Hum]]]]] Hids.
  pose proof Hsb as [Ha [Hn [Hnn [Hdm [Hlen [Hm [Hcan [Hpair [Hgg Hes]]]]]]]]].
  cbn [b_messages b_nodes b_enums strip_bus] in Hm.
  assert (Hmb : mbus (strip_bus b)).
  { refine (conj Ha (conj Hn (conj Hnn (conj Hdm (conj Hlen (conj _ (conj Hcan (conj Hpair (conj Hgg Hes))))))))).
    cbn [b_messages b_nodes b_enums strip_bus]. apply Forall_forall. intros xm Hxm. rewrite Forall_forall in Hm.
    apply emessage_mmessage; [apply Hm; assumption|]. apply in_map_iff in Hxm. destruct Hxm as [m [<- Hin]].
    cbn [m_signals strip_msg]. rewrite map_map. cbn [s_id strip_sig]. rewrite Forall_forall in Hids. apply (Hids m Hin). }
  assert (HSX : forall m, In m (b_messages b) -> SX m = m_signals m).
  { intros m Hin. apply SX_plain. intros s Hs. rewrite Forall_forall in Hm.
    destruct (Hm (strip_msg m) (in_map strip_msg _ _ Hin)) as [_ [_ [_ [_ [_ [_ [_ [Hps _]]]]]]]]. rewrite Forall_forall in Hps.
    destruct (Hps (strip_sig s) (in_map strip_sig _ _ Hs)) as [Hp [_ [_ [_ [_ [_ Hk]]]]]]. cbn [s_parent s_kind strip_sig] in Hp, Hk.
    split; [unfold is_topb; rewrite Hp; reflexivity|unfold is_muxb; destruct (s_kind s); try reflexivity; destruct Hk]. }
  assert (HTM : TM_bus b = T_bus b).
  { unfold TM_bus, T_bus. f_equal. apply flat_map_ext_in_simple. intros n _. unfold TM_node, T_node. f_equal.
    apply flat_map_ext_in_simple. intros m Hin. apply filter_In in Hin. destruct Hin as [Hin _]. unfold TM_msg, T_msg. rewrite (HSX m Hin). reflexivity. }
  split; [exact Hg|]. split; [exact Hmb|]. split; [rewrite HTM; exact HT|]. auto.
Qed.
