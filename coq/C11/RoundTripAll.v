(* C11 — ONE whole-bus theorem for the union of the fragments: standard and enum signals, descriptions,
   attribute assignments of the four types (and hex) on bus, nodes, messages and signals together with the
   six dedicated fields, and per message at most one simple multiplexer (standard children, one group each)
   whose message may carry attributes on every signal, the multiplexer and its children included.
   Structure: RoundTripMux on the stripped bus; attribute layer: RoundTripAttr's, with the signals of a
   message located by name / id instead of by position (the importer re-orders the signals of a message that
   holds a multiplexer). *)
From Coq Require Import String Ascii ZArith List Bool Lia Permutation.
From Coq Require Import ZifyBool.
From Acme.C10 Require Import DbcDoc BusModel Import Export Bits.
From Acme.C10 Require Proofs ProofsEnum ProofsLayout ProofsFaithful ProofsIds ProofsMux.
From Acme.C11 Require Import Strings Proofs RoundTrip RoundTripEnum RoundTripAttr RoundTripMux.
Import ListNotations.
Open Scope Z_scope.

(* ---------------- the signals of a message in export order ---------------- *)
Definition walk_of (sigs : list signal) (t : signal) : list signal :=
  flat_map (fun id => filter (fun c => in_group c id) (children sigs t)) (zrange 0 (Z.to_nat (s_gcount t))).
Definition SX (m : message) : list signal :=
  flat_map (fun t => t :: (if is_muxb t then walk_of (m_signals m) t else [])) (filter is_topb (m_signals m)).

Definition TM_msg (m : message) : list tasg :=
  map (mktasg OMessage EmptyString (u32 (m_canid m)) EmptyString) (sort_attrs (m_attrs m) ++ wk_msg m)
  ++ flat_map (T_sig (u32 (m_canid m))) (SX m).
Definition TM_node (b : bus) (n : node) : list tasg :=
  map (mktasg ONode (clear (n_name n)) 0 EmptyString) (sort_attrs (n_attrs n))
  ++ flat_map TM_msg (filter (fun m => String.eqb (m_sender m) (n_name n)) (b_messages b)).
Definition TM_bus (b : bus) : list tasg :=
  map (mktasg OGeneral EmptyString 0 EmptyString) (sort_attrs (b_attrs b)) ++ flat_map (TM_node b) (b_nodes b).

(* ---------------- structure of the unstripped signals, from the stripped message ---------------- *)
Section StripFacts.
  Variables (es : list enum_def) (names : list string) (m : message).
  Hypothesis Hmm : mmessage es names (strip_msg m).
  Let sigs := m_signals m.
  Let Hms : msigs_ok es (map strip_sig sigs).
  Proof. destruct Hmm as [_ [_ [_ [_ [_ [_ [_ [H _]]]]]]]]. exact H. Qed.

  Lemma ids_nodup : NoDup (map s_id sigs).
  Proof. destruct Hms as [H _]. rewrite map_map in H. exact H. Qed.
  Lemma names_nodup : NoDup (map (fun s => clear (s_name s)) sigs).
  Proof. destruct Hms as [_ [H _]]. rewrite map_map in H. exact H. Qed.

  Lemma top_strip : forall t, In t sigs -> is_topb t = true -> top_ok es (strip_sig t).
  Proof.
    intros t Ht Htt. destruct Hms as [_ [_ [Htops _]]]. rewrite Forall_forall in Htops. apply Htops.
    apply filter_In. split; [apply in_map; assumption|exact Htt].
  Qed.

  Lemma mux_unique : forall a b, In a sigs -> In b sigs -> is_muxb a = true -> is_muxb b = true -> a = b.
  Proof.
    intros a b Ha Hb Hma Hmb. destruct Hms as [_ [_ [_ [Hu _]]]].
    assert (E : strip_sig a = strip_sig b) by (apply Hu; try (apply in_map; assumption); assumption).
    apply (NoDup_map_inj s_id sigs); [exact ids_nodup|assumption|assumption|]. apply (f_equal s_id) in E. exact E.
  Qed.

  Lemma child_strip : forall c, In c sigs -> is_topb c = false ->
    exists mx, In mx sigs /\ is_topb mx = true /\ is_muxb mx = true /\ child_ok (strip_sig mx) (strip_sig c).
  Proof.
    intros c Hc Hct. destruct Hms as [_ [_ [_ [_ [Hch _]]]]].
    destruct (Hch (strip_sig c) (in_map strip_sig _ _ Hc) Hct) as [mx' [Hmx' [Ht [Hm Hok]]]].
    apply in_map_iff in Hmx'. destruct Hmx' as [mx [<- Hmx]]. exists mx. auto.
  Qed.

  Lemma kids_strip : forall mx, In mx sigs -> is_muxb mx = true ->
    Forall (fun c => child_ok (strip_sig mx) (strip_sig c)) (children sigs mx) /\
    NoDup (map (fun c => clear (s_name c)) (children sigs mx)).
  Proof.
    intros mx Hmx Hm. split.
    - apply Forall_forall. intros c Hc. unfold children in Hc. apply Proofs.In_sort_by in Hc. apply filter_In in Hc. destruct Hc as [Hc Hp].
      destruct (s_parent c) as [q|] eqn:Ep; [|discriminate].
      destruct (child_strip c Hc ltac:(unfold is_topb; rewrite Ep; reflexivity)) as [mx' [Hmx' [_ [Hm' Hok]]]].
      rewrite (mux_unique mx mx' Hmx Hmx' Hm Hm'). exact Hok.
    - eapply Permutation_NoDup; [apply Permutation_map; apply sort_by_perm|]. apply NoDup_map_filter. exact names_nodup.
  Qed.
End StripFacts.

(* ---------------- the exporter with attribute accumulators, multiplexer included ---------------- *)
Section GWalk.
  Variables (es : list enum_def) (sigs : list signal) (order : byte_order) (msgid : Z) (recs : list string) (many : bool).
  Variable mx : signal.
  Hypothesis Hids : NoDup (map s_id sigs).
  Hypothesis Hmx : In mx sigs.
  Hypothesis Hpm : s_parent mx = None.
  Let K := children sigs mx.
  Hypothesis HK : Forall (fun c => child_ok (strip_sig mx) (strip_sig c)) K.
  Hypothesis HKn : NoDup (map (fun c => clear (s_name c)) K).

  Lemma export_child_g : forall fuel c cms vs msgs sg L A,
    child_ok (strip_sig mx) (strip_sig c) ->
    export_signal es sigs order msgid recs many fuel c (gacc cms vs msgs sg L A)
    = gacc cms vs msgs (sg ++ [child_dsig order recs mx 0 c]) L (fold_left exp_t (T_sig msgid c) A).
  Proof.
    intros fuel c cms vs msgs sg L A [Hk [Hp [_ [Hd _]]]]. cbn [s_kind s_parent s_desc strip_sig s_id] in Hk, Hp, Hd.
    assert (Habs : abs_start (length sigs) sigs c = s_rel mx + sel_width mx + s_rel c).
    { destruct sigs as [|x r] eqn:Es; [destruct Hmx|]. rewrite <- Es in *.
      replace (length sigs) with (S (length r)) by (rewrite Es; reflexivity).
      cbn [abs_start]. rewrite Hp, (ProofsIds.find_sig_unique sigs mx Hids Hmx), abs_start_top by assumption. reflexivity. }
    unfold T_sig, wk_sig.
    destruct fuel; cbn [export_signal]; rewrite Hp, Hk, Hd, Habs; cbn [String.eqb]; rewrite asgs_gacc; reflexivity.
  Qed.

  Lemma in_group_grp_s : forall c id, child_ok (strip_sig mx) (strip_sig c) -> in_group c id = (id =? grp c).
  Proof.
    intros c id [_ [_ [[g [Hg _]] _]]]. cbn [s_groups strip_sig] in Hg. unfold in_group, grp. rewrite Hg. unfold mem_z. cbn [existsb]. rewrite orb_false_r. reflexivity.
  Qed.

  Lemma walk_inner_g : forall k id l S gmap names cms vs msgs sg L A,
    Forall (fun c => child_ok (strip_sig mx) (strip_sig c)) l ->
    (forall cn v, lookup String.eqb cn gmap = Some v -> In cn S) ->
    NoDup (map (fun c => clear (s_name c)) l) ->
    (forall c, In c l -> in_group c id = true -> ~ In (clear (s_name c)) S) ->
    exists gmap' names',
      fold_left (wstep es sigs order msgid recs many k id) l (gacc cms vs msgs sg L A, names, gmap, false, false)
      = (gacc cms vs msgs (sg ++ map (child_dsig order recs mx (u32 id)) (filter (fun c => in_group c id) l)) L
              (fold_left exp_t (flat_map (T_sig msgid) (filter (fun c => in_group c id) l)) A), names', gmap', false, false) /\
      (forall cn v, lookup String.eqb cn gmap' = Some v -> In cn (S ++ map (fun c => clear (s_name c)) (filter (fun c => in_group c id) l))).
  Proof.
    intros k id l. induction l as [|c r IH]; intros S gmap names cms vs msgs sg L A Hl HG Hnd HS; cbn [fold_left filter map flat_map].
    - exists gmap, names. rewrite !app_nil_r. split; [reflexivity|exact HG].
    - inversion Hl as [|? ? Hc Hr]; subst. cbn [map] in Hnd. inversion Hnd as [|? ? Hni Hndr]; subst.
      unfold wstep at 2. destruct (in_group c id) eqn:Eg; cbn [negb].
      + assert (Hnone : lookup String.eqb (clear (s_name c)) gmap = None).
        { destruct (lookup String.eqb (clear (s_name c)) gmap) as [v|] eqn:El; [|reflexivity].
          exfalso. apply (HS c (or_introl eq_refl) Eg). eapply HG. exact El. }
        rewrite Hnone. rewrite (export_child_g k c) by assumption.
        assert (Hk : s_kind c = KStandard) by (destruct Hc as [Hk _]; exact Hk). rewrite Hk. cbn [orb].
        replace (set_sigs (set_last_switch (u32 id) (ea_sigs (gacc cms vs msgs (sg ++ [child_dsig order recs mx 0 c]) L (fold_left exp_t (T_sig msgid c) A))))
                          (gacc cms vs msgs (sg ++ [child_dsig order recs mx 0 c]) L (fold_left exp_t (T_sig msgid c) A)))
          with (gacc cms vs msgs (sg ++ [child_dsig order recs mx (u32 id) c]) L (fold_left exp_t (T_sig msgid c) A))
          by (unfold gacc, set_sigs; cbn [ea_sigs ea_comments ea_attrs ea_attrdefs ea_attrvals ea_valencs ea_extmuxes ea_messages ea_names ea_enums];
              rewrite set_last_switch_snoc; reflexivity).
        destruct (IH (S ++ [clear (s_name c)]) ((clear (s_name c), [id]) :: gmap) (names ++ [clear (s_name c)]) cms vs msgs
                     (sg ++ [child_dsig order recs mx (u32 id) c]) L (fold_left exp_t (T_sig msgid c) A) Hr) as [gmap' [names' [E1 E2]]].
        * intros cn v Hlk. cbn [lookup] in Hlk. destruct (String.eqb cn (clear (s_name c))) eqn:E.
          -- apply String.eqb_eq in E. subst. apply in_or_app. right. left. reflexivity.
          -- apply in_or_app. left. eapply HG. exact Hlk.
        * assumption.
        * intros c' Hc' Hg' Hin. apply in_app_or in Hin. destruct Hin as [Hin|[Hin|[]]].
          -- apply (HS c' (or_intror Hc') Hg' Hin).
          -- apply Hni. rewrite Hin. apply (in_map (fun c => clear (s_name c))). assumption.
        * exists gmap', names'. split.
          -- rewrite E1. cbn [map flat_map]. rewrite fold_left_app, <- app_assoc. reflexivity.
          -- intros cn v Hlk. specialize (E2 cn v Hlk). cbn [map]. rewrite <- app_assoc in E2. exact E2.
      + apply IH; try assumption. intros c' Hc'. apply HS. right. assumption.
  Qed.

  Lemma walk_outer_g : forall k ids S gmap names cms vs msgs sg L A,
    NoDup ids ->
    (forall cn v, lookup String.eqb cn gmap = Some v -> In cn S) ->
    (forall c, In c K -> In (clear (s_name c)) S -> ~ In (grp c) ids) ->
    exists gmap' names',
      fold_left (fun st id => fold_left (wstep es sigs order msgid recs many k id) K st) ids (gacc cms vs msgs sg L A, names, gmap, false, false)
      = (gacc cms vs msgs (sg ++ wsigs sigs order recs mx ids) L
              (fold_left exp_t (flat_map (T_sig msgid) (flat_map (fun id => filter (fun c => in_group c id) K) ids)) A), names', gmap', false, false).
  Proof.
    intros k ids. induction ids as [|id r IH]; intros S gmap names cms vs msgs sg L A Hnd HG HS; cbn [fold_left wsigs flat_map].
    - exists gmap, names. rewrite app_nil_r. reflexivity.
    - inversion Hnd as [|? ? Hni Hr]; subst.
      destruct (walk_inner_g k id K S gmap names cms vs msgs sg L A HK HG HKn) as [gmap1 [names1 [E1 E2]]].
      { intros c Hc Hg Hin. apply (HS c Hc Hin). left. rewrite (in_group_grp_s c id) in Hg by (rewrite Forall_forall in HK; apply HK; assumption).
        apply Z.eqb_eq in Hg. exact Hg. }
      rewrite E1.
      destruct (IH (S ++ map (fun c => clear (s_name c)) (filter (fun c => in_group c id) K)) gmap1 names1 cms vs msgs
                   (sg ++ map (child_dsig order recs mx (u32 id)) (filter (fun c => in_group c id) K)) L
                   (fold_left exp_t (flat_map (T_sig msgid) (filter (fun c => in_group c id) K)) A) Hr E2) as [gmap' [names' E]].
      { intros c Hc Hin Hg. apply in_app_or in Hin. destruct Hin as [Hin|Hin].
        - apply (HS c Hc Hin). right. assumption.
        - apply in_map_iff in Hin. destruct Hin as [c' [Hn Hc']]. apply filter_In in Hc'. destruct Hc' as [Hc'K Hg'].
          assert (c' = c) by (apply (NoDup_map_inj (fun c => clear (s_name c)) K); assumption). subst c'.
          rewrite (in_group_grp_s c id) in Hg' by (rewrite Forall_forall in HK; apply HK; assumption).
          apply Z.eqb_eq in Hg'. apply Hni. rewrite Hg'. exact Hg. }
      exists gmap', names'. rewrite E. unfold wsigs. rewrite flat_map_app, fold_left_app, <- app_assoc. reflexivity.
  Qed.
End GWalk.

Lemma export_top_g : forall es sigs order msgid recs k s cms vs msgs sg L A,
  NoDup (map s_id sigs) -> In s sigs -> top_ok es (strip_sig s) ->
  (is_muxb s = true -> Forall (fun c => child_ok (strip_sig s) (strip_sig c)) (children sigs s) /\
                       NoDup (map (fun c => clear (s_name c)) (children sigs s))) ->
  export_signal es sigs order msgid recs false (S k) s (gacc cms vs msgs sg L A)
  = gacc (cms ++ sig_cms msgid s) (vs ++ venc_e es msgid s) msgs (sg ++ tdsigs es sigs order recs s) (enums_step L s)
         (fold_left exp_t (flat_map (T_sig msgid) (s :: (if is_muxb s then walk_of sigs s else []))) A).
Proof.
  intros es sigs order msgid recs k s cms vs msgs sg L A Hids Hin Htop Hkids.
  destruct Htop as [Hp [Hg [_ [_ [_ [Hr Hm]]]]]]. cbn [s_parent s_groups s_rel s_kind strip_sig s_size s_gcount s_gsize] in Hp, Hg, Hr, Hm.
  destruct (s_kind s) eqn:Ek.
  - unfold tdsigs, is_muxb. rewrite Ek. cbn [flat_map]. rewrite app_nil_r. apply export_signal_g.
    unfold esig_ok. cbn [s_parent s_groups s_startval s_sendtype s_attrs s_rel s_kind strip_sig s_size]. rewrite Ek. auto 10.
  - unfold tdsigs, is_muxb. rewrite Ek. cbn [flat_map]. rewrite app_nil_r. apply export_signal_g.
    unfold esig_ok. cbn [s_parent s_groups s_startval s_sendtype s_attrs s_rel s_kind strip_sig s_size]. rewrite Ek. auto 10.
  - destruct (Hkids ltac:(unfold is_muxb; rewrite Ek; reflexivity)) as [HK HKn].
    unfold sig_cms, opt_cm, venc_e, enums_step, tdsigs, is_muxb. rewrite Ek. rewrite app_nil_r.
    cbn [export_signal]. rewrite Hp, Ek.
    rewrite abs_start_top by assumption.
    assert (Hcm : (if String.eqb (s_desc s) EmptyString then gacc cms vs msgs sg L A
                   else add_comment (mkdcomment OSignal (s_desc s) EmptyString msgid (clear (s_name s))) (gacc cms vs msgs sg L A))
                  = gacc (cms ++ (if String.eqb (s_desc s) EmptyString then [] else [mkdcomment OSignal (s_desc s) EmptyString msgid (clear (s_name s))])) vs msgs sg L A).
    { destruct (String.eqb (s_desc s) EmptyString); [rewrite app_nil_r|]; reflexivity. }
    rewrite Hcm. fold (wk_sig s). rewrite asgs_gacc. fold (T_sig msgid s).
    change (add_sig ?d (gacc ?c ?v ?m ?g ?l ?a)) with (gacc c v m (g ++ [d]) l a).
    destruct (walk_outer_g es sigs order msgid recs false s Hids Hin Hp HK HKn k (zrange 0 (Z.to_nat (s_gcount s))) [] [] []
                (cms ++ (if String.eqb (s_desc s) EmptyString then [] else [mkdcomment OSignal (s_desc s) EmptyString msgid (clear (s_name s))]))
                vs msgs (sg ++ [mux_dsig order recs s]) L (fold_left exp_t (T_sig msgid s) A) (zrange_nodup _ _)) as [gmap' [names' E]].
    + intros cn v Hl. discriminate Hl.
    + intros c _ [].
    + match goal with |- context[fold_left ?f (zrange 0 ?n) ?init] =>
        replace (fold_left f (zrange 0 n) init) with
          (gacc (cms ++ (if String.eqb (s_desc s) EmptyString then [] else [mkdcomment OSignal (s_desc s) EmptyString msgid (clear (s_name s))]))
                vs msgs ((sg ++ [mux_dsig order recs s]) ++ wsigs sigs order recs s (zrange 0 (Z.to_nat (s_gcount s)))) L
                (fold_left exp_t (flat_map (T_sig msgid) (flat_map (fun id => filter (fun c => in_group c id) (children sigs s)) (zrange 0 (Z.to_nat (s_gcount s))))) (fold_left exp_t (T_sig msgid s) A)),
           names', gmap', false, false)
          by (symmetry; exact E) end.
      cbn [negb andb flat_map]. unfold walk_of. rewrite fold_left_app, <- app_assoc. reflexivity.
Qed.

Lemma export_tops_g : forall es sigs order msgid recs k l cms vs msgs sg L A,
  NoDup (map s_id sigs) ->
  (forall s, In s l -> In s sigs /\ top_ok es (strip_sig s) /\
     (is_muxb s = true -> Forall (fun c => child_ok (strip_sig s) (strip_sig c)) (children sigs s) /\
                          NoDup (map (fun c => clear (s_name c)) (children sigs s)))) ->
  fold_left (fun a s => export_signal es sigs order msgid recs false (S k) s a) l (gacc cms vs msgs sg L A)
  = gacc (cms ++ flat_map (sig_cms msgid) l) (vs ++ flat_map (venc_e es msgid) l) msgs
         (sg ++ flat_map (tdsigs es sigs order recs) l) (fold_left enums_step l L)
         (fold_left exp_t (flat_map (T_sig msgid) (flat_map (fun t => t :: (if is_muxb t then walk_of sigs t else [])) l)) A).
Proof.
  intros es sigs order msgid recs k l. induction l as [|s r IH]; intros cms vs msgs sg L A Hids H; cbn [fold_left flat_map].
  - rewrite !app_nil_r. reflexivity.
  - destruct (H s (or_introl eq_refl)) as [H1 [H2 H3]]. rewrite export_top_g by assumption.
    rewrite IH by (try assumption; intros x Hx; apply H; right; assumption).
    rewrite flat_map_app, fold_left_app, <- !app_assoc. reflexivity.
Qed.

(* ---------------- stripping commutes with what the exporter computes from the signal list ---------------- *)
Lemma filter_map_comm : forall {A B} (f : A -> B) (p : B -> bool) l, filter p (map f l) = map f (filter (fun x => p (f x)) l).
Proof. intros A B f p l. induction l as [|x r IH]; [reflexivity|]. cbn [map filter]. destruct (p (f x)); cbn [map]; rewrite IH; reflexivity. Qed.

Lemma insert_sorted_map : forall {A B} (f : A -> B) (ltb : B -> B -> bool) x l,
  insert_sorted ltb (f x) (map f l) = map f (insert_sorted (fun a b => ltb (f a) (f b)) x l).
Proof.
  intros A B f ltb x l. induction l as [|y r IH]; [reflexivity|]. cbn [map insert_sorted].
  destruct (ltb (f y) (f x)); cbn [map]; [rewrite IH|]; reflexivity.
Qed.
Lemma sort_by_map : forall {A B} (f : A -> B) (ltb : B -> B -> bool) l,
  sort_by ltb (map f l) = map f (sort_by (fun a b => ltb (f a) (f b)) l).
Proof.
  intros A B f ltb l. induction l as [|x r IH]; [reflexivity|]. cbn [map sort_by fold_right].
  fold (sort_by ltb (map f r)). fold (sort_by (fun a b => ltb (f a) (f b)) r). rewrite IH. apply insert_sorted_map.
Qed.

Lemma children_strip : forall sigs t, children (map strip_sig sigs) (strip_sig t) = map strip_sig (children sigs t).
Proof. intros sigs t. unfold children. rewrite filter_map_comm, sort_by_map. reflexivity. Qed.

Lemma tdsigs_strip : forall es sigs o recs t,
  tdsigs es (map strip_sig sigs) o recs (strip_sig t) = tdsigs es sigs o recs t.
Proof.
  intros es sigs o recs t. unfold tdsigs. cbn [s_kind strip_sig]. destruct (s_kind t); try reflexivity.
  f_equal. unfold wsigs. cbn [s_gcount strip_sig]. apply flat_map_ext_in_simple. intros id _.
  rewrite children_strip, filter_map_comm, map_map. reflexivity.
Qed.

Lemma dmsg_m_strip : forall es m, dmsg_m es (strip_msg m) = dmsg_m es m.
Proof.
  intros es m. unfold dmsg_m. cbn [m_canid m_name m_size m_sender m_order m_signals strip_msg]. f_equal.
  replace (recs_out (strip_msg m)) with (recs_out m) by reflexivity.
  rewrite filter_map_comm. change (fun x => is_topb (strip_sig x)) with is_topb.
  induction (filter is_topb (m_signals m)) as [|t r IH]; [reflexivity|]. cbn [map flat_map]. rewrite IH, tdsigs_strip. reflexivity.
Qed.

Lemma export_message_mg : forall names es m cms vs msgs sigs0 L A,
  mmessage es names (strip_msg m) ->
  export_message es m (gacc cms vs msgs sigs0 L A)
  = gacc (cms ++ msg_cms m) (vs ++ msg_vencs es m) (msgs ++ [dmsg_m es m]) [] (fold_left enums_step (filter is_topb (m_signals m)) L)
         (fold_left exp_t (TM_msg m) A).
Proof.
  intros names es m cms vs msgs sigs0 L A Hmm.
  pose proof Hmm as [_ [_ [_ [_ [_ [Hid [Hsz [Hms [Hlay _]]]]]]]]].
  cbn [m_canid m_size m_signals strip_msg] in Hid, Hsz, Hms, Hlay.
  unfold export_message. cbv zeta.
  change (filter (fun s => match s_parent s with None => true | Some _ => false end) (m_signals m)) with (filter is_topb (m_signals m)).
  assert (Htops : forall t, In t (filter is_topb (m_signals m)) -> In t (m_signals m) /\ top_ok es (strip_sig t) /\
             (is_muxb t = true -> Forall (fun c => child_ok (strip_sig t) (strip_sig c)) (children (m_signals m) t) /\
                                  NoDup (map (fun c => clear (s_name c)) (children (m_signals m) t)))).
  { intros t Ht. apply filter_In in Ht. destruct Ht as [Ht Htt]. split; [assumption|]. split; [apply (top_strip es names m Hmm t Ht Htt)|].
    intros Hm. apply (kids_strip es names m Hmm t Ht Hm). }
  assert (Hasc : ascending_by s_rel (filter is_topb (m_signals m))).
  { rewrite filter_map_comm in Hlay. change (fun x => is_topb (strip_sig x)) with is_topb in Hlay.
    assert (G : forall l from lim, (forall t, In t l -> top_ok es (strip_sig t)) -> layout_e es from lim (map strip_sig l) -> ascending_by s_rel l).
    { induction l as [|t r IH]; intros from lim Hl H; [exact I|]. cbn [map layout_e] in H. destruct H as [H1 [H2 H3]].
      split; [|eapply IH; [intros x Hx; apply Hl; right; assumption|exact H3]].
      destruct r as [|y q]; [exact I|]. cbn [map layout_e] in H3. destruct H3 as [H3 _].
      pose proof (top_size_pos es (strip_sig t) (Hl t (or_introl eq_refl))) as Hpos. cbn [s_rel strip_sig] in *. lia. }
    eapply G; [|exact Hlay]. intros t Ht. apply Htops. assumption. }
  rewrite (sort_by_ascending s_rel) by exact Hasc.
  assert (Hmany : Nat.ltb 1 (length (filter (fun s => match s_kind s with KMux => true | _ => false end) (filter is_topb (m_signals m)))) = false).
  { pose proof (mux_count es _ Hms) as Hc. rewrite !filter_map_comm, map_length in Hc. exact Hc. }
  rewrite Hmany.
  assert (Hacc : (if String.eqb (m_desc m) EmptyString then gacc cms vs msgs sigs0 L A
                    else add_comment (mkdcomment OMessage (m_desc m) EmptyString (u32 (m_canid m)) EmptyString) (gacc cms vs msgs sigs0 L A))
                 = gacc (cms ++ opt_cm (m_desc m) (mkdcomment OMessage (m_desc m) EmptyString (u32 (m_canid m)) EmptyString)) vs msgs sigs0 L A).
  { unfold opt_cm. destruct (String.eqb (m_desc m) EmptyString); [rewrite app_nil_r|]; reflexivity. }
  rewrite Hacc. fold (wk_msg m). rewrite asgs_gacc.
  change (set_sigs [] (gacc ?c ?v ?ms ?sg ?l ?a)) with (gacc c v ms [] l a).
  (* the children contribute neither comments nor VAL_ lines *)
  assert (Hcc : flat_map (sig_cms (u32 (m_canid m))) (filter is_topb (m_signals m)) = flat_map (sig_cms (u32 (m_canid m))) (m_signals m) /\
                flat_map (venc_e es (u32 (m_canid m))) (filter is_topb (m_signals m)) = flat_map (venc_e es (u32 (m_canid m))) (m_signals m)).
  { assert (G : forall l, (forall c, In c l -> In c (m_signals m)) ->
              flat_map (sig_cms (u32 (m_canid m))) (filter is_topb l) = flat_map (sig_cms (u32 (m_canid m))) l /\
              flat_map (venc_e es (u32 (m_canid m))) (filter is_topb l) = flat_map (venc_e es (u32 (m_canid m))) l).
    { induction l as [|s r IH]; intros Hl; [split; reflexivity|]. cbn [filter flat_map].
      destruct (IH (fun c Hc => Hl c (or_intror Hc))) as [I1 I2].
      destruct (is_topb s) eqn:Et; cbn [flat_map]; [rewrite I1, I2; split; reflexivity|].
      destruct (child_strip es names m Hmm s (Hl s (or_introl eq_refl)) Et) as [mx [_ [_ [_ [Hk [_ [_ [Hd _]]]]]]]].
      cbn [s_kind s_desc strip_sig] in Hk, Hd.
      rewrite I1, I2. unfold sig_cms at 2, opt_cm, venc_e at 2. rewrite Hd, Hk. cbn. split; reflexivity. }
    apply G. auto. }
  destruct Hcc as [C1 C2].
  destruct (m_signals m) as [|s0 r0] eqn:Es.
  - cbn [filter fold_left length flat_map]. unfold msg_cms, msg_vencs, dmsg_m, TM_msg, SX, gacc, add_message. rewrite Es. cbn. rewrite !app_nil_r. reflexivity.
  - rewrite <- Es in *. replace (length (m_signals m)) with (S (length r0)) by (rewrite Es; reflexivity).
    rewrite export_tops_g; [|apply (ids_nodup es names m Hmm)|exact Htops].
    unfold msg_cms, msg_vencs, dmsg_m, TM_msg, SX, gacc, add_message. rewrite C1, C2. cbn. rewrite fold_left_app, <- ?app_assoc. reflexivity.
Qed.

Lemma export_messages_mg : forall names es l cms vs msgs L A,
  Forall (fun m => mmessage es names (strip_msg m)) l ->
  exists L', fold_left (fun a m => export_message es m a) l (gacc cms vs msgs [] L A)
  = gacc (cms ++ flat_map msg_cms l) (vs ++ flat_map (msg_vencs es) l) (msgs ++ map (dmsg_m es) l) [] L'
         (fold_left exp_t (flat_map TM_msg l) A).
Proof.
  intros names es l. induction l as [|m r IH]; intros cms vs msgs L A H; cbn [fold_left map flat_map].
  - exists L. rewrite !app_nil_r. reflexivity.
  - inversion H; subst. rewrite (export_message_mg names) by assumption.
    destruct (IH (cms ++ msg_cms m) (vs ++ msg_vencs es m) (msgs ++ [dmsg_m es m]) (fold_left enums_step (filter is_topb (m_signals m)) L)
                 (fold_left exp_t (TM_msg m) A)) as [L' E]; [assumption|].
    exists L'. rewrite E. rewrite fold_left_app, <- !app_assoc. reflexivity.
Qed.

Definition AM_of (b : bus) : eacc := fold_left exp_t (TM_bus b) empty_acc.
Definition amdoc (b : bus) (L : list Z) : doc :=
  mkdoc (b_name b) (map (fun n => clear (n_name n)) (b_nodes b)) (map (table_of (b_enums b)) L)
        (map (dmsg_m (b_enums b)) (b_messages b)) (doc_cms b)
        (ea_attrs (AM_of b)) (ea_attrdefs (AM_of b)) (ea_attrvals (AM_of b)) (bus_vencs b) [].

Lemma strip_msgs_m : forall es names l, Forall (mmessage es names) (map strip_msg l) -> Forall (fun m => mmessage es names (strip_msg m)) l.
Proof. intros es names l H. induction l as [|m r IH]; [constructor|]. cbn [map] in H. inversion H; subst. constructor; auto. Qed.

Lemma export_mg : forall b, grouped b -> mbus (strip_bus b) -> exists L, export b = amdoc b L.
Proof.
  intros b Hg [_ [_ [_ [_ [_ [Hm _]]]]]]. cbn [b_messages b_nodes b_enums strip_bus] in Hm. apply strip_msgs_m in Hm.
  unfold export. cbv zeta.
  assert (Hnodes : forall nodes cms0 vs0 msgs0 L0 A0,
    exists L1,
    fold_left (fun a n =>
        let name := clear (n_name n) in
        let a := if String.eqb (n_desc n) EmptyString then a
                 else add_comment (mkdcomment ONode (n_desc n) name 0 EmptyString) a in
        let a := fold_left (fun a x => export_assignment ONode name 0 EmptyString x a) (sort_attrs (n_attrs n)) a in
        fold_left (fun a m => export_message (b_enums b) m a)
                  (filter (fun m => String.eqb (m_sender m) (n_name n)) (b_messages b)) a)
      nodes (gacc cms0 vs0 msgs0 [] L0 A0)
    = gacc (cms0 ++ flat_map (node_cms b) nodes)
           (vs0 ++ flat_map (msg_vencs (b_enums b)) (flat_map (fun n => filter (fun m => String.eqb (m_sender m) (n_name n)) (b_messages b)) nodes))
           (msgs0 ++ map (dmsg_m (b_enums b)) (flat_map (fun n => filter (fun m => String.eqb (m_sender m) (n_name n)) (b_messages b)) nodes)) [] L1
           (fold_left exp_t (flat_map (TM_node b) nodes) A0)).
  { induction nodes as [|n r IH]; intros cms0 vs0 msgs0 L0 A0; cbn [fold_left flat_map map].
    - exists L0. rewrite !app_nil_r. reflexivity.
    - assert (Hcm : (if String.eqb (n_desc n) EmptyString then gacc cms0 vs0 msgs0 [] L0 A0
                     else add_comment (mkdcomment ONode (n_desc n) (clear (n_name n)) 0 EmptyString) (gacc cms0 vs0 msgs0 [] L0 A0))
                    = gacc (cms0 ++ opt_cm (n_desc n) (mkdcomment ONode (n_desc n) (clear (n_name n)) 0 EmptyString)) vs0 msgs0 [] L0 A0).
      { unfold opt_cm. destruct (String.eqb (n_desc n) EmptyString); [rewrite app_nil_r; reflexivity|reflexivity]. }
      cbv zeta. rewrite Hcm. rewrite asgs_gacc.
      match goal with |- exists L1, fold_left ?f r (fold_left ?g ?l (gacc ?c ?v ?ms [] ?L ?a)) = _ =>
        destruct (export_messages_mg (map n_name (map strip_node (b_nodes b))) (b_enums b) l c v ms L a) as [L2 E2]; [apply Forall_filter; assumption|] end.
      rewrite E2.
      match goal with |- exists L1, fold_left ?f r (gacc ?c ?v ?m [] ?l ?a) = _ => destruct (IH c v m l a) as [L1 E] end.
      exists L1. refine (eq_trans E _). unfold node_cms, TM_node.
      rewrite !flat_map_app, map_app, !fold_left_app, <- !app_assoc. reflexivity. }
  assert (H0 : (if String.eqb (b_desc b) EmptyString then mkeacc [] [] [] [] [] [] [] [] [] []
                else add_comment (mkdcomment OGeneral (b_desc b) EmptyString 0 EmptyString) (mkeacc [] [] [] [] [] [] [] [] [] []))
               = gacc (opt_cm (b_desc b) (mkdcomment OGeneral (b_desc b) EmptyString 0 EmptyString)) [] [] [] [] empty_acc).
  { unfold opt_cm. destruct (String.eqb (b_desc b) EmptyString); reflexivity. }
  rewrite H0. rewrite asgs_gacc.
  match goal with |- context[fold_left ?f (b_nodes b) (gacc ?c ?v ?m [] ?l ?a)] => destruct (Hnodes (b_nodes b) c v m l a) as [L1 E] end.
  exists L1. cbv zeta in E. rewrite E. unfold grouped in Hg. rewrite Hg. unfold amdoc, AM_of, TM_bus. rewrite fold_left_app. cbn. reflexivity.
Qed.
