(* C11 — export followed by import with ATTRIBUTES: buses of RoundTripEnum's fragment (standard and enum
   signals, descriptions) that additionally carry attribute assignments of the four types (and hex
   format) on the bus, the nodes, the messages and the signals, and the dedicated fields cycle / delay /
   start-delay time, message send type, signal start value and signal send type (exported as the
   well-known Gen* attributes).  The structural part is RoundTripEnum's theorem on the stripped bus;
   this file adds the attribute layer: what the exporter accumulates (definition + default once per
   (kind, name), one value per assignment) and what importAttributes makes of it. *)
From Coq Require Import String Ascii ZArith List Bool Lia Permutation.
From Coq Require Import ZifyBool.
From Acme.C10 Require Import DbcDoc BusModel Import Export Bits.
From Acme.C10 Require Proofs ProofsEnum ProofsLayout ProofsFaithful.
From Acme.C11 Require Import Strings Proofs RoundTrip RoundTripEnum.
Import ListNotations.
Open Scope Z_scope.

Notation sname := (fun s : signal => clear (s_name s)).

(* ---------------- the bus without its attribute layer ---------------- *)
Definition strip_sig (s : signal) : signal :=
  mksignal (s_id s) (s_name s) (s_kind s) (s_rel s) (s_parent s) (s_groups s) (s_size s) (s_signed s)
           (s_scale s) (s_offset s) (s_min s) (s_max s) (s_unit s) (s_enum s) (s_gcount s) (s_gsize s)
           (s_desc s) fl_zero 0 [].
Definition strip_msg (m : message) : message :=
  mkmessage (m_canid m) (m_name m) (m_size m) (m_order m) 0 0 0 0 (m_sender m) (m_receivers m) (m_desc m) []
            (map strip_sig (m_signals m)).
Definition strip_node (n : node) : node := mknode (n_name n) (n_id n) (n_desc n) [].
Definition strip_bus (b : bus) : bus :=
  mkbus (b_name b) (b_desc b) [] (map strip_node (b_nodes b)) (b_enums b) (map strip_msg (b_messages b)).

(* ---------------- the assignments in export order ---------------- *)
Record tasg := mktasg { t_kind : okind; t_node : string; t_msg : Z; t_sig : string; t_asg : attr_asg }.
Definition exp_t (acc : eacc) (t : tasg) : eacc :=
  export_assignment (t_kind t) (t_node t) (t_msg t) (t_sig t) (t_asg t) acc.

Definition wk_msg (m : message) : list attr_asg :=
  (if m_cycle m =? 0 then [] else [mkasg "GenMsgCycleTime"%string msg_cycle_att (ValInt (m_cycle m))])
  ++ (if m_delay m =? 0 then [] else [mkasg "GenMsgDelayTime"%string msg_delay_att (ValInt (m_delay m))])
  ++ (if m_startdelay m =? 0 then [] else [mkasg "GenMsgStartDelayTime"%string msg_start_delay_att (ValInt (m_startdelay m))])
  ++ (if m_sendtype m =? 0 then [] else
        [mkasg "GenMsgSendType"%string msg_send_att (ValString (nth (Z.to_nat (m_sendtype m)) msg_send_types "NoMsgSendType"%string))]).
Definition wk_sig (s : signal) : list attr_asg :=
  (if fl_is_zero (s_startval s) then [] else [mkasg "GenSigStartValue"%string sig_start_att (ValFloat (s_startval s))])
  ++ (if s_sendtype s =? 0 then [] else
        [mkasg "GenSigSendType"%string sig_send_att (ValString (nth (Z.to_nat (s_sendtype s)) sig_send_types "NoSigSendType"%string))]).

Definition T_sig (msgid : Z) (s : signal) : list tasg :=
  map (mktasg OSignal EmptyString msgid (clear (s_name s))) (sort_attrs (s_attrs s) ++ wk_sig s).
Definition T_msg (m : message) : list tasg :=
  map (mktasg OMessage EmptyString (u32 (m_canid m)) EmptyString) (sort_attrs (m_attrs m) ++ wk_msg m)
  ++ flat_map (T_sig (u32 (m_canid m))) (m_signals m).
Definition T_node (b : bus) (n : node) : list tasg :=
  map (mktasg ONode (clear (n_name n)) 0 EmptyString) (sort_attrs (n_attrs n))
  ++ flat_map T_msg (filter (fun m => String.eqb (m_sender m) (n_name n)) (b_messages b)).
Definition T_bus (b : bus) : list tasg :=
  map (mktasg OGeneral EmptyString 0 EmptyString) (sort_attrs (b_attrs b)) ++ flat_map (T_node b) (b_nodes b).

(* ---------------- the exporter with the attribute accumulators ---------------- *)
Definition gacc (cms : list dcomment) (vs : list dvalenc) (msgs : list dmessage) (sigs : list dsignal) (L : list Z) (A : eacc) : eacc :=
  mkeacc cms (ea_attrs A) (ea_attrdefs A) (ea_attrvals A) vs [] msgs sigs (ea_names A) L.

Lemma exp_t_gacc : forall t cms vs msgs sigs L A,
  exp_t (gacc cms vs msgs sigs L A) t = gacc cms vs msgs sigs L (exp_t A t).
Proof.
  intros t cms vs msgs sigs L A. unfold exp_t, export_assignment, gacc.
  cbn [ea_names ea_attrs ea_attrdefs ea_attrvals ea_comments ea_valencs ea_extmuxes ea_messages ea_sigs ea_enums].
  destruct (export_attribute _ _ _) as [da dd]. reflexivity.
Qed.

Lemma asgs_gacc : forall k n mi sg l cms vs msgs sigs L A,
  fold_left (fun a x => export_assignment k n mi sg x a) l (gacc cms vs msgs sigs L A)
  = gacc cms vs msgs sigs L (fold_left exp_t (map (mktasg k n mi sg) l) A).
Proof.
  intros k n mi sg l. induction l as [|x r IH]; intros cms vs msgs sigs L A; cbn [fold_left map]; [reflexivity|].
  change (export_assignment k n mi sg x (gacc cms vs msgs sigs L A)) with (exp_t (gacc cms vs msgs sigs L A) (mktasg k n mi sg x)).
  rewrite exp_t_gacc. apply IH.
Qed.

(* the structural conditions are RoundTripEnum's, read on the stripped entities *)
Lemma dsig_e_strip : forall es o recs s, dsig_e es o recs (strip_sig s) = dsig_e es o recs s.
Proof. intros. reflexivity. Qed.

Lemma export_signal_g : forall es sigs order msgid recs many fuel s cms vs msgs sg L A,
  esig_ok es (strip_sig s) ->
  export_signal es sigs order msgid recs many fuel s (gacc cms vs msgs sg L A)
  = gacc (cms ++ sig_cms msgid s) (vs ++ venc_e es msgid s) msgs (sg ++ [dsig_e es order recs s]) (enums_step L s)
         (fold_left exp_t (T_sig msgid s) A).
Proof.
  intros es sigs order msgid recs many fuel s cms vs msgs sg L A [Hp [Hg [_ [_ [_ [_ Hk]]]]]].
  cbn [s_parent s_groups s_kind strip_sig] in Hp, Hg, Hk.
  unfold sig_cms, opt_cm, venc_e, dsig_e, enums_step, e_of, T_sig, wk_sig.
  assert (Hcm : forall c, add_comment c (gacc cms vs msgs sg L A) = gacc (cms ++ [c]) vs msgs sg L A) by reflexivity.
  destruct fuel; cbn [export_signal]; rewrite Hp;
    (destruct (String.eqb (s_desc s) EmptyString); [|rewrite Hcm]; rewrite asgs_gacc;
     rewrite abs_start_top by assumption;
     destruct (s_kind s); try (destruct Hk; fail); cbn [app]; rewrite ?app_nil_r; reflexivity).
Qed.

Lemma export_signals_g : forall es sigs order msgid recs many fuel l cms vs msgs sg L A,
  Forall (fun s => esig_ok es (strip_sig s)) l ->
  fold_left (fun a s => export_signal es sigs order msgid recs many fuel s a) l (gacc cms vs msgs sg L A)
  = gacc (cms ++ flat_map (sig_cms msgid) l) (vs ++ flat_map (venc_e es msgid) l) msgs
         (sg ++ map (dsig_e es order recs) l) (fold_left enums_step l L) (fold_left exp_t (flat_map (T_sig msgid) l) A).
Proof.
  intros es sigs order msgid recs many fuel l. induction l as [|s r IH]; intros cms vs msgs sg L A H; cbn [fold_left map flat_map].
  - rewrite !app_nil_r. reflexivity.
  - inversion H; subst. rewrite export_signal_g by assumption. rewrite IH by assumption.
    rewrite fold_left_app, <- !app_assoc. reflexivity.
Qed.

Lemma layout_e_strip : forall es l from lim, layout_e es from lim (map strip_sig l) -> layout_e es from lim l.
Proof. intros es l. induction l as [|s r IH]; intros from lim H; [exact I|]. cbn in *. destruct H as [H1 [H2 H3]]. auto. Qed.
Lemma Forall_strip : forall es l, Forall (esig_ok es) (map strip_sig l) -> Forall (fun s => esig_ok es (strip_sig s)) l.
Proof. intros es l H. induction l as [|s r IH]; [constructor|]. cbn [map] in H. inversion H; subst. constructor; auto. Qed.
Lemma esig_ok_strip_pos : forall es s, esig_ok es (strip_sig s) -> 0 < sig_size es s.
Proof. intros es s H. apply (sig_size_pos es (strip_sig s) H). Qed.

Lemma layout_strip_ascending : forall es l from limit, Forall (fun s => esig_ok es (strip_sig s)) l -> layout_e es from limit l -> ascending_by s_rel l.
Proof.
  induction l as [|s r IH]; intros from limit Hp H; [exact I|].
  cbn in H. destruct H as [H1 [H2 H3]]. inversion Hp as [|? ? Hps Hpr]; subst. split; [|eapply IH; eauto].
  destruct r as [|y q]; [exact I|]. cbn in H3. destruct H3 as [H3 _].
  pose proof (esig_ok_strip_pos es s Hps). lia.
Qed.

Lemma export_message_g : forall names es m cms vs msgs sigs L A,
  emessage es names (strip_msg m) ->
  export_message es m (gacc cms vs msgs sigs L A)
  = gacc (cms ++ msg_cms m) (vs ++ msg_vencs es m) (msgs ++ [dmsg_e es m]) [] (fold_left enums_step (m_signals m) L)
         (fold_left exp_t (T_msg m) A).
Proof.
  intros names es m cms vs msgs sigs L A [_ [_ [_ [_ [_ [Hid [Hsz [Hps [Hlay _]]]]]]]]].
  cbn [m_canid m_size m_signals strip_msg] in Hid, Hsz, Hps, Hlay.
  apply Forall_strip in Hps. apply layout_e_strip in Hlay.
  unfold export_message. cbv zeta.
  assert (Htop : filter (fun s => match s_parent s with None => true | Some _ => false end) (m_signals m) = m_signals m).
  { apply filter_all. intros s Hs. rewrite Forall_forall in Hps. destruct (Hps s Hs) as [Hp _]. cbn in Hp. rewrite Hp. reflexivity. }
  rewrite Htop. rewrite (sort_by_ascending s_rel) by (eapply layout_strip_ascending; eauto).
  assert (Hmany : Nat.ltb 1 (length (filter (fun s => match s_kind s with KMux => true | _ => false end) (m_signals m))) = false).
  { rewrite (Proofs.filter_nil); [reflexivity|]. intros s Hs. rewrite Forall_forall in Hps.
    destruct (Hps s Hs) as [_ [_ [_ [_ [_ [_ Hk]]]]]]. cbn in Hk. destruct (s_kind s); try reflexivity. destruct Hk. }
  rewrite Hmany.
  assert (Hacc : (if String.eqb (m_desc m) EmptyString then gacc cms vs msgs sigs L A
                    else add_comment (mkdcomment OMessage (m_desc m) EmptyString (u32 (m_canid m)) EmptyString) (gacc cms vs msgs sigs L A))
                 = gacc (cms ++ opt_cm (m_desc m) (mkdcomment OMessage (m_desc m) EmptyString (u32 (m_canid m)) EmptyString)) vs msgs sigs L A).
  { unfold opt_cm. destruct (String.eqb (m_desc m) EmptyString); [rewrite app_nil_r|]; reflexivity. }
  rewrite Hacc. fold (wk_msg m). rewrite asgs_gacc.
  change (set_sigs [] (gacc ?c ?v ?ms ?sg ?l ?a)) with (gacc c v ms [] l a).
  replace (set_sigs [] (gacc (cms ++ opt_cm (m_desc m) (mkdcomment OMessage (m_desc m) EmptyString (u32 (m_canid m)) EmptyString)) vs msgs sigs L
             (fold_left exp_t (map (mktasg OMessage EmptyString (u32 (m_canid m)) EmptyString) (sort_attrs (m_attrs m) ++ wk_msg m)) A)))
    with (gacc (cms ++ opt_cm (m_desc m) (mkdcomment OMessage (m_desc m) EmptyString (u32 (m_canid m)) EmptyString)) vs msgs [] L
             (fold_left exp_t (map (mktasg OMessage EmptyString (u32 (m_canid m)) EmptyString) (sort_attrs (m_attrs m) ++ wk_msg m)) A)) by reflexivity.
  rewrite export_signals_g by assumption.
  unfold msg_cms, msg_vencs, dmsg_e, gacc, add_message, T_msg. cbn. rewrite fold_left_app, <- ?app_assoc. reflexivity.
Qed.

Lemma export_messages_g : forall names es l cms vs msgs L A,
  Forall (fun m => emessage es names (strip_msg m)) l ->
  fold_left (fun a m => export_message es m a) l (gacc cms vs msgs [] L A)
  = gacc (cms ++ flat_map msg_cms l) (vs ++ flat_map (msg_vencs es) l) (msgs ++ map (dmsg_e es) l) [] (msgs_enums l L)
         (fold_left exp_t (flat_map T_msg l) A).
Proof.
  intros names es l. induction l as [|m r IH]; intros cms vs msgs L A H; cbn [fold_left map flat_map msgs_enums].
  - rewrite !app_nil_r. reflexivity.
  - inversion H; subst. rewrite (export_message_g names) by assumption. rewrite IH by assumption.
    rewrite fold_left_app, <- !app_assoc. reflexivity.
Qed.

Definition empty_acc : eacc := mkeacc [] [] [] [] [] [] [] [] [] [].
Definition A_of (b : bus) : eacc := fold_left exp_t (T_bus b) empty_acc.
Definition adoc (b : bus) (L : list Z) : doc :=
  mkdoc (b_name b) (map (fun n => clear (n_name n)) (b_nodes b)) (map (table_of (b_enums b)) L)
        (map (dmsg_e (b_enums b)) (b_messages b)) (doc_cms b)
        (ea_attrs (A_of b)) (ea_attrdefs (A_of b)) (ea_attrvals (A_of b)) (bus_vencs b) [].

Definition grouped (b : bus) : Prop :=
  flat_map (fun n => filter (fun m => String.eqb (m_sender m) (n_name n)) (b_messages b)) (b_nodes b) = b_messages b.

Lemma strip_msgs_ok : forall es names l, Forall (emessage es names) (map strip_msg l) -> Forall (fun m => emessage es names (strip_msg m)) l.
Proof. intros es names l H. induction l as [|m r IH]; [constructor|]. cbn [map] in H. inversion H; subst. constructor; auto. Qed.

Lemma export_g : forall b, grouped b -> ebus (strip_bus b) -> exists L, export b = adoc b L.
Proof.
  intros b Hg [_ [_ [_ [_ [_ [Hm _]]]]]]. cbn [b_messages b_nodes b_enums strip_bus] in Hm. apply strip_msgs_ok in Hm.
  unfold export. cbv zeta.
  assert (Hnodes : forall nodes cms0 vs0 msgs0 L0 A0,
    exists L1,
    fold_left (fun a n =>
        let name := clear (n_name n) in
        let a := if String.eqb (n_desc n) EmptyString then a
                 else add_comment (mkdcomment ONode (n_desc n) name 0 EmptyString) a in
        let a := fold_left (fun a x => export_assignment ONode name 0 EmptyString x a) (sort_attrs (n_attrs n)) a in
        fold_left (fun a m => export_message (b_enums b) m a)
                  (filter (fun m => String.eqb (m_sender m) (n_name n)) (b_messages b)) a)
      nodes (gacc cms0 vs0 msgs0 [] L0 A0)
    = gacc (cms0 ++ flat_map (node_cms b) nodes)
           (vs0 ++ flat_map (msg_vencs (b_enums b)) (flat_map (fun n => filter (fun m => String.eqb (m_sender m) (n_name n)) (b_messages b)) nodes))
           (msgs0 ++ map (dmsg_e (b_enums b)) (flat_map (fun n => filter (fun m => String.eqb (m_sender m) (n_name n)) (b_messages b)) nodes)) [] L1
           (fold_left exp_t (flat_map (T_node b) nodes) A0)).
  { induction nodes as [|n r IH]; intros cms0 vs0 msgs0 L0 A0; cbn [fold_left flat_map map].
    - exists L0. rewrite !app_nil_r. reflexivity.
    - assert (Hcm : (if String.eqb (n_desc n) EmptyString then gacc cms0 vs0 msgs0 [] L0 A0
                     else add_comment (mkdcomment ONode (n_desc n) (clear (n_name n)) 0 EmptyString) (gacc cms0 vs0 msgs0 [] L0 A0))
                    = gacc (cms0 ++ opt_cm (n_desc n) (mkdcomment ONode (n_desc n) (clear (n_name n)) 0 EmptyString)) vs0 msgs0 [] L0 A0).
      { unfold opt_cm. destruct (String.eqb (n_desc n) EmptyString); [rewrite app_nil_r; reflexivity|reflexivity]. }
      cbv zeta. rewrite Hcm. rewrite asgs_gacc.
      rewrite (export_messages_g (map n_name (map strip_node (b_nodes b)))) by (apply Forall_filter; assumption).
      match goal with |- exists L1, fold_left ?f r (gacc ?c ?v ?m [] ?l ?a) = _ => destruct (IH c v m l a) as [L1 E] end.
      exists L1. refine (eq_trans E _). unfold node_cms, T_node.
      rewrite !flat_map_app, map_app, !fold_left_app, <- !app_assoc. reflexivity. }
  assert (H0 : (if String.eqb (b_desc b) EmptyString then mkeacc [] [] [] [] [] [] [] [] [] []
                else add_comment (mkdcomment OGeneral (b_desc b) EmptyString 0 EmptyString) (mkeacc [] [] [] [] [] [] [] [] [] []))
               = gacc (opt_cm (b_desc b) (mkdcomment OGeneral (b_desc b) EmptyString 0 EmptyString)) [] [] [] [] empty_acc).
  { unfold opt_cm. destruct (String.eqb (b_desc b) EmptyString); reflexivity. }
  rewrite H0. rewrite asgs_gacc.
  match goal with |- context[fold_left ?f (b_nodes b) (gacc ?c ?v ?m [] ?l ?a)] => destruct (Hnodes (b_nodes b) c v m l a) as [L1 E] end.
  exists L1. cbv zeta in E. rewrite E. unfold grouped in Hg. rewrite Hg. unfold adoc, A_of, T_bus. rewrite fold_left_app. cbn. reflexivity.
Qed.

(* ---------------- what the attribute accumulators hold ---------------- *)
Notation tname := (fun t : tasg => clear (aa_name (t_asg t))).
Definition t_def (t : tasg) : attr_def := aa_def (t_asg t).
Definition da_of (t : tasg) : dattr := fst (export_attribute (t_kind t) (tname t) (t_def t)).
Definition dd_of (t : tasg) : dattrdef := snd (export_attribute (t_kind t) (tname t) (t_def t)).
Definition av_of (t : tasg) : dattrval :=
  let k := t_kind t in let name := tname t in let node := t_node t in let msg := t_msg t in let sig := t_sig t in
  match t_def t, aa_val (t_asg t) with
  | DefString _, ValString s => mkdattrval k VString name node msg sig s 0 0 fl_zero
  | DefInt _ _ _ true, ValInt z => mkdattrval k VHex name node msg sig EmptyString 0 (u32 z) fl_zero
  | DefInt _ _ _ false, ValInt z => mkdattrval k VInt name node msg sig EmptyString z 0 fl_zero
  | DefFloat _ _ _, ValFloat f => mkdattrval k VFloat name node msg sig EmptyString 0 0 f
  | DefEnum _ vals, ValString s => mkdattrval k VInt name node msg sig EmptyString (index_of s vals 0) 0 fl_zero
  | _, _ => mkdattrval k VInt name node msg sig EmptyString 0 0 fl_zero
  end.
Definition t_seen (names : list (okind * string)) (t : tasg) : bool :=
  existsb (fun p => okind_eqb (fst p) (t_kind t) && String.eqb (snd p) (tname t)) names.

Lemma exp_t_fields : forall A t,
  ea_attrvals (exp_t A t) = ea_attrvals A ++ [av_of t] /\
  ea_attrs (exp_t A t) = (if t_seen (ea_names A) t then ea_attrs A else ea_attrs A ++ [da_of t]) /\
  ea_attrdefs (exp_t A t) = (if t_seen (ea_names A) t then ea_attrdefs A else ea_attrdefs A ++ [dd_of t]) /\
  ea_names (exp_t A t) = (if t_seen (ea_names A) t then ea_names A else ea_names A ++ [(t_kind t, tname t)]).
Proof.
  intros A t. unfold exp_t, export_assignment, da_of, dd_of, av_of, t_seen, t_def.
  destruct (export_attribute _ _ _) as [da dd]. cbn [fst snd ea_attrvals ea_attrs ea_attrdefs ea_names].
  split; [|repeat split]. reflexivity.
Qed.

Lemma fold_exp_vals : forall T A, ea_attrvals (fold_left exp_t T A) = ea_attrvals A ++ map av_of T.
Proof.
  induction T as [|t r IH]; intros A; cbn [fold_left map]; [rewrite app_nil_r; reflexivity|].
  rewrite IH. rewrite (proj1 (exp_t_fields A t)), <- app_assoc. reflexivity.
Qed.

Lemma fold_exp_defs : forall T A, exists T',
  incl T' T /\
  ea_attrs (fold_left exp_t T A) = ea_attrs A ++ map da_of T' /\
  ea_attrdefs (fold_left exp_t T A) = ea_attrdefs A ++ map dd_of T' /\
  ea_names (fold_left exp_t T A) = ea_names A ++ map (fun t => (t_kind t, tname t)) T'.
Proof.
  induction T as [|t r IH]; intros A; cbn [fold_left].
  - exists []. rewrite !app_nil_r. split; [intros x []|auto].
  - destruct (IH (exp_t A t)) as [T' [Hi [H1 [H2 H3]]]].
    destruct (exp_t_fields A t) as [_ [E1 [E2 E3]]]. rewrite E1 in H1. rewrite E2 in H2. rewrite E3 in H3.
    destruct (t_seen (ea_names A) t).
    + exists T'. split; [intros x Hx; right; apply Hi; assumption|auto].
    + exists (t :: T'). split; [intros x [Hx|Hx]; [left; assumption|right; apply Hi; assumption]|].
      cbn [map]. rewrite H1, H2, H3, <- !app_assoc. auto.
Qed.

Lemma t_seen_mono : forall names extra t, t_seen names t = true -> t_seen (names ++ extra) t = true.
Proof. intros names extra t H. unfold t_seen in *. rewrite existsb_app, H. reflexivity. Qed.

Lemma fold_exp_names_mono : forall T A t, t_seen (ea_names A) t = true -> t_seen (ea_names (fold_left exp_t T A)) t = true.
Proof.
  intros T A t H. destruct (fold_exp_defs T A) as [T' [_ [_ [_ H3]]]]. rewrite H3. apply t_seen_mono. assumption.
Qed.

Lemma okind_eqb_refl : forall k, okind_eqb k k = true.
Proof. intros []; reflexivity. Qed.

Lemma fold_exp_seen : forall T A t, In t T -> t_seen (ea_names (fold_left exp_t T A)) t = true.
Proof.
  induction T as [|x r IH]; intros A t Hin; [destruct Hin|]. cbn [fold_left]. destruct Hin as [->|Hin]; [|apply IH; assumption].
  apply fold_exp_names_mono. destruct (exp_t_fields A t) as [_ [_ [_ E3]]]. rewrite E3.
  destruct (t_seen (ea_names A) t) eqn:E; [assumption|].
  unfold t_seen. rewrite existsb_app. cbn [existsb fst snd]. rewrite okind_eqb_refl, String.eqb_refl. cbn. apply orb_true_r.
Qed.

(* generic: a lookup is determined when the map is functional at the key *)
Section LookupFun.
  Context {K V : Type} (eqb : K -> K -> bool).
  Hypothesis eqb_eq : forall a b, eqb a b = true <-> a = b.
  Lemma lookup_fun : forall k (l : list (K * V)) v,
    In (k, v) l -> (forall v', In (k, v') l -> v' = v) -> lookup eqb k l = Some v.
  Proof.
    intros k l v. induction l as [|[k' v'] r IH]; intros Hin Hf; [destruct Hin|]. cbn [lookup].
    destruct (eqb k k') eqn:E.
    - apply eqb_eq in E. subst k'. f_equal. apply Hf. left. reflexivity.
    - destruct Hin as [Hin|Hin]; [inversion Hin; subst; rewrite (proj2 (eqb_eq k k) eq_refl) in E; discriminate|].
      apply IH; [assumption|]. intros x Hx. apply Hf. right. assumption.
  Qed.
End LookupFun.

(* ---------------- the attribute definitions come back ---------------- *)
Definition T_ok (T : list tasg) : Prop :=
  (forall t, In t T -> wf_def (t_def t)) /\
  (forall t t', In t T -> In t' T -> tname t = tname t' -> t_def t = t_def t').

Lemma export_attribute_names : forall k n d,
  at_name (fst (export_attribute k n d)) = n /\ ad_name (snd (export_attribute k n d)) = n.
Proof. intros k n d. destruct d as [s|dv mn mx hex|dv mn mx|dv vals]; try destruct hex; split; reflexivity. Qed.
Lemma export_attribute_dd_kind : forall k k' n d, snd (export_attribute k n d) = snd (export_attribute k' n d).
Proof. intros k k' n d. destruct d as [s|dv mn mx hex|dv mn mx|dv vals]; try destruct hex; reflexivity. Qed.
Lemma reparse_def_name : forall d, ad_name (reparse_def d) = ad_name d.
Proof. intros d. unfold reparse_def. destruct (ad_type d); try reflexivity. destruct (fl_is_decimal _); reflexivity. Qed.

Lemma fold_cons_rev : forall {A B} (f : A -> B) l acc, fold_left (fun a x => f x :: a) l acc = rev (map f l) ++ acc.
Proof.
  intros A B f l. induction l as [|x r IH]; intros acc; cbn [fold_left map rev]; [reflexivity|].
  rewrite IH, <- app_assoc. reflexivity.
Qed.

Definition attrs_fold (defmap : list (string * dattrdef)) (das : list dattr) (acc : result (list (string * attr_def))) :=
  fold_left (fun acc a =>
     do l <- acc;
     match lookup String.eqb (at_name a) defmap with
     | None => Err "attribute default is required"
     | Some df => do ad <- import_attr_def a df; Ok ((at_name a, ad) :: l)
     end) das acc.

Lemma attrs_map_ok : forall T, T_ok T ->
  let A := fold_left exp_t T empty_acc in
  let defmap := fold_left (fun acc df => (ad_name df, df) :: acc) (map reparse_def (ea_attrdefs A)) [] in
  exists amap, attrs_fold defmap (ea_attrs A) (Ok []) = Ok amap /\
               forall t, In t T -> lookup String.eqb (tname t) amap = Some (t_def t).
Proof.
  intros T [Hwf Hcons] A defmap.
  destruct (fold_exp_defs T empty_acc) as [T' [Hincl [H1 [H2 H3]]]]. cbn [ea_attrs ea_attrdefs ea_names empty_acc app] in H1, H2, H3.
  fold A in H1, H2, H3.
  assert (Hdm : defmap = rev (map (fun df => (ad_name df, df)) (map reparse_def (map dd_of T')))).
  { unfold defmap. rewrite H2, fold_cons_rev, app_nil_r. reflexivity. }
  assert (Hlk : forall t', In t' T' -> lookup String.eqb (tname t') defmap = Some (reparse_def (dd_of t'))).
  { intros t' Ht'. apply (lookup_fun String.eqb String.eqb_eq).
    - rewrite Hdm. apply -> in_rev. apply in_map_iff. exists (reparse_def (dd_of t')). split.
      + rewrite reparse_def_name. unfold dd_of. rewrite (proj2 (export_attribute_names _ _ _)). reflexivity.
      + apply in_map. apply in_map. assumption.
    - intros v' Hv'. rewrite Hdm in Hv'. apply in_rev in Hv'. apply in_map_iff in Hv'. destruct Hv' as [df [E Hdf]].
      apply in_map_iff in Hdf. destruct Hdf as [dd [E2 Hdd]]. apply in_map_iff in Hdd. destruct Hdd as [t'' [E3 Ht'']].
      subst dd df. inversion E as [[En Ev]]. rewrite reparse_def_name in En. unfold dd_of in En.
      rewrite (proj2 (export_attribute_names _ _ _)) in En.
      assert (Hd : t_def t'' = t_def t') by (apply Hcons; auto).
      unfold dd_of. rewrite En, Hd. f_equal. apply export_attribute_dd_kind. }
  assert (Hfold : forall l acc, incl l T' ->
            attrs_fold defmap (map da_of l) (Ok acc) = Ok (rev (map (fun t' => (tname t', t_def t')) l) ++ acc)).
  { induction l as [|t' r IH]; intros acc Hl; [reflexivity|]. unfold attrs_fold in *. cbn [map fold_left bind].
    assert (Hin : In t' T') by (apply Hl; left; reflexivity).
    unfold da_of at 1 2. rewrite (proj1 (export_attribute_names _ _ _)). rewrite (Hlk t' Hin).
    pose proof (attr_def_roundtrip (t_kind t') (tname t') (t_def t') (Hwf t' (Hincl t' Hin))) as Hrt.
    unfold dd_of, da_of. destruct (export_attribute (t_kind t') (tname t') (t_def t')) as [da dd] eqn:Ex. cbn [fst snd].
    rewrite Hrt. cbn [bind].
    rewrite IH by (intros x Hx; apply Hl; right; assumption).
    cbn [map rev]. rewrite <- app_assoc. cbn [app].
    replace (at_name da) with (tname t'); [reflexivity|].
    pose proof (proj1 (export_attribute_names (t_kind t') (tname t') (t_def t'))) as Hn. cbv beta in Hn. rewrite Ex in Hn. symmetry. exact Hn. }
  exists (rev (map (fun t' => (tname t', t_def t')) T')). split.
  - rewrite H1. rewrite (Hfold T' [] (incl_refl _)), app_nil_r. reflexivity.
  - intros t Ht. pose proof (fold_exp_seen T empty_acc t Ht) as Hs. fold A in Hs. rewrite H3 in Hs.
    unfold t_seen in Hs. apply existsb_exists in Hs. destruct Hs as [[k n] [Hkn Hm]]. cbn [fst snd] in Hm.
    apply andb_true_iff in Hm. destruct Hm as [_ Hm]. apply String.eqb_eq in Hm.
    apply in_map_iff in Hkn. destruct Hkn as [t' [E Ht']]. inversion E as [[Ek En]]. rewrite <- En in Hm. clear E Ek En.
    apply (lookup_fun String.eqb String.eqb_eq).
    + apply -> in_rev. apply in_map_iff. exists t'. split; [|assumption]. rewrite Hm. f_equal. apply Hcons; auto.
    + intros v' Hv'. apply in_rev in Hv'. apply in_map_iff in Hv'. destruct Hv' as [t'' [E2 Ht'']]. inversion E2 as [[En Ev]].
      symmetry. apply Hcons; auto.
Qed.

(* ---------------- one value ---------------- *)
Definition val_ok (a : attr_asg) : Prop :=
  match aa_def a, aa_val a with
  | DefString _, ValString _ => True
  | DefInt _ _ _ hex, ValInt z => hex = true -> 0 <= z < 2 ^ 32
  | DefFloat _ _ _, ValFloat f => fl_canonical f
  | DefEnum _ vals, ValString s => NoDup vals /\ In s vals
  | _, _ => False
  end.

Lemma av_fields : forall t,
  av_kind (reparse_val (av_of t)) = t_kind t /\ av_name (reparse_val (av_of t)) = tname t /\
  av_node (reparse_val (av_of t)) = t_node t /\ av_msg (reparse_val (av_of t)) = t_msg t /\
  av_sig (reparse_val (av_of t)) = t_sig t.
Proof.
  intros t. unfold av_of, reparse_val, t_def.
  destruct (aa_def (t_asg t)) as [s|dv mn mx hex|dv mn mx|dv vals], (aa_val (t_asg t)) as [v|z|f]; try destruct hex;
    cbn [av_type av_kind av_name av_node av_msg av_sig av_fl]; try (destruct (fl_is_decimal f)); repeat split.
Qed.

Lemma attr_value_rt : forall t, val_ok (t_asg t) ->
  attr_value (t_def t) (reparse_val (av_of t)) = Ok (aa_val (t_asg t)).
Proof.
  intros t H. unfold val_ok in H. unfold av_of, reparse_val, t_def, attr_value.
  destruct (aa_def (t_asg t)) as [s|dv mn mx hex|dv mn mx|dv vals], (aa_val (t_asg t)) as [v|z|f]; try (destruct H; fail).
  - reflexivity.
  - destruct hex; cbn [av_type av_int av_hex]; [rewrite u32_id by (apply H; reflexivity)|]; reflexivity.
  - cbn [av_type av_fl]. destruct (fl_is_decimal f) eqn:Ed; cbn [av_type av_fl av_int]; [reflexivity|].
    rewrite fl_of_Z_to_Z by assumption. reflexivity.
  - destruct H as [Hnd Hin]. destruct (index_of_nth vals v 0 Hnd Hin) as [Hr Hn]. rewrite Z.sub_0_r in Hr, Hn.
    cbn [av_type av_int].
    replace ((index_of v vals 0 <? 0) || (index_of v vals 0 >=? Z.of_nat (length vals))) with false by lia.
    rewrite Hn. reflexivity.
Qed.

Definition istep (amap : list (string * attr_def)) (sm : list (key * (nat * Z))) (acc : result bus) (av : dattrval) : result bus :=
  do b0 <- acc;
  let name := av_name av in
  match lookup String.eqb name amap with
  | None => Ok b0
  | Some ad =>
      do v <- attr_value ad av;
      match av_kind av with
      | OGeneral => do a <- try_assign name ad v (b_attrs b0); Ok (set_b_attrs b0 a)
      | ONode =>
          if String.eqb (av_node av) dummy_node then Ok b0 else
          do ns <- update_first (fun n => String.eqb (n_name n) (av_node av))
                     (fun n => do a <- try_assign name ad v (n_attrs n);
                               Ok (mknode (n_name n) (n_id n) (n_desc n) a)) (b_nodes b0);
          Ok (set_b_nodes b0 ns)
      | OMessage =>
          do ms <- update_first (fun m => m_canid m =? av_msg av) (assign_message name ad v) (b_messages b0);
          Ok (set_b_messages b0 ms)
      | OSignal =>
          match lookup key_eqb (av_msg av, av_sig av) sm with
          | None => Ok b0
          | Some (mpos, sid) =>
              do ms <- update_nth mpos (fun m =>
                         do ss <- update_first (fun s => s_id s =? sid) (assign_signal name ad v) (m_signals m);
                         Ok (set_m_signals m ss)) (b_messages b0);
              Ok (set_b_messages b0 ms)
          end
      | OEnvVar => Ok b0
      end
  end.

Lemma import_attributes_unfold : forall sm d b,
  import_attributes sm d b =
  (do amap <- attrs_fold (fold_left (fun acc df => (ad_name df, df) :: acc) (d_attrdefs d) []) (d_attrs d) (Ok []);
   fold_left (istep amap sm) (d_attrvals d) (Ok b)).
Proof. reflexivity. Qed.

Lemma update_first_zip : forall {A} (p : A -> bool) (f : A -> result A) pre x post y,
  (forall z, In z pre -> p z = false) -> p x = true -> f x = Ok y ->
  update_first p f (pre ++ x :: post) = Ok (pre ++ y :: post).
Proof.
  intros A p f pre x post y. induction pre as [|z r IH]; intros Hpre Hx Hf; cbn [app update_first].
  - rewrite Hx, Hf. reflexivity.
  - rewrite (Hpre z (or_introl eq_refl)). rewrite IH; [reflexivity| |assumption|assumption].
    intros w Hw. apply Hpre. right. assumption.
Qed.
Lemma update_nth_zip : forall {A} (g : A -> result A) pre x post y,
  g x = Ok y -> update_nth (length pre) g (pre ++ x :: post) = Ok (pre ++ y :: post).
Proof.
  intros A g pre x post y Hg. induction pre as [|z r IH]; cbn [app length update_nth].
  - rewrite Hg. reflexivity.
  - rewrite IH. reflexivity.
Qed.

(* the pure effect of one assignment on the entity it names *)
Definition app_attrs (a : attr_asg) (l : list attr_asg) : list attr_asg :=
  assign (clear (aa_name a)) (aa_def a) (aa_val a) l.
Definition app_node (a : attr_asg) (n : node) : node := mknode (n_name n) (n_id n) (n_desc n) (app_attrs a (n_attrs n)).
Definition app_msg (a : attr_asg) (m : message) : message :=
  match special_of (clear (aa_name a)) with
  | Some SpMsgCycle => match aa_val a with ValInt z => set_m_times m z (m_delay m) (m_startdelay m) (m_sendtype m) | _ => m end
  | Some SpMsgDelay => match aa_val a with ValInt z => set_m_times m (m_cycle m) z (m_startdelay m) (m_sendtype m) | _ => m end
  | Some SpMsgStartDelay => match aa_val a with ValInt z => set_m_times m (m_cycle m) (m_delay m) z (m_sendtype m) | _ => m end
  | Some SpMsgSend => match aa_val a with
                      | ValString s => set_m_times m (m_cycle m) (m_delay m) (m_startdelay m) (msg_send_type_from_dbc s)
                      | _ => m end
  | Some _ => m
  | None => set_m_attrs m (app_attrs a (m_attrs m))
  end.
Definition app_sig (a : attr_asg) (s : signal) : signal :=
  match special_of (clear (aa_name a)) with
  | Some SpSigStart => match aa_val a with
                       | ValFloat f => set_s_special s f (s_sendtype s)
                       | ValInt z => set_s_special s (fl_of_Z z) (s_sendtype s)
                       | ValString _ => s end
  | Some SpSigSend => match aa_val a with ValString t => set_s_special s (s_startval s) (sig_send_type_from_dbc t) | _ => s end
  | Some _ => s
  | None => set_s_attrs s (app_attrs a (s_attrs s))
  end.

(* an assignment the importer accepts on its entity kind *)
Definition masg_ok (a : attr_asg) : Prop :=
  match special_of (clear (aa_name a)) with
  | Some SpMsgCycle | Some SpMsgDelay | Some SpMsgStartDelay => exists z, aa_val a = ValInt z
  | Some SpMsgSend => exists s, aa_val a = ValString s
  | Some _ => True
  | None => check_value (aa_def a) (aa_val a) = true
  end.
Definition sasg_ok (a : attr_asg) : Prop :=
  match special_of (clear (aa_name a)) with
  | Some SpSigStart => True
  | Some SpSigSend => exists s, aa_val a = ValString s
  | Some _ => True
  | None => check_value (aa_def a) (aa_val a) = true
  end.

Lemma assign_message_ok : forall a m, masg_ok a ->
  assign_message (clear (aa_name a)) (aa_def a) (aa_val a) m = Ok (app_msg a m).
Proof.
  intros a m H. unfold assign_message, app_msg, masg_ok in *.
  destruct (special_of (clear (aa_name a))) as [[]|]; try (destruct H as [x ->]; reflexivity); try reflexivity.
  unfold try_assign. rewrite H. reflexivity.
Qed.
Lemma assign_signal_ok : forall a s, sasg_ok a ->
  assign_signal (clear (aa_name a)) (aa_def a) (aa_val a) s = Ok (app_sig a s).
Proof.
  intros a s H. unfold assign_signal, app_sig, sasg_ok in *.
  destruct (special_of (clear (aa_name a))) as [[]|]; try (destruct H as [x ->]; reflexivity); try reflexivity.
  - destruct (aa_val a); reflexivity.
  - unfold try_assign. rewrite H. reflexivity.
Qed.

(* ---------------- one step of importAttributes per entity kind ---------------- *)
Definition asg_ok (amap : list (string * attr_def)) (t : tasg) : Prop :=
  lookup String.eqb (tname t) amap = Some (t_def t) /\ val_ok (t_asg t).

Lemma istep_gen : forall amap sm cur t, asg_ok amap t -> t_kind t = OGeneral ->
  check_value (t_def t) (aa_val (t_asg t)) = true ->
  istep amap sm (Ok cur) (reparse_val (av_of t)) = Ok (set_b_attrs cur (app_attrs (t_asg t) (b_attrs cur))).
Proof.
  intros amap sm cur t [Hl Hv] Hk Hc. unfold istep. cbn [bind].
  destruct (av_fields t) as [F1 [F2 [F3 [F4 F5]]]]. rewrite F1, F2, Hl, (attr_value_rt t Hv), Hk. cbn [bind].
  unfold try_assign. rewrite Hc. reflexivity.
Qed.

Lemma istep_node : forall amap sm cur t npre n' npost, asg_ok amap t -> t_kind t = ONode ->
  check_value (t_def t) (aa_val (t_asg t)) = true ->
  b_nodes cur = npre ++ n' :: npost -> n_name n' = t_node t -> t_node t <> dummy_node ->
  (forall x, In x npre -> n_name x <> t_node t) ->
  istep amap sm (Ok cur) (reparse_val (av_of t)) = Ok (set_b_nodes cur (npre ++ app_node (t_asg t) n' :: npost)).
Proof.
  intros amap sm cur t npre n' npost [Hl Hv] Hk Hc Hn Hnm Hdm Hpre. unfold istep. cbn [bind].
  destruct (av_fields t) as [F1 [F2 [F3 [F4 F5]]]]. rewrite F1, F2, F3, Hl, (attr_value_rt t Hv), Hk. cbn [bind].
  replace (String.eqb (t_node t) dummy_node) with false by (symmetry; apply String.eqb_neq; assumption).
  rewrite Hn. rewrite (update_first_zip _ _ npre n' npost (app_node (t_asg t) n')).
  - reflexivity.
  - intros z Hz. apply String.eqb_neq. apply Hpre. assumption.
  - apply String.eqb_eq. assumption.
  - unfold try_assign. rewrite Hc. reflexivity.
Qed.

Lemma istep_msg : forall amap sm cur t pre m' post, asg_ok amap t -> t_kind t = OMessage -> masg_ok (t_asg t) ->
  b_messages cur = pre ++ m' :: post -> m_canid m' = t_msg t -> (forall x, In x pre -> m_canid x <> t_msg t) ->
  istep amap sm (Ok cur) (reparse_val (av_of t)) = Ok (set_b_messages cur (pre ++ app_msg (t_asg t) m' :: post)).
Proof.
  intros amap sm cur t pre m' post [Hl Hv] Hk Hc Hn Hid Hpre. unfold istep. cbn [bind].
  destruct (av_fields t) as [F1 [F2 [F3 [F4 F5]]]]. rewrite F1, F2, F4, Hl, (attr_value_rt t Hv), Hk. cbn [bind].
  rewrite Hn. rewrite (update_first_zip _ _ pre m' post (app_msg (t_asg t) m')).
  - reflexivity.
  - intros z Hz. apply Z.eqb_neq. apply Hpre. assumption.
  - apply Z.eqb_eq. assumption.
  - apply assign_message_ok. assumption.
Qed.

Lemma istep_sig : forall amap sm cur t pre m' post spre s' spost, asg_ok amap t -> t_kind t = OSignal -> sasg_ok (t_asg t) ->
  b_messages cur = pre ++ m' :: post -> m_signals m' = spre ++ s' :: spost ->
  lookup key_eqb (t_msg t, t_sig t) sm = Some (length pre, s_id s') ->
  (forall x, In x spre -> s_id x <> s_id s') ->
  istep amap sm (Ok cur) (reparse_val (av_of t))
  = Ok (set_b_messages cur (pre ++ set_m_signals m' (spre ++ app_sig (t_asg t) s' :: spost) :: post)).
Proof.
  intros amap sm cur t pre m' post spre s' spost [Hl Hv] Hk Hc Hn Hs Hsm Hpre. unfold istep. cbn [bind].
  destruct (av_fields t) as [F1 [F2 [F3 [F4 F5]]]]. rewrite F1, F2, F4, F5, Hl, (attr_value_rt t Hv), Hk, Hsm. cbn [bind].
  rewrite Hn. rewrite (update_nth_zip _ pre m' post (set_m_signals m' (spre ++ app_sig (t_asg t) s' :: spost))).
  - reflexivity.
  - rewrite Hs. rewrite (update_first_zip _ _ spre s' spost (app_sig (t_asg t) s')).
    + reflexivity.
    + intros z Hz. apply Z.eqb_neq. apply Hpre. assumption.
    + apply Z.eqb_refl.
    + apply assign_signal_ok. assumption.
Qed.

(* ---------------- all the assignments of one entity ---------------- *)
Definition avs (T : list tasg) : list dattrval := map reparse_val (map av_of T).

Lemma fold_gen : forall amap sm l cur,
  (forall a, In a l -> asg_ok amap (mktasg OGeneral EmptyString 0 EmptyString a) /\ check_value (aa_def a) (aa_val a) = true) ->
  fold_left (istep amap sm) (avs (map (mktasg OGeneral EmptyString 0 EmptyString) l)) (Ok cur)
  = Ok (set_b_attrs cur (fold_left (fun x a => app_attrs a x) l (b_attrs cur))).
Proof.
  intros amap sm l. induction l as [|a r IH]; intros cur H; cbn [avs map fold_left]; [destruct cur; reflexivity|].
  destruct (H a (or_introl eq_refl)) as [H1 H2].
  rewrite (istep_gen amap sm cur _ H1 eq_refl H2). fold (avs (map (mktasg OGeneral EmptyString 0 EmptyString) r)).
  rewrite IH by (intros x Hx; apply H; right; assumption). reflexivity.
Qed.

Lemma fold_node : forall amap sm node l cur npre n' npost,
  (forall a, In a l -> asg_ok amap (mktasg ONode node 0 EmptyString a) /\ check_value (aa_def a) (aa_val a) = true) ->
  b_nodes cur = npre ++ n' :: npost -> n_name n' = node -> node <> dummy_node ->
  (forall x, In x npre -> n_name x <> node) ->
  fold_left (istep amap sm) (avs (map (mktasg ONode node 0 EmptyString) l)) (Ok cur)
  = Ok (set_b_nodes cur (npre ++ fold_left (fun x a => app_node a x) l n' :: npost)).
Proof.
  intros amap sm node l. induction l as [|a r IH]; intros cur npre n' npost H Hn Hnm Hdm Hpre; cbn [avs map fold_left].
  - rewrite <- Hn. destruct cur; reflexivity.
  - destruct (H a (or_introl eq_refl)) as [H1 H2].
    rewrite (istep_node amap sm cur _ npre n' npost H1 eq_refl H2 Hn Hnm Hdm Hpre).
    fold (avs (map (mktasg ONode node 0 EmptyString) r)).
    rewrite (IH _ npre (app_node a n') npost); try assumption; try reflexivity.
    intros x Hx. apply H. right. assumption.
Qed.

Lemma app_msg_canid : forall a m, m_canid (app_msg a m) = m_canid m.
Proof. intros a m. unfold app_msg. destruct (special_of _) as [[]|]; try destruct (aa_val a); reflexivity. Qed.
Lemma app_msg_signals : forall a m, m_signals (app_msg a m) = m_signals m.
Proof. intros a m. unfold app_msg. destruct (special_of _) as [[]|]; try destruct (aa_val a); reflexivity. Qed.
Lemma app_sig_id : forall a s, s_id (app_sig a s) = s_id s.
Proof. intros a s. unfold app_sig. destruct (special_of _) as [[]|]; try destruct (aa_val a); reflexivity. Qed.

Lemma fold_msg : forall amap sm msgid l cur pre m' post,
  (forall a, In a l -> asg_ok amap (mktasg OMessage EmptyString msgid EmptyString a) /\ masg_ok a) ->
  b_messages cur = pre ++ m' :: post -> m_canid m' = msgid -> (forall x, In x pre -> m_canid x <> msgid) ->
  fold_left (istep amap sm) (avs (map (mktasg OMessage EmptyString msgid EmptyString) l)) (Ok cur)
  = Ok (set_b_messages cur (pre ++ fold_left (fun x a => app_msg a x) l m' :: post)).
Proof.
  intros amap sm msgid l. induction l as [|a r IH]; intros cur pre m' post H Hn Hid Hpre; cbn [avs map fold_left].
  - rewrite <- Hn. destruct cur; reflexivity.
  - destruct (H a (or_introl eq_refl)) as [H1 H2].
    rewrite (istep_msg amap sm cur _ pre m' post H1 eq_refl H2 Hn Hid Hpre).
    fold (avs (map (mktasg OMessage EmptyString msgid EmptyString) r)).
    rewrite (IH _ pre (app_msg a m') post); try assumption; try reflexivity.
    + intros x Hx. apply H. right. assumption.
    + rewrite app_msg_canid. assumption.
Qed.

Lemma fold_sig : forall amap sm msgid sname l cur pre m' post spre s' spost,
  (forall a, In a l -> asg_ok amap (mktasg OSignal EmptyString msgid sname a) /\ sasg_ok a) ->
  b_messages cur = pre ++ m' :: post -> m_signals m' = spre ++ s' :: spost ->
  lookup key_eqb (msgid, sname) sm = Some (length pre, s_id s') ->
  (forall x, In x spre -> s_id x <> s_id s') ->
  fold_left (istep amap sm) (avs (map (mktasg OSignal EmptyString msgid sname) l)) (Ok cur)
  = Ok (set_b_messages cur (pre ++ set_m_signals m' (spre ++ fold_left (fun x a => app_sig a x) l s' :: spost) :: post)).
Proof.
  intros amap sm msgid sname l. induction l as [|a r IH]; intros cur pre m' post spre s' spost H Hn Hs Hsm Hpre; cbn [avs map fold_left].
  - rewrite <- Hs. replace (set_m_signals m' (m_signals m')) with m' by (destruct m'; reflexivity). rewrite <- Hn. destruct cur; reflexivity.
  - destruct (H a (or_introl eq_refl)) as [H1 H2].
    rewrite (istep_sig amap sm cur _ pre m' post spre s' spost H1 eq_refl H2 Hn Hs Hsm Hpre).
    fold (avs (map (mktasg OSignal EmptyString msgid sname) r)).
    rewrite (IH _ pre (set_m_signals m' (spre ++ app_sig a s' :: spost)) post spre (app_sig a s') spost).
    + destruct m', cur; reflexivity.
    + intros x Hx. apply H. right. assumption.
    + reflexivity.
    + reflexivity.
    + rewrite app_sig_id. assumption.
    + rewrite app_sig_id. assumption.
Qed.

(* ---------------- composition along the export order ---------------- *)
Definition fin_sig (s s' : signal) : signal := fold_left (fun x a => app_sig a x) (sort_attrs (s_attrs s) ++ wk_sig s) s'.
Definition fin_matt (m m' : message) : message := fold_left (fun x a => app_msg a x) (sort_attrs (m_attrs m) ++ wk_msg m) m'.
Fixpoint zipf {A B} (f : A -> B -> B) (l : list A) (l' : list B) : list B :=
  match l, l' with x :: r, y :: r' => f x y :: zipf f r r' | _, _ => l' end.
Definition fin_msg (m m' : message) : message :=
  set_m_signals (fin_matt m m') (zipf fin_sig (m_signals m) (m_signals m')).
Definition fin_node (n n' : node) : node := fold_left (fun x a => app_node a x) (sort_attrs (n_attrs n)) n'.

Lemma avs_app : forall a b, avs (a ++ b) = avs a ++ avs b.
Proof. intros a b. unfold avs. rewrite !map_app. reflexivity. Qed.

Lemma fin_sig_id : forall s s', s_id (fin_sig s s') = s_id s'.
Proof.
  intros s s'. unfold fin_sig. generalize (sort_attrs (s_attrs s) ++ wk_sig s). intros l. revert s'.
  induction l as [|a r IH]; intros s'; cbn [fold_left]; [reflexivity|]. rewrite IH. apply app_sig_id.
Qed.
Lemma fin_matt_canid : forall m m', m_canid (fin_matt m m') = m_canid m'.
Proof.
  intros m m'. unfold fin_matt. generalize (sort_attrs (m_attrs m) ++ wk_msg m). intros l. revert m'.
  induction l as [|a r IH]; intros m'; cbn [fold_left]; [reflexivity|]. rewrite IH. apply app_msg_canid.
Qed.
Lemma fin_matt_signals : forall m m', m_signals (fin_matt m m') = m_signals m'.
Proof.
  intros m m'. unfold fin_matt. generalize (sort_attrs (m_attrs m) ++ wk_msg m). intros l. revert m'.
  induction l as [|a r IH]; intros m'; cbn [fold_left]; [reflexivity|]. rewrite IH. apply app_msg_signals.
Qed.
Lemma fin_node_name : forall n n', n_name (fin_node n n') = n_name n'.
Proof.
  intros n n'. unfold fin_node. generalize (sort_attrs (n_attrs n)). intros l. revert n'.
  induction l as [|a r IH]; intros n'; cbn [fold_left]; [reflexivity|]. rewrite IH. reflexivity.
Qed.

(* what every exported assignment must satisfy for the importer *)
Definition t_ok (amap : list (string * attr_def)) (t : tasg) : Prop :=
  asg_ok amap t /\
  match t_kind t with
  | OGeneral | ONode => check_value (t_def t) (aa_val (t_asg t)) = true
  | OMessage => masg_ok (t_asg t)
  | OSignal => sasg_ok (t_asg t)
  | OEnvVar => False
  end.

Lemma fold_sigs : forall amap sm msgid l l' cur pre m' post spre,
  (forall t, In t (flat_map (T_sig msgid) l) -> t_ok amap t) ->
  b_messages cur = pre ++ m' :: post -> m_signals m' = spre ++ l' ->
  NoDup (map s_id (spre ++ l')) ->
  Forall2 (fun s s' => lookup key_eqb (msgid, clear (s_name s)) sm = Some (length pre, s_id s')) l l' ->
  fold_left (istep amap sm) (avs (flat_map (T_sig msgid) l)) (Ok cur)
  = Ok (set_b_messages cur (pre ++ set_m_signals m' (spre ++ zipf fin_sig l l') :: post)).
Proof.
  intros amap sm msgid l. induction l as [|s r IH]; intros l' cur pre m' post spre Hok Hn Hs Hnd HF.
  - inversion HF; subst. cbn [flat_map avs map fold_left zipf]. rewrite <- Hs.
    replace (set_m_signals m' (m_signals m')) with m' by (destruct m'; reflexivity). rewrite <- Hn. destruct cur; reflexivity.
  - inversion HF as [|? s' ? r' Hlk HF']; subst. cbn [flat_map zipf]. rewrite avs_app, fold_left_app.
    change (T_sig msgid s) with (map (mktasg OSignal EmptyString msgid (clear (s_name s))) (sort_attrs (s_attrs s) ++ wk_sig s)).
    rewrite (fold_sig amap sm msgid (clear (s_name s)) _ cur pre m' post spre s' r').
    + rewrite (IH r' _ pre (set_m_signals m' (spre ++ fin_sig s s' :: r')) post (spre ++ [fin_sig s s'])).
      * rewrite <- app_assoc. destruct m', cur; reflexivity.
      * intros t Ht. apply Hok. cbn [flat_map]. apply in_or_app. right. assumption.
      * reflexivity.
      * cbn [m_signals set_m_signals]. rewrite <- app_assoc. reflexivity.
      * rewrite <- app_assoc. cbn [app]. rewrite !map_app in *. cbn [map] in *. rewrite fin_sig_id. assumption.
      * assumption.
    + intros a Ha. assert (Ht : t_ok amap (mktasg OSignal EmptyString msgid (clear (s_name s)) a)).
      { apply Hok. cbn [flat_map]. apply in_or_app. left. unfold T_sig. apply in_map. assumption. }
      destruct Ht as [H1 H2]. split; assumption.
    + assumption.
    + assumption.
    + assumption.
    + intros x Hx Heq. rewrite map_app in Hnd. cbn [map] in Hnd. apply NoDup_remove_2 in Hnd. apply Hnd.
      apply in_or_app. left. rewrite <- Heq. apply in_map. assumption.
Qed.

Lemma fold_T_msg : forall amap sm m m' cur pre post,
  (forall t, In t (T_msg m) -> t_ok amap t) ->
  b_messages cur = pre ++ m' :: post -> m_canid m' = u32 (m_canid m) -> (forall x, In x pre -> m_canid x <> u32 (m_canid m)) ->
  NoDup (map s_id (m_signals m')) ->
  Forall2 (fun s s' => lookup key_eqb (u32 (m_canid m), clear (s_name s)) sm = Some (length pre, s_id s')) (m_signals m) (m_signals m') ->
  fold_left (istep amap sm) (avs (T_msg m)) (Ok cur) = Ok (set_b_messages cur (pre ++ fin_msg m m' :: post)).
Proof.
  intros amap sm m m' cur pre post Hok Hn Hid Hpre Hnd HF. unfold T_msg. rewrite avs_app, fold_left_app.
  rewrite (fold_msg amap sm (u32 (m_canid m)) _ cur pre m' post); try assumption.
  - fold (fin_matt m m').
    rewrite (fold_sigs amap sm (u32 (m_canid m)) (m_signals m) (m_signals m') _ pre (fin_matt m m') post []).
    + unfold fin_msg. cbn [app]. destruct cur; reflexivity.
    + intros t Ht. apply Hok. unfold T_msg. apply in_or_app. right. assumption.
    + reflexivity.
    + rewrite fin_matt_signals. reflexivity.
    + assumption.
    + assumption.
  - intros a Ha. assert (Ht : t_ok amap (mktasg OMessage EmptyString (u32 (m_canid m)) EmptyString a)).
    { apply Hok. unfold T_msg. apply in_or_app. left. apply in_map. assumption. }
    destruct Ht as [H1 H2]. split; assumption.
Qed.

Fixpoint msgs_rel (sm : list (key * (nat * Z))) (p : nat) (l l' : list message) : Prop :=
  match l, l' with
  | [], [] => True
  | m :: r, m' :: r' =>
      m_canid m' = u32 (m_canid m) /\ NoDup (map s_id (m_signals m')) /\
      Forall2 (fun s s' => lookup key_eqb (u32 (m_canid m), clear (s_name s)) sm = Some (p, s_id s')) (m_signals m) (m_signals m') /\
      msgs_rel sm (S p) r r'
  | _, _ => False
  end.

Lemma msgs_rel_app : forall sm a b p l', msgs_rel sm p (a ++ b) l' ->
  exists a' b', l' = a' ++ b' /\ length a' = length a /\ msgs_rel sm p a a' /\ msgs_rel sm (p + length a) b b'.
Proof.
  intros sm a. induction a as [|m r IH]; intros b p l' H; cbn [app] in H.
  - exists [], l'. cbn. rewrite Nat.add_0_r. auto.
  - destruct l' as [|m' r']; [destruct H|]. cbn [msgs_rel] in H. destruct H as [H1 [H2 [H3 H4]]].
    destruct (IH b (S p) r' H4) as [a' [b' [E1 [E2 [E3 E4]]]]]. exists (m' :: a'), b'. subst r'. cbn [app length msgs_rel].
    rewrite E2. replace (p + S (length r))%nat with (S p + length r)%nat by lia. auto 10.
Qed.
Lemma zipf_app : forall {A B} (f : A -> B -> B) a a' b b', length a = length a' ->
  zipf f (a ++ b) (a' ++ b') = zipf f a a' ++ zipf f b b'.
Proof.
  intros A B f a. induction a as [|x r IH]; intros a' b b' H; destruct a'; cbn in H; try discriminate; cbn [app zipf]; [reflexivity|].
  rewrite IH by lia. reflexivity.
Qed.
Lemma zipf_length : forall {A B} (f : A -> B -> B) l l', length (zipf f l l') = length l'.
Proof. intros A B f l. induction l as [|x r IH]; intros [|y r']; cbn; auto. Qed.
Lemma fin_msg_canid : forall m m', m_canid (fin_msg m m') = m_canid m'.
Proof. intros m m'. unfold fin_msg. cbn [m_canid set_m_signals]. apply fin_matt_canid. Qed.
Lemma zipf_canids : forall l l', map m_canid (zipf fin_msg l l') = map m_canid l'.
Proof. induction l as [|x r IH]; intros [|y r']; cbn [zipf map]; try reflexivity. rewrite IH, fin_msg_canid. reflexivity. Qed.
Lemma zipf_names : forall l l', map n_name (zipf fin_node l l') = map n_name l'.
Proof. induction l as [|x r IH]; intros [|y r']; cbn [zipf map]; try reflexivity. rewrite IH, fin_node_name. reflexivity. Qed.

Lemma fold_T_msgs : forall amap sm l l' cur pre post,
  (forall t, In t (flat_map T_msg l) -> t_ok amap t) ->
  b_messages cur = pre ++ l' ++ post -> NoDup (map m_canid (pre ++ l' ++ post)) ->
  msgs_rel sm (length pre) l l' ->
  fold_left (istep amap sm) (avs (flat_map T_msg l)) (Ok cur) = Ok (set_b_messages cur (pre ++ zipf fin_msg l l' ++ post)).
Proof.
  intros amap sm l. induction l as [|m r IH]; intros l' cur pre post Hok Hn Hnd HR.
  - destruct l'; [|destruct HR]. cbn [flat_map avs map fold_left zipf]. rewrite <- Hn. destruct cur; reflexivity.
  - destruct l' as [|m' r']; [destruct HR|]. cbn [msgs_rel] in HR. destruct HR as [H1 [H2 [H3 H4]]].
    cbn [flat_map zipf]. rewrite avs_app, fold_left_app.
    rewrite (fold_T_msg amap sm m m' cur pre (r' ++ post)); try assumption.
    + rewrite (IH r' _ (pre ++ [fin_msg m m']) post).
      * rewrite <- app_assoc. destruct cur; reflexivity.
      * intros t Ht. apply Hok. cbn [flat_map]. apply in_or_app. right. assumption.
      * cbn [b_messages set_b_messages]. rewrite <- app_assoc. reflexivity.
      * rewrite <- app_assoc. cbn [app] in *. rewrite !map_app in *. cbn [map] in *. rewrite fin_msg_canid. assumption.
      * rewrite app_length. cbn [length]. replace (length pre + 1)%nat with (S (length pre)) by lia. assumption.
    + intros t Ht. apply Hok. cbn [flat_map]. apply in_or_app. left. assumption.
    + intros x Hx Heq. rewrite map_app in Hnd. cbn [app map] in Hnd. apply NoDup_remove_2 in Hnd. apply Hnd.
      apply in_or_app. left. rewrite H1, <- Heq. apply in_map. assumption.
Qed.

Notation Fn b := (fun n : node => filter (fun m => String.eqb (m_sender m) (n_name n)) (b_messages b)).

Lemma fold_T_nodes : forall amap sm b ns ns' cur npre npost mpre l' mpost,
  (forall t, In t (flat_map (T_node b) ns) -> t_ok amap t) ->
  b_nodes cur = npre ++ ns' ++ npost -> Forall2 (fun n n' => n_name n' = clear (n_name n)) ns ns' ->
  NoDup (map n_name (npre ++ ns' ++ npost)) -> (forall n, In n ns -> clear (n_name n) <> dummy_node) ->
  b_messages cur = mpre ++ l' ++ mpost -> NoDup (map m_canid (mpre ++ l' ++ mpost)) ->
  msgs_rel sm (length mpre) (flat_map (Fn b) ns) l' ->
  fold_left (istep amap sm) (avs (flat_map (T_node b) ns)) (Ok cur)
  = Ok (set_b_messages (set_b_nodes cur (npre ++ zipf fin_node ns ns' ++ npost))
                       (mpre ++ zipf fin_msg (flat_map (Fn b) ns) l' ++ mpost)).
Proof.
  intros amap sm b ns. induction ns as [|n r IH]; intros ns' cur npre npost mpre l' mpost Hok Hn HF Hnd Hdm Hm Hcd HR.
  - inversion HF; subst. cbn [flat_map] in HR. destruct l'; [|destruct HR].
    cbn [flat_map avs map fold_left zipf]. rewrite <- Hn, <- Hm. destruct cur; reflexivity.
  - inversion HF as [|? n' ? r' Hnm HF']; subst. cbn [flat_map zipf]. cbn [flat_map] in HR.
    destruct (msgs_rel_app sm _ _ _ _ HR) as [a' [b' [-> [Hla [HRa HRb]]]]].
    unfold T_node at 1. rewrite !avs_app, !fold_left_app.
    rewrite (fold_node amap sm (clear (n_name n)) _ cur npre n' (r' ++ npost)); try assumption.
    2:{ intros a Ha. assert (Ht : t_ok amap (mktasg ONode (clear (n_name n)) 0 EmptyString a)).
        { apply Hok. cbn [flat_map]. apply in_or_app. left. unfold T_node. apply in_or_app. left. apply in_map. assumption. }
        destruct Ht as [H1 H2]. split; assumption. }
    2:{ apply Hdm. left. reflexivity. }
    2:{ intros x Hx Heq. rewrite map_app in Hnd. cbn [app map] in Hnd. apply NoDup_remove_2 in Hnd. apply Hnd.
        apply in_or_app. left. rewrite Hnm, <- Heq. apply in_map. assumption. }
    fold (fin_node n n').
    rewrite (fold_T_msgs amap sm (Fn b n) a' _ mpre (b' ++ mpost)).
    2:{ intros t Ht. apply Hok. cbn [flat_map]. apply in_or_app. left. unfold T_node. apply in_or_app. right. assumption. }
    2:{ cbn [b_messages set_b_nodes]. rewrite Hm, <- app_assoc. reflexivity. }
    2:{ rewrite <- app_assoc in Hcd. assumption. }
    2:{ assumption. }
    rewrite (IH r' _ (npre ++ [fin_node n n']) npost (mpre ++ zipf fin_msg (Fn b n) a') b' mpost).
    + rewrite (zipf_app fin_msg) by (symmetry; assumption). rewrite <- !app_assoc. destruct cur; reflexivity.
    + intros t Ht. apply Hok. cbn [flat_map]. apply in_or_app. right. assumption.
    + cbn [b_nodes set_b_nodes set_b_messages]. rewrite <- app_assoc. reflexivity.
    + assumption.
    + rewrite <- app_assoc. cbn [app] in *. rewrite !map_app in *. cbn [map] in *. rewrite fin_node_name. assumption.
    + intros x Hx. apply Hdm. right. assumption.
    + cbn [b_messages set_b_messages]. rewrite <- !app_assoc. reflexivity.
    + rewrite <- !app_assoc in *. rewrite !map_app in *. rewrite zipf_canids. assumption.
    + rewrite app_length, zipf_length, Hla. assumption.
Qed.

(* ---------------- what the folds leave on an entity ---------------- *)
Definition img (a : attr_asg) : attr_asg := mkasg (clear (aa_name a)) (aa_def a) (aa_val a).

Lemma assign_fresh : forall name d v l, ~ In name (map aa_name l) -> assign name d v l = l ++ [mkasg name d v].
Proof.
  intros name d v l. induction l as [|a r IH]; intros H; cbn [assign app]; [reflexivity|].
  destruct (String.eqb (aa_name a) name) eqn:E.
  - apply String.eqb_eq in E. exfalso. apply H. left. assumption.
  - rewrite IH; [reflexivity|]. intros Hin. apply H. right. assumption.
Qed.

Lemma fold_app_attrs : forall l acc, NoDup (map aa_name acc ++ map (fun a => clear (aa_name a)) l) ->
  fold_left (fun x a => app_attrs a x) l acc = acc ++ map img l.
Proof.
  induction l as [|a r IH]; intros acc H; cbn [fold_left map]; [rewrite app_nil_r; reflexivity|].
  unfold app_attrs at 2. rewrite assign_fresh.
  - rewrite IH; [rewrite <- app_assoc; reflexivity|]. rewrite map_app. cbn [map aa_name]. rewrite <- app_assoc. exact H.
  - cbn [map] in H. apply NoDup_remove_2 in H. intros Hin. apply H. apply in_or_app. left. assumption.
Qed.

(* sorting by a key is canonical on permutations when the keys are distinct *)
Section KeyedSort.
  Context {A : Type} (key : A -> string).
  Let kltb := fun a b : A => str_ltb (key a) (key b).
  Lemma map_insert_key : forall x l, map key (insert_sorted kltb x l) = insert_sorted str_ltb (key x) (map key l).
  Proof.
    intros x l. induction l as [|y r IH]; cbn [insert_sorted map]; [reflexivity|].
    unfold kltb at 1. destruct (str_ltb (key y) (key x)); cbn [map]; [rewrite IH|]; reflexivity.
  Qed.
  Lemma map_sort_key : forall l, map key (sort_by kltb l) = sort_by str_ltb (map key l).
  Proof.
    induction l as [|x r IH]; [reflexivity|]. cbn [sort_by fold_right map].
    fold (sort_by kltb r). fold (sort_by str_ltb (map key r)). rewrite map_insert_key, IH. reflexivity.
  Qed.
  Lemma perm_keys_eq : forall a b, Permutation a b -> map key a = map key b -> NoDup (map key a) -> a = b.
  Proof.
    induction a as [|x r IH]; intros b Hp Hk Hnd.
    - apply Permutation_nil in Hp. subst. reflexivity.
    - destruct b as [|y q]; [discriminate Hk|]. cbn [map] in Hk. inversion Hk as [[Hxy Hrq]].
      assert (x = y).
      { assert (Hin : In x (y :: q)) by (eapply Permutation_in; [exact Hp|left; reflexivity]).
        destruct Hin as [Hin|Hin]; [auto|]. exfalso.
        cbn [map] in Hnd. rewrite Hk in Hnd. inversion Hnd as [|? ? Hni _]; subst. apply Hni. rewrite <- Hxy. apply in_map. assumption. }
      subst y. f_equal. apply IH; [eapply Permutation_cons_inv; exact Hp|assumption|]. inversion Hnd; assumption.
  Qed.
  Lemma keyed_sort_perm_eq : forall l l', Permutation l l' -> NoDup (map key l) -> sort_by kltb l = sort_by kltb l'.
  Proof.
    intros l l' Hp Hnd. apply perm_keys_eq.
    - eapply Permutation_trans; [apply Permutation_sym, sort_by_perm|]. eapply Permutation_trans; [exact Hp|apply sort_by_perm].
    - rewrite !map_sort_key. apply sort_str_perm_eq. apply Permutation_map. assumption.
    - rewrite map_sort_key. eapply Permutation_NoDup; [apply sort_by_perm|assumption].
  Qed.
End KeyedSort.

Lemma proj_attrs_img : forall l, NoDup (map (fun a => clear (aa_name a)) l) ->
  proj_attrs (map img (sort_attrs l)) = proj_attrs l.
Proof.
  intros l Hnd. unfold proj_attrs. rewrite map_map.
  rewrite (map_ext (fun a => proj_asg (img a)) proj_asg)
    by (intros a; unfold proj_asg, img; cbn [aa_name aa_def aa_val]; rewrite clear_spaces_idem; reflexivity).
  apply (keyed_sort_perm_eq aa_name).
  - apply Permutation_map. apply Permutation_sym. unfold sort_attrs. apply sort_by_perm.
  - rewrite map_map. eapply Permutation_NoDup; [|exact Hnd].
    apply (Permutation_map (fun a => clear (aa_name a))). unfold sort_attrs. apply sort_by_perm.
Qed.

(* ---------------- the fragment ---------------- *)
Definition user_asgs_ok (l : list attr_asg) : Prop :=
  NoDup (map (fun a => clear (aa_name a)) l) /\
  Forall (fun a => wf_asg a /\ special_of (clear (aa_name a)) = None) l.

Definition abus (b : bus) : Prop :=
  grouped b /\ ebus (strip_bus b) /\ T_ok (T_bus b) /\
  user_asgs_ok (b_attrs b) /\ Forall (fun n => user_asgs_ok (n_attrs n)) (b_nodes b) /\
  Forall (fun m => user_asgs_ok (m_attrs m) /\ 0 <= m_sendtype m < 5 /\
            Forall (fun s => user_asgs_ok (s_attrs s) /\ fl_canonical (s_startval s) /\ 0 <= s_sendtype s < 8) (m_signals m))
         (b_messages b).

Lemma wf_asg_val_ok : forall a, wf_asg a -> val_ok a /\ check_value (aa_def a) (aa_val a) = true.
Proof.
  intros a [Hd [Hc Hf]]. split; [|assumption]. unfold val_ok.
  destruct (aa_def a) as [s|dv mn mx hex|dv mn mx|dv vals], (aa_val a) as [v|z|f]; cbn in Hc; try discriminate; try exact I.
  - intros ->. cbn in Hd. destruct Hd as [_ Hh]. destruct (Hh eq_refl). lia.
  - assumption.
  - cbn in Hd. destruct Hd as [Hnd _]. split; [assumption|]. apply Proofs.mem_str_true_in. assumption.
Qed.

Lemma app_msg_cycle : forall d z x, app_msg (mkasg "GenMsgCycleTime" d (ValInt z)) x = set_m_times x z (m_delay x) (m_startdelay x) (m_sendtype x).
Proof. reflexivity. Qed.
Lemma app_msg_delay : forall d z x, app_msg (mkasg "GenMsgDelayTime" d (ValInt z)) x = set_m_times x (m_cycle x) z (m_startdelay x) (m_sendtype x).
Proof. reflexivity. Qed.
Lemma app_msg_sdelay : forall d z x, app_msg (mkasg "GenMsgStartDelayTime" d (ValInt z)) x = set_m_times x (m_cycle x) (m_delay x) z (m_sendtype x).
Proof. reflexivity. Qed.
Lemma app_msg_send : forall d s x, app_msg (mkasg "GenMsgSendType" d (ValString s)) x
  = set_m_times x (m_cycle x) (m_delay x) (m_startdelay x) (msg_send_type_from_dbc s).
Proof. reflexivity. Qed.
Lemma app_sig_start : forall d f x, app_sig (mkasg "GenSigStartValue" d (ValFloat f)) x = set_s_special x f (s_sendtype x).
Proof. reflexivity. Qed.
Lemma app_sig_send : forall d s x, app_sig (mkasg "GenSigSendType" d (ValString s)) x
  = set_s_special x (s_startval x) (sig_send_type_from_dbc s).
Proof. reflexivity. Qed.

Lemma msg_send_rt : forall st, 0 <= st < 5 -> msg_send_type_from_dbc (nth (Z.to_nat st) msg_send_types "NoMsgSendType"%string) = st.
Proof. intros st H. assert (st = 0 \/ st = 1 \/ st = 2 \/ st = 3 \/ st = 4) as [->|[->|[->|[->| ->]]]] by lia; reflexivity. Qed.
Lemma sig_send_rt : forall st, 0 <= st < 8 -> sig_send_type_from_dbc (nth (Z.to_nat st) sig_send_types "NoSigSendType"%string) = st.
Proof.
  intros st H. assert (st = 0 \/ st = 1 \/ st = 2 \/ st = 3 \/ st = 4 \/ st = 5 \/ st = 6 \/ st = 7)
    as [->|[->|[->|[->|[->|[->|[->| ->]]]]]]] by lia; reflexivity.
Qed.

Lemma fold_user_msg : forall l x, Forall (fun a => special_of (clear (aa_name a)) = None) l ->
  fold_left (fun y a => app_msg a y) l x = set_m_attrs x (fold_left (fun y a => app_attrs a y) l (m_attrs x)).
Proof.
  induction l as [|a r IH]; intros x H; cbn [fold_left]; [destruct x; reflexivity|].
  inversion H as [|? ? Ha Hr]; subst. rewrite IH by assumption. unfold app_msg. rewrite Ha. destruct x; reflexivity.
Qed.
Lemma fold_user_sig : forall l x, Forall (fun a => special_of (clear (aa_name a)) = None) l ->
  fold_left (fun y a => app_sig a y) l x = set_s_attrs x (fold_left (fun y a => app_attrs a y) l (s_attrs x)).
Proof.
  induction l as [|a r IH]; intros x H; cbn [fold_left]; [destruct x; reflexivity|].
  inversion H as [|? ? Ha Hr]; subst. rewrite IH by assumption. unfold app_sig. rewrite Ha. destruct x; reflexivity.
Qed.
Lemma fold_user_node : forall l x,
  fold_left (fun y a => app_node a y) l x = mknode (n_name x) (n_id x) (n_desc x) (fold_left (fun y a => app_attrs a y) l (n_attrs x)).
Proof. induction l as [|a r IH]; intros x; cbn [fold_left]; [destruct x; reflexivity|]. rewrite IH. reflexivity. Qed.

Lemma user_sorted : forall l, user_asgs_ok l ->
  NoDup (map (fun a => clear (aa_name a)) (sort_attrs l)) /\
  Forall (fun a => special_of (clear (aa_name a)) = None) (sort_attrs l).
Proof.
  intros l [Hnd Hf]. split.
  - eapply Permutation_NoDup; [|exact Hnd]. apply Permutation_map. unfold sort_attrs. apply sort_by_perm.
  - apply Forall_forall. intros a Ha. unfold sort_attrs in Ha. apply Proofs.In_sort_by in Ha.
    rewrite Forall_forall in Hf. apply (Hf a Ha).
Qed.

Lemma fin_matt_eval : forall m m', user_asgs_ok (m_attrs m) -> 0 <= m_sendtype m < 5 ->
  m_attrs m' = [] -> m_cycle m' = 0 -> m_delay m' = 0 -> m_startdelay m' = 0 -> m_sendtype m' = 0 ->
  fin_matt m m' = set_m_times (set_m_attrs m' (map img (sort_attrs (m_attrs m))))
                              (m_cycle m) (m_delay m) (m_startdelay m) (m_sendtype m).
Proof.
  intros m m' Hu Hst Ha Hc Hd Hs Ht. destruct (user_sorted _ Hu) as [Hnd Hsp].
  unfold fin_matt. rewrite fold_left_app, (fold_user_msg _ _ Hsp), Ha, fold_app_attrs by (cbn [map app]; assumption). cbn [app].
  unfold wk_msg.
  destruct m' as [ci nm sz od cy dl sd st0 tx rc ds att sg]. cbn [m_attrs m_cycle m_delay m_startdelay m_sendtype] in *. subst.
  unfold set_m_attrs, set_m_times. cbn [m_canid m_name m_size m_order m_cycle m_delay m_startdelay m_sendtype m_sender m_receivers m_desc m_attrs m_signals].
  destruct (m_cycle m =? 0) eqn:E1; destruct (m_delay m =? 0) eqn:E2; destruct (m_startdelay m =? 0) eqn:E3; destruct (m_sendtype m =? 0) eqn:E4;
    cbn [app fold_left]; rewrite ?app_msg_cycle, ?app_msg_delay, ?app_msg_sdelay, ?app_msg_send, ?msg_send_rt by assumption;
    unfold set_m_times; cbn [m_canid m_name m_size m_order m_cycle m_delay m_startdelay m_sendtype m_sender m_receivers m_desc m_attrs m_signals];
    repeat match goal with H : (_ =? 0) = true |- _ => apply Z.eqb_eq in H; rewrite H end; reflexivity.
Qed.

Lemma fl_zero_canonical : forall f, fl_canonical f -> fl_is_zero f = true -> f = fl_zero.
Proof.
  intros [m e] [[Hm He]|Hodd] Hz; cbn [fm fe] in *; [subst; reflexivity|].
  unfold fl_is_zero in Hz. cbn [fm] in Hz. apply Z.eqb_eq in Hz. subst. discriminate Hodd.
Qed.

Lemma fin_sig_eval : forall s s', user_asgs_ok (s_attrs s) -> fl_canonical (s_startval s) -> 0 <= s_sendtype s < 8 ->
  s_attrs s' = [] -> s_startval s' = fl_zero -> s_sendtype s' = 0 ->
  fin_sig s s' = set_s_special (set_s_attrs s' (map img (sort_attrs (s_attrs s)))) (s_startval s) (s_sendtype s).
Proof.
  intros s s' Hu Hcan Hst Ha Hv Ht. destruct (user_sorted _ Hu) as [Hnd Hsp].
  unfold fin_sig. rewrite fold_left_app, (fold_user_sig _ _ Hsp), Ha, fold_app_attrs by (cbn [map app]; assumption). cbn [app].
  unfold wk_sig. destruct s' as [i0 n0 k0 r0 p0 g0 z0 sg0 sc0 of0 mn0 mx0 un0 en0 gc0 gs0 de0 sv0 st0 at0]. cbn [s_attrs s_startval s_sendtype] in *. subst.
  unfold set_s_attrs, set_s_special.
  cbn [s_id s_name s_kind s_rel s_parent s_groups s_size s_signed s_scale s_offset s_min s_max s_unit s_enum s_gcount s_gsize s_desc s_startval s_sendtype s_attrs].
  destruct (fl_is_zero (s_startval s)) eqn:E1; destruct (s_sendtype s =? 0) eqn:E2;
    cbn [app fold_left]; rewrite ?app_sig_start, ?app_sig_send, ?sig_send_rt by assumption;
    unfold set_s_special;
    cbn [s_id s_name s_kind s_rel s_parent s_groups s_size s_signed s_scale s_offset s_min s_max s_unit s_enum s_gcount s_gsize s_desc s_startval s_sendtype s_attrs];
    try (rewrite (fl_zero_canonical _ Hcan E1)); try (apply Z.eqb_eq in E2; rewrite E2); reflexivity.
Qed.

Lemma fin_node_eval : forall n n', user_asgs_ok (n_attrs n) -> n_attrs n' = [] ->
  fin_node n n' = mknode (n_name n') (n_id n') (n_desc n') (map img (sort_attrs (n_attrs n))).
Proof.
  intros n n' Hu Ha. destruct (user_sorted _ Hu) as [Hnd _]. unfold fin_node. rewrite fold_user_node, Ha, fold_app_attrs by (cbn [map app]; assumption).
  reflexivity.
Qed.

(* ---------------- every exported assignment is acceptable to the importer ---------------- *)
Lemma nodup_msg_send : NoDup msg_send_types.
Proof. unfold msg_send_types. repeat constructor; cbn; intuition discriminate. Qed.
Lemma nodup_sig_send : NoDup sig_send_types.
Proof. unfold sig_send_types. repeat constructor; cbn; intuition discriminate. Qed.

Ltac cond_in H := match type of H with In _ (if ?c then _ else _) => destruct c; [destruct H|destruct H as [<-|[]]] end.
Ltac int_case := split; [unfold val_ok; cbn; intros Hh; discriminate Hh|unfold masg_ok; cbn; eexists; reflexivity].

Lemma wk_msg_ok : forall m a, 0 <= m_sendtype m < 5 -> In a (wk_msg m) -> val_ok a /\ masg_ok a.
Proof.
  intros m a Hst Hin. unfold wk_msg in Hin.
  apply in_app_or in Hin. destruct Hin as [Hin|Hin].
  { destruct (m_cycle m =? 0); [destruct Hin|destruct Hin as [<-|[]]]. int_case. }
  apply in_app_or in Hin. destruct Hin as [Hin|Hin].
  { destruct (m_delay m =? 0); [destruct Hin|destruct Hin as [<-|[]]]. int_case. }
  apply in_app_or in Hin. destruct Hin as [Hin|Hin].
  { destruct (m_startdelay m =? 0); [destruct Hin|destruct Hin as [<-|[]]]. int_case. }
  destruct (m_sendtype m =? 0) eqn:E; [destruct Hin|destruct Hin as [<-|[]]].
  split.
  - unfold val_ok. cbn [aa_def aa_val msg_send_att]. split; [apply nodup_msg_send|].
    assert (m_sendtype m = 1 \/ m_sendtype m = 2 \/ m_sendtype m = 3 \/ m_sendtype m = 4) as [->|[->|[->| ->]]] by lia; cbn; auto 10.
  - unfold masg_ok. cbn. eexists; reflexivity.
Qed.

Lemma wk_sig_ok : forall s a, fl_canonical (s_startval s) -> 0 <= s_sendtype s < 8 -> In a (wk_sig s) -> val_ok a /\ sasg_ok a.
Proof.
  intros s a Hc Hst Hin. unfold wk_sig in Hin.
  apply in_app_or in Hin. destruct Hin as [Hin|Hin].
  - destruct (fl_is_zero (s_startval s)); [destruct Hin|destruct Hin as [<-|[]]]. split; [unfold val_ok; cbn; assumption|unfold sasg_ok; cbn; exact I].
  - destruct (s_sendtype s =? 0) eqn:E; [destruct Hin|destruct Hin as [<-|[]]]. split.
    + unfold val_ok. cbn [aa_def aa_val sig_send_att]. split; [apply nodup_sig_send|].
      assert (s_sendtype s = 1 \/ s_sendtype s = 2 \/ s_sendtype s = 3 \/ s_sendtype s = 4 \/ s_sendtype s = 5 \/ s_sendtype s = 6 \/ s_sendtype s = 7)
        as [->|[->|[->|[->|[->|[->| ->]]]]]] by lia; cbn; auto 12.
    + unfold sasg_ok. cbn. eexists; reflexivity.
Qed.

Lemma user_asg_ok : forall l a, user_asgs_ok l -> In a (sort_attrs l) ->
  val_ok a /\ check_value (aa_def a) (aa_val a) = true /\ special_of (clear (aa_name a)) = None.
Proof.
  intros l a [_ Hf] Hin. unfold sort_attrs in Hin. apply Proofs.In_sort_by in Hin. rewrite Forall_forall in Hf.
  destruct (Hf a Hin) as [Hw Hs]. destruct (wf_asg_val_ok a Hw). auto.
Qed.

Lemma all_t_ok : forall b amap, abus b ->
  (forall t, In t (T_bus b) -> lookup String.eqb (tname t) amap = Some (t_def t)) ->
  forall t, In t (T_bus b) -> t_ok amap t.
Proof.
  intros b amap [_ [_ [_ [Hub [Hun Hum]]]]] Hl t Ht. pose proof (Hl t Ht) as Hlk.
  unfold T_bus in Ht. apply in_app_or in Ht. destruct Ht as [Ht|Ht].
  - apply in_map_iff in Ht. destruct Ht as [a [<- Ha]]. destruct (user_asg_ok _ a Hub Ha) as [H1 [H2 H3]].
    split; [split; assumption|exact H2].
  - apply in_flat_map in Ht. destruct Ht as [n [Hn Ht]]. unfold T_node in Ht. apply in_app_or in Ht. destruct Ht as [Ht|Ht].
    + apply in_map_iff in Ht. destruct Ht as [a [<- Ha]]. rewrite Forall_forall in Hun.
      destruct (user_asg_ok _ a (Hun n Hn) Ha) as [H1 [H2 H3]]. split; [split; assumption|exact H2].
    + apply in_flat_map in Ht. destruct Ht as [m [Hm Ht]]. apply filter_In in Hm. destruct Hm as [Hm _].
      rewrite Forall_forall in Hum. destruct (Hum m Hm) as [Hua [Hst Hsg]].
      unfold T_msg in Ht. apply in_app_or in Ht. destruct Ht as [Ht|Ht].
      * apply in_map_iff in Ht. destruct Ht as [a [<- Ha]]. apply in_app_or in Ha. destruct Ha as [Ha|Ha].
        -- destruct (user_asg_ok _ a Hua Ha) as [H1 [H2 H3]]. split; [split; assumption|]. cbn [t_kind t_asg]. unfold masg_ok. rewrite H3. exact H2.
        -- destruct (wk_msg_ok m a Hst Ha) as [H1 H2]. split; [split; assumption|exact H2].
      * apply in_flat_map in Ht. destruct Ht as [s [Hs Ht]]. rewrite Forall_forall in Hsg. destruct (Hsg s Hs) as [Hus [Hcan Hss]].
        unfold T_sig in Ht. apply in_map_iff in Ht. destruct Ht as [a [<- Ha]]. apply in_app_or in Ha. destruct Ha as [Ha|Ha].
        -- destruct (user_asg_ok _ a Hus Ha) as [H1 [H2 H3]]. split; [split; assumption|]. cbn [t_kind t_asg]. unfold sasg_ok. rewrite H3. exact H2.
        -- destruct (wk_sig_ok s a Hcan Hss Ha) as [H1 H2]. split; [split; assumption|exact H2].
Qed.

(* ---------------- the stripped bus exports the same structure ---------------- *)
Lemma dmsg_e_strip : forall es m, dmsg_e es (strip_msg m) = dmsg_e es m.
Proof.
  intros es m. unfold dmsg_e. cbn [m_canid m_name m_size m_sender m_order m_signals strip_msg]. f_equal.
  replace (recs_out (strip_msg m)) with (recs_out m) by reflexivity. rewrite map_map. apply map_ext. intros s. reflexivity.
Qed.
Lemma msg_cms_strip : forall m, msg_cms (strip_msg m) = msg_cms m.
Proof.
  intros m. unfold msg_cms. cbn [m_desc m_canid m_signals strip_msg]. f_equal.
  induction (m_signals m) as [|s r IH]; [reflexivity|]. cbn [map flat_map]. rewrite IH. reflexivity.
Qed.
Lemma msg_vencs_strip : forall es m, msg_vencs es (strip_msg m) = msg_vencs es m.
Proof.
  intros es m. unfold msg_vencs. cbn [m_canid m_signals strip_msg].
  induction (m_signals m) as [|s r IH]; [reflexivity|]. cbn [map flat_map]. rewrite IH. reflexivity.
Qed.
Lemma filter_strip : forall (p : string) l,
  filter (fun m => String.eqb (m_sender m) p) (map strip_msg l) = map strip_msg (filter (fun m => String.eqb (m_sender m) p) l).
Proof.
  intros p l. induction l as [|m r IH]; [reflexivity|]. cbn [map filter]. cbn [m_sender strip_msg].
  destruct (String.eqb (m_sender m) p); cbn [map]; rewrite IH; reflexivity.
Qed.
Lemma flat_map_strip : forall {B} (f : message -> list B) l, (forall m, f (strip_msg m) = f m) ->
  flat_map f (map strip_msg l) = flat_map f l.
Proof. intros B f l H. induction l as [|m r IH]; [reflexivity|]. cbn [map flat_map]. rewrite H, IH. reflexivity. Qed.
Lemma doc_cms_strip : forall b, doc_cms (strip_bus b) = doc_cms b.
Proof.
  intros b. unfold doc_cms. cbn [b_desc b_nodes strip_bus]. f_equal.
  induction (b_nodes b) as [|n r IH]; [reflexivity|]. cbn [map flat_map]. rewrite IH. f_equal.
  unfold node_cms. cbn [n_desc n_name strip_node b_messages strip_bus]. f_equal.
  rewrite filter_strip. apply flat_map_strip. apply msg_cms_strip.
Qed.
Lemma bus_vencs_strip : forall b, bus_vencs (strip_bus b) = bus_vencs b.
Proof. intros b. unfold bus_vencs. cbn [b_enums b_messages strip_bus]. apply flat_map_strip. apply msg_vencs_strip. Qed.

(* ---------------- from the structural relation to the zipper relation ---------------- *)
Lemma Rsig_id : forall es st id s s', Rsig es st id s s' -> s_id s' = id /\ s_attrs s' = [] /\ s_startval s' = fl_zero /\ s_sendtype s' = 0.
Proof.
  intros es st id s s' H. unfold Rsig in H. destruct (s_kind s); [subst; cbn; auto| |]; destruct H as [ei [-> _]]; cbn; auto.
Qed.

Lemma sigs_rel : forall es st (sm : list (key * (nat * Z))) msgid (p : nat) l i l',
  Forall2 (fun q s' => Rsig es st (fst q) (snd q) s') (index_from i l) l' ->
  (forall j s, In (j, s) (index_from i l) -> lookup key_eqb (msgid, clear (s_name s)) sm = Some (p, j)) ->
  Forall2 (fun s s' => lookup key_eqb (msgid, clear (s_name s)) sm = Some (p, s_id s')) l l' /\
  map s_id l' = map fst (index_from i l).
Proof.
  intros es st sm msgid p l. induction l as [|s r IH]; intros i l' HF Hl; cbn [index_from] in *; inversion HF; subst.
  - split; constructor.
  - cbn [fst snd] in *. destruct (Rsig_id _ _ _ _ _ H1) as [Hid _].
    destruct (IH (i + 1) _ H3) as [F1 F2]; [intros j x Hx; apply Hl; right; assumption|].
    split; [constructor; [rewrite Hid; apply Hl; left; reflexivity|assumption]|cbn [map fst]; rewrite Hid, F2; reflexivity].
Qed.

Lemma index_from_fst_nodup : forall {A} (l : list A) i, NoDup (map fst (index_from i l)).
Proof.
  intros A l. induction l as [|x r IH]; intros i; cbn [index_from map]; [constructor|]. constructor; [|apply IH].
  intros Hin. apply in_map_iff in Hin. destruct Hin as [[j y0] [Hj Hin]]. cbn [fst] in Hj. subst j.
  clear - Hin. assert (H : forall (l : list A) k j w, In (j, w) (index_from k l) -> k <= j).
  { induction l as [|z q IHl]; intros k j w H; [destruct H|]. cbn [index_from] in H. destruct H as [H|H]; [inversion H; lia|]. apply IHl in H. lia. }
  apply H in Hin. lia.
Qed.

Lemma Forall2_map_l : forall {A B C} (R : B -> C -> Prop) (f : A -> B) l l', Forall2 R (map f l) l' -> Forall2 (fun x y => R (f x) y) l l'.
Proof. intros A B C R f l. induction l as [|x r IH]; intros l' H; cbn [map] in H; inversion H; subst; constructor; auto. Qed.

Lemma build_msgs_rel : forall es st (sm : list (key * (nat * Z))) l l' (p : nat),
  Forall2 (Rmsg es st) (map strip_msg l) l' ->
  Forall (fun m => 0 <= m_canid m < 2 ^ 32) l ->
  (forall q m, nth_error (map strip_msg l) q = Some m -> forall j s, In (j, s) (index_from 0 (m_signals m)) ->
     lookup key_eqb (u32 (m_canid m), clear (s_name s)) sm = Some ((p + q)%nat, j)) ->
  msgs_rel sm p l l'.
Proof.
  intros es st sm l. induction l as [|m r IH]; intros l' p HF Hid Hl; cbn [map] in HF; inversion HF; subst; [exact I|].
  inversion Hid as [|? ? Hm Hr]; subst. cbn [msgs_rel]. destruct H1 as [sigs' [-> HR]]. cbn [m_canid m_signals strip_msg] in *.
  assert (Hs := sigs_rel es st sm (u32 (m_canid m)) p (map strip_sig (m_signals m)) 0 sigs' HR).
  destruct Hs as [S1 S2].
  { intros j s Hjs. specialize (Hl O (strip_msg m) eq_refl j s Hjs). rewrite Nat.add_0_r in Hl. exact Hl. }
  split; [rewrite u32_id by assumption; reflexivity|]. split; [rewrite S2; apply index_from_fst_nodup|]. split.
  - apply Forall2_map_l in S1. exact S1.
  - apply IH; [assumption|assumption|]. intros q x Hq j s Hjs. specialize (Hl (S q) x Hq j s Hjs).
    replace (S p + q)%nat with (p + S q)%nat by lia. exact Hl.
Qed.

(* ---------------- projections ---------------- *)
Lemma proj_signal_a : forall es st X Y id s s',
  esig_ok es (strip_sig s) -> enum_wf (e_of es s) -> Rsig es st id (strip_sig s) s' -> user_asgs_ok (s_attrs s) ->
  proj_signal (is_enums st) X (set_s_special (set_s_attrs s' (map img (sort_attrs (s_attrs s)))) (s_startval s) (s_sendtype s))
  = proj_signal es Y s.
Proof.
  intros es st X Y id s s' [Hp [Hg [_ [_ [_ [_ Hk]]]]]] Hwf HR [Hnd _]. cbn [s_parent s_groups s_kind strip_sig] in Hp, Hg, Hk.
  unfold Rsig in HR. cbn [s_kind strip_sig] in HR.
  destruct (s_kind s) eqn:Ek; [| |destruct Hk].
  - subst s'. unfold proj_signal, membership, sig_size.
    rewrite !abs_start_top by (try assumption; reflexivity).
    cbn [s_kind s_name s_rel s_parent s_groups s_size s_signed s_scale s_offset s_min s_max s_unit s_desc
         s_startval s_sendtype s_attrs isig_of strip_sig set_s_special set_s_attrs].
    rewrite Ek, Hp, clear_spaces_idem, (proj_attrs_img _ Hnd). reflexivity.
  - destruct HR as [ei [-> [_ [Hvals Hsize]]]]. unfold proj_signal, membership, sig_size.
    rewrite !abs_start_top by (try assumption; reflexivity).
    cbn [s_kind s_name s_rel s_parent s_groups s_size s_signed s_scale s_offset s_min s_max s_unit s_desc
         s_startval s_sendtype s_attrs s_enum esig_img strip_sig set_s_special set_s_attrs].
    change (e_of es (strip_sig s)) with (e_of es s) in Hvals, Hsize.
    rewrite Ek, Hp, clear_spaces_idem, Hvals, Hsize, (evals_id _ Hwf), (proj_attrs_img _ Hnd). reflexivity.
Qed.

Lemma zipf_map_eq : forall {A B C} (R : A -> B -> Prop) (f : A -> B -> B) (g : B -> C) (h : A -> C) l l',
  Forall2 R l l' -> (forall x y, In x l -> R x y -> g (f x y) = h x) -> map g (zipf f l l') = map h l.
Proof.
  intros A B C R f g h l l' H. induction H; intros Hf; [reflexivity|]. cbn [zipf map]. f_equal.
  - apply Hf; [left; reflexivity|assumption].
  - apply IHForall2. intros a b Ha. apply Hf. right. assumption.
Qed.

Lemma recs_in_strip : forall m, recs_in (strip_msg m) = recs_in m.
Proof. intros m. unfold recs_in. cbn [m_signals m_receivers strip_msg]. destruct (m_signals m); reflexivity. Qed.

Lemma proj_message_a : forall names es st m m',
  emessage es names (strip_msg m) -> (forall s, enum_wf (e_of es s)) -> Rmsg es st (strip_msg m) m' ->
  user_asgs_ok (m_attrs m) -> 0 <= m_sendtype m < 5 ->
  Forall (fun s => user_asgs_ok (s_attrs s) /\ fl_canonical (s_startval s) /\ 0 <= s_sendtype s < 8) (m_signals m) ->
  proj_message (is_enums st) (fin_msg m m') = proj_message es m.
Proof.
  intros names es st m m' Hem Hwf [sigs' [-> HR]] Hu Hst Hsg.
  pose proof Hem as [_ [_ [_ [_ [_ [_ [_ [Hps [_ [_ [_ [Hrc [_ Hre]]]]]]]]]]]]].
  cbn [m_canid m_name m_size m_order m_sender m_receivers m_desc m_signals strip_msg] in *.
  unfold fin_msg. rewrite fin_matt_eval; try assumption; try reflexivity.
  cbn [m_signals]. unfold proj_message.
  cbn [m_canid m_name m_size m_order m_cycle m_delay m_startdelay m_sendtype m_sender m_receivers m_desc m_attrs m_signals
       set_m_signals set_m_times set_m_attrs].
  rewrite !clear_spaces_idem, recs_in_strip, (proj_attrs_img _ (proj1 Hu)).
  assert (HR' : Forall2 (fun s s' => exists id, Rsig es st id (strip_sig s) s') (m_signals m) sigs').
  { clear - HR. revert HR. generalize 0. generalize sigs'. generalize (m_signals m). induction l as [|s r IH]; intros l' i H; cbn [map index_from] in H.
    - inversion H. constructor.
    - inversion H; subst. constructor; [eexists; eassumption|]. eapply IH. eassumption. }
  assert (Hlen : zipf fin_sig (m_signals m) sigs' = [] <-> m_signals m = []).
  { inversion HR'; subst; cbn [zipf]; split; intros; try reflexivity; try discriminate. }
  assert (Hord : match zipf fin_sig (m_signals m) sigs' with
                 | [] => LittleEndian
                 | _ :: _ => match map strip_sig (m_signals m) with [] => LittleEndian | _ :: _ => m_order m end
                 end = match m_signals m with [] => LittleEndian | _ :: _ => m_order m end).
  { destruct (m_signals m) eqn:Es; [rewrite (proj2 Hlen eq_refl); reflexivity|].
    destruct (zipf fin_sig (s :: l) sigs') eqn:Ez; [|reflexivity]. exfalso. destruct Hlen as [Hl1 _]. discriminate (Hl1 eq_refl). }
  rewrite Hord.
  assert (Hrecs : sort_by str_ltb (map clear (recs_in m)) = sort_by str_ltb (map clear (m_receivers m))).
  { unfold recs_in. destruct (m_signals m) eqn:Es.
    - rewrite (Hre eq_refl). reflexivity.
    - rewrite map_map. rewrite (map_ext (fun x => clear (clear x)) clear) by (intros; apply clear_spaces_idem).
      apply sort_str_perm_eq. apply Permutation_map. apply Permutation_sym. apply sort_by_perm. }
  rewrite Hrecs.
  assert (Hsigs : map (proj_signal (is_enums st) (zipf fin_sig (m_signals m) sigs')) (zipf fin_sig (m_signals m) sigs')
                  = map (proj_signal es (m_signals m)) (m_signals m)).
  { eapply (zipf_map_eq (fun s s' => exists id, Rsig es st id (strip_sig s) s')); [exact HR'|].
    intros s s' Hs [id HRs]. rewrite Forall_forall in Hsg. destruct (Hsg s Hs) as [Hus [Hcan Hss]].
    destruct (Rsig_id _ _ _ _ _ HRs) as [_ [A1 [A2 A3]]].
    rewrite fin_sig_eval by assumption. eapply proj_signal_a; eauto.
    apply Forall_strip in Hps. rewrite Forall_forall in Hps. apply Hps. assumption. }
  rewrite Hsigs. reflexivity.
Qed.

(* ---------------- the theorem ---------------- *)
Lemma app_msg_sender : forall a m, m_sender (app_msg a m) = m_sender m.
Proof. intros a m. unfold app_msg. destruct (special_of _) as [[]|]; try destruct (aa_val a); reflexivity. Qed.
Lemma fin_msg_sender : forall m m', m_sender (fin_msg m m') = m_sender m'.
Proof.
  intros m m'. unfold fin_msg. cbn [m_sender set_m_signals]. unfold fin_matt.
  generalize (sort_attrs (m_attrs m) ++ wk_msg m). intros l. revert m'.
  induction l as [|a r IH]; intros m'; cbn [fold_left]; [reflexivity|]. rewrite IH. apply app_msg_sender.
Qed.

Lemma mk_nodes_strip_rel : forall l i,
  Forall2 (fun n n' => n_name n' = clear (n_name n)) l (mk_nodes i (map strip_node l)).
Proof. induction l as [|n r IH]; intros i; cbn [map mk_nodes]; constructor; [reflexivity|apply IH]. Qed.

Lemma proj_nodes_fin : forall l i, Forall (fun n => user_asgs_ok (n_attrs n)) l ->
  map proj_node (zipf fin_node l (mk_nodes i (map strip_node l))) = map proj_node l.
Proof.
  induction l as [|n r IH]; intros i H; cbn [map mk_nodes zipf]; [reflexivity|]. inversion H as [|? ? Hn Hr]; subst.
  rewrite IH by assumption. f_equal. rewrite fin_node_eval by (try assumption; reflexivity).
  unfold proj_node. cbn [n_name n_desc n_attrs strip_node]. rewrite clear_spaces_idem, (proj_attrs_img _ (proj1 Hn)). reflexivity.
Qed.

Lemma imported_msgs_facts : forall es st l l', Forall2 (Rmsg es st) (map strip_msg l) l' ->
  map m_canid l' = map m_canid l /\
  forall x, In x (zipf fin_msg l l') -> exists m, In m l /\ m_sender x = clear (m_sender m).
Proof.
  intros es st l. induction l as [|m r IH]; intros l' H; cbn [map] in H; inversion H; subst.
  - split; [reflexivity|intros x []].
  - destruct (IH _ H4) as [I1 I2]. destruct H2 as [sg [-> _]]. split.
    + cbn [map m_canid strip_msg]. rewrite I1. reflexivity.
    + intros x Hx. cbn [zipf] in Hx. destruct Hx as [<-|Hx].
      * exists m. split; [left; reflexivity|]. rewrite fin_msg_sender. reflexivity.
      * destruct (I2 x Hx) as [m1 [Hm1 Hs1]]. exists m1. split; [right; assumption|assumption].
Qed.

Lemma NoDup_snoc : forall {A} (l : list A) x, NoDup l -> ~ In x l -> NoDup (l ++ [x]).
Proof.
  intros A l x H Hn. induction H; cbn; [constructor; [intros []|constructor]|].
  constructor.
  - intros Hin. apply in_app_or in Hin. destruct Hin as [Hin|[Hin|[]]]; [contradiction|]. subst. apply Hn. left. reflexivity.
  - apply IHNoDup. intros Hin. apply Hn. right. assumption.
Qed.

Definition attr_result (b : bus) (es' : list enum_def) (msgs' : list message) : bus :=
  mkbus (b_name b) (b_desc b) (map img (sort_attrs (b_attrs b)))
        (zipf fin_node (b_nodes b) (mk_nodes 0 (map strip_node (b_nodes b)))) es' (zipf fin_msg (b_messages b) msgs').

Theorem export_import_attr_thm : forall b, abus b ->
  exists b', export_import b = Ok b' /\ proj_bus b' = proj_bus b.
Proof.
  intros b Hab. pose proof Hab as [Hg [Hsb [HT [Hub [Hun Hum]]]]].
  destruct (export_g b Hg Hsb) as [L HE].
  set (d := text_roundtrip (adoc b L)).
  assert (D2 : d_nodes d = map (fun n => clear (n_name n)) (b_nodes (strip_bus b))).
  { cbn. rewrite map_map. reflexivity. }
  assert (D4 : d_messages d = map (dmsg_e (b_enums (strip_bus b))) (b_messages (strip_bus b))).
  { cbn. rewrite map_map. apply map_ext. intros m. symmetry. apply dmsg_e_strip. }
  assert (D5 : d_comments d = doc_cms (strip_bus b)) by (symmetry; apply doc_cms_strip).
  assert (D6 : d_valencs d = bus_vencs (strip_bus b)) by (symmetry; apply bus_vencs_strip).
  destruct (import_struct (strip_bus b) L d Hsb eq_refl D2 eq_refl D4 D5 D6 eq_refl) as [st' [msgs' [HI [HF HL]]]].
  cbn [b_name b_desc b_nodes b_messages b_enums strip_bus] in HI, HF, HL.
  destruct (attrs_map_ok (T_bus b) HT) as [amap [Hfold Hlk]]. cbv zeta in Hfold.
  pose proof (all_t_ok b amap Hab Hlk) as Hok.
  destruct Hsb as [_ [_ [Hnn [Hdm [_ [Hms [Hcan [_ [_ Hes]]]]]]]]].
  cbn [b_nodes b_messages b_enums strip_bus] in Hnn, Hdm, Hms, Hcan, Hes.
  rewrite map_map in Hnn, Hdm, Hcan. cbn [n_name strip_node m_canid strip_msg] in Hnn, Hdm, Hcan.
  pose proof (strip_msgs_ok _ _ _ Hms) as Hms'.
  destruct (imported_msgs_facts _ _ _ _ HF) as [Hcan' Hsend].
  assert (Hrel : msgs_rel (is_sigmap st') 0 (b_messages b) msgs').
  { eapply build_msgs_rel; [exact HF| |].
    - apply Forall_forall. intros m Hm. rewrite Forall_forall in Hms'.
      destruct (Hms' m Hm) as [_ [_ [_ [_ [_ [Hid _]]]]]]. exact Hid.
    - intros q m Hq j s Hjs. rewrite (HL q m Hq j s Hjs). reflexivity. }
  exists (attr_result b (is_enums st') msgs'). split.
  - unfold export_import. rewrite HE. fold d. rewrite HI. rewrite import_attributes_unfold.
    change (d_attrdefs d) with (map reparse_def (ea_attrdefs (A_of b))). change (d_attrs d) with (ea_attrs (A_of b)).
    unfold A_of at 1 2. rewrite Hfold. cbn [bind].
    assert (Hvals : d_attrvals d = avs (T_bus b)).
    { change (d_attrvals d) with (map reparse_val (ea_attrvals (A_of b))). unfold A_of. rewrite fold_exp_vals. reflexivity. }
    rewrite Hvals. unfold T_bus. rewrite avs_app, fold_left_app.
    rewrite fold_gen.
    2:{ intros a Ha. assert (Ht : t_ok amap (mktasg OGeneral EmptyString 0 EmptyString a)).
        { apply Hok. unfold T_bus. apply in_or_app. left. apply in_map. assumption. }
        destruct Ht as [H1 H2]. split; assumption. }
    cbn [b_attrs].
    rewrite (fold_T_nodes amap (is_sigmap st') b (b_nodes b) (mk_nodes 0 (map strip_node (b_nodes b))) _ []
               [mknode dummy_node 1024 EmptyString []] [] msgs' []).
    + cbn [app bind]. rewrite app_nil_r. unfold finish.
      cbn [b_messages b_nodes set_b_messages set_b_nodes set_b_attrs].
      unfold grouped in Hg. rewrite Hg.
      assert (Hnos : existsb (fun m => String.eqb (m_sender m) dummy_node) (zipf fin_msg (b_messages b) msgs') = false).
      { destruct (existsb _ _) eqn:E; [|reflexivity]. exfalso.
        apply existsb_exists in E. destruct E as [x [Hx He]]. apply String.eqb_eq in He.
        destruct (Hsend x Hx) as [m [Hm Hs]]. rewrite Forall_forall in Hms'.
        destruct (Hms' m Hm) as [_ [_ [_ [_ [_ [_ [_ [_ [_ [_ [Hsn _]]]]]]]]]]]. cbn [m_sender strip_msg] in Hsn.
        rewrite map_map in Hsn. cbn [n_name strip_node] in Hsn. apply in_map_iff in Hsn. destruct Hsn as [n [Hn1 Hn2]].
        apply Hdm. apply in_map_iff. exists n. split; [|assumption]. rewrite Hn1, <- Hs. assumption. }
      rewrite Hnos. rewrite filter_app. cbn [filter String.eqb negb]. rewrite app_nil_r.
      rewrite filter_all.
      2:{ intros x Hx. assert (Hin : In (n_name x) (map n_name (zipf fin_node (b_nodes b) (mk_nodes 0 (map strip_node (b_nodes b))))))
            by (apply in_map; assumption).
          rewrite zipf_names, mk_nodes_names, map_map in Hin. cbn [n_name strip_node] in Hin.
          destruct (String.eqb (n_name x) dummy_node) eqn:E; [|reflexivity]. apply String.eqb_eq in E. rewrite E in Hin. contradiction. }
      unfold attr_result, set_b_nodes. cbn [b_name b_desc b_attrs b_enums b_messages].
      rewrite fold_app_attrs by (cbn [map app]; apply (proj1 (user_sorted _ Hub))). reflexivity.
    + intros t Ht. apply Hok. unfold T_bus. apply in_or_app. right. assumption.
    + reflexivity.
    + apply mk_nodes_strip_rel.
    + cbn [app]. rewrite map_app, mk_nodes_names, map_map. cbn [map n_name strip_node]. apply NoDup_snoc; assumption.
    + intros n Hn Heq. apply Hdm. rewrite <- Heq. apply (in_map (fun n => clear (n_name n))). assumption.
    + cbn [app b_messages set_b_attrs]. rewrite app_nil_r. reflexivity.
    + cbn [app]. rewrite app_nil_r, Hcan'. assumption.
    + cbn [length]. unfold grouped in Hg. rewrite Hg. exact Hrel.
  - unfold proj_bus, attr_result. cbn [b_desc b_attrs b_nodes b_enums b_messages]. f_equal.
    + apply proj_attrs_img. apply (proj1 Hub).
    + apply proj_nodes_fin. assumption.
    + f_equal. apply Forall2_map_l in HF.
      eapply (zipf_map_eq (fun m m' => Rmsg (b_enums b) st' (strip_msg m) m')); [exact HF|].
      intros m m' Hm HR. rewrite Forall_forall in Hms', Hum. destruct (Hum m Hm) as [U1 [U2 U3]].
      eapply proj_message_a; eauto. intros s. apply enum_wf_nth. assumption.
Qed.

(* ------------------------------------------------------------------------------------------
   the hypothesis is satisfiable: attributes of the four types (and hex) on the bus, a node, a message and
   two signals (one float value written as an integer literal by the exporter), an enum signal, the six
   dedicated fields
   ------------------------------------------------------------------------------------------ *)
Local Open Scope string_scope.
Definition a_flt (v : fl) : attr_asg := mkasg "Sig Flt" (DefFloat fl_zero fl_zero (mkfl 5 1)) (ValFloat v).
Definition example_attr_bus : bus :=
  mkbus "bus" "attrs" [mkasg "BusStr" (DefString "d") (ValString "x")]
    [mknode "ECU 1" 3 "" []; mknode "GW" 7 "the gateway" [mkasg "NInt" (DefInt 1 0 10 false) (ValInt 5)]]
    [ mkenum "on off" [(1, "on"); (0, "off")] 1 0 ]
    [ mkmessage 256 "status" 3 BigEndian 100 0 7 2 "ECU 1" ["GW"] "" 
        [mkasg "MHex" (DefInt 0 0 255 true) (ValInt 16); mkasg "MEnum" (DefEnum "a" ["a"; "b"]) (ValString "b")]
        [ mksignal 0 "a" KEnum 0 None [] 0 false fl_one fl_zero fl_zero fl_zero "" 0 0 0 "first" fl_zero 3 [a_flt (mkfl 1 1)];
          mksignal 1 "speed" KStandard 5 None [] 10 true (mkfl 1 (-1)) fl_zero fl_zero (mkfl 1023 (-1)) "km/h" 0 0 0 "" (mkfl 3 0) 0
                   [a_flt (mkfl 5 (-1))] ];
      mkmessage 512 "other" 1 LittleEndian 0 20 0 0 "GW" [] "second" [] [] ].

Ltac asgs_tac :=
  unfold user_asgs_ok; split; [e_nodup|];
  repeat (apply Forall_cons; [split; [unfold wf_asg; cbn; repeat split; try lia; try reflexivity; try (left; split; reflexivity); try (right; reflexivity);
                                      try (repeat constructor; cbn; intuition discriminate); try (eexists; reflexivity)|reflexivity]|]);
  try apply Forall_nil.

Example example_attr_bus_ok : abus example_attr_bus.
Proof.
  unfold abus. split; [reflexivity|]. split.
  { unfold ebus, strip_bus, example_attr_bus. cbn [b_desc b_attrs b_nodes b_messages b_enums map n_name n_desc n_attrs length strip_node strip_msg strip_sig].
    split; [reflexivity|]. split; [repeat constructor|]. split; [e_nodup|]. split; [vm_compute; intuition discriminate|].
    split; [cbn; lia|]. split.
    { constructor; [|constructor; [|constructor]];
        unfold emessage;
        cbn [m_desc m_attrs m_cycle m_delay m_startdelay m_sendtype m_canid m_size m_signals m_sender m_receivers];
        repeat split; try reflexivity; e_fin. }
    split; [e_nodup|]. split; [e_nodup|]. split; [reflexivity|].
    repeat (apply Forall_cons;
      [unfold enum_wf; cbn [en_values en_maxindex en_minsize];
       split; [e_nodup|]; split; [e_nodup|];
       split; [intros v Hv; cbn in Hv; intuition (subst; cbn; lia)|]; split; cbn; lia|]).
    apply Forall_nil. }
  split.
  { unfold T_ok. let L := eval vm_compute in (T_bus example_attr_bus) in change (T_bus example_attr_bus) with L. split.
    - apply Forall_forall.
      repeat (apply Forall_cons;
        [unfold t_def; cbn [t_asg aa_def]; unfold wf_def, msg_cycle_att, msg_delay_att, msg_start_delay_att, msg_send_att, sig_start_att, sig_send_att;
         first [exact I
               | (split; [lia|intros Hh; first [discriminate Hh | (split; cbn; lia)]])
               | (split; [reflexivity|split; [reflexivity|first [left; split; reflexivity|right; reflexivity]]])
               | (split; [repeat constructor; cbn; intuition discriminate|eexists; reflexivity])]|]).
      apply Forall_nil.
    - match goal with |- forall t t', In t ?L -> _ =>
        assert (HH : Forall (fun t => Forall (fun t' => tname t = tname t' -> t_def t = t_def t') L) L) end.
      { repeat (apply Forall_cons; [repeat (apply Forall_cons; [intros Hh; first [reflexivity | (vm_compute in Hh; discriminate Hh)]|]); apply Forall_nil|]).
        apply Forall_nil. }
      intros t t' Ht Ht'. rewrite Forall_forall in HH. specialize (HH t Ht). rewrite Forall_forall in HH. apply HH; assumption. }
  split; [asgs_tac|]. split.
  { repeat (apply Forall_cons; [cbn [n_attrs]; asgs_tac|]). apply Forall_nil. }
  repeat (apply Forall_cons; [cbn [m_attrs m_sendtype m_signals]; split; [asgs_tac|]; split; [lia|];
     repeat (apply Forall_cons; [cbn [s_attrs s_startval s_sendtype]; split; [asgs_tac|]; split; [first [left; split; reflexivity|right; reflexivity]|lia]|]);
     try apply Forall_nil|]).
  apply Forall_nil.
Qed.

Example example_attr_bus_roundtrip :
  exists b', export_import example_attr_bus = Ok b' /\ proj_bus b' = proj_bus example_attr_bus /\
             map (fun m => (m_cycle m, m_delay m, m_startdelay m, m_sendtype m, map aa_name (m_attrs m),
                            map (fun s => (s_startval s, s_sendtype s, map aa_val (s_attrs s))) (m_signals m))) (b_messages b')
             = [ (100, 0, 7, 2, ["MEnum"; "MHex"], [(fl_zero, 3, [ValFloat (mkfl 1 1)]); (mkfl 3 0, 0, [ValFloat (mkfl 5 (-1))])]);
                 (0, 20, 0, 0, [], []) ].
Proof. eexists. split; [vm_compute; reflexivity|]. split; vm_compute; reflexivity. Qed.
