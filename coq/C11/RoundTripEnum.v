(* C11 — export followed by import on buses whose messages hold STANDARD and ENUM signals (top-level,
   no multiplexers, no attributes / timing / send types; descriptions free).  Generalises
   RoundTrip.v: the enum table of the imported bus is not the original one (value tables are matched
   by content, shared tables are cloned per size), so the result is characterised by a relation
   instead of an explicit bus; the canonical projections (enum VALUES and signal SIZE) coincide. *)
From Coq Require Import String Ascii ZArith List Bool Lia Permutation.
From Coq Require Import ZifyBool.
From Acme.C10 Require Import DbcDoc BusModel Import Export Bits.
From Acme.C10 Require Proofs ProofsEnum ProofsLayout ProofsFaithful.
From Acme.C11 Require Import Strings Proofs RoundTrip.
Import ListNotations.
Open Scope Z_scope.

(* ---------------- the fragment ---------------- *)
Definition enum_wf (e : enum_def) : Prop :=
  NoDup (map fst (en_values e)) /\ NoDup (map snd (en_values e)) /\
  (forall v, In v (en_values e) -> 0 <= fst v <= en_maxindex e) /\
  0 <= en_maxindex e < 2 ^ 32 /\ 0 <= en_minsize e < 2 ^ 32.

Definition e_of (es : list enum_def) (s : signal) : enum_def := nth_enum es (s_enum s).

Definition esig_ok (es : list enum_def) (s : signal) : Prop :=
  s_parent s = None /\ s_groups s = [] /\ s_startval s = fl_zero /\ s_sendtype s = 0 /\ s_attrs s = [] /\
  0 <= s_rel s /\
  match s_kind s with
  | KStandard => 0 < s_size s < 2 ^ 32
  | KEnum => True
  | KMux => False
  end.

Fixpoint layout_e (es : list enum_def) (from limit : Z) (l : list signal) : Prop :=
  match l with
  | [] => True
  | s :: r => from <= s_rel s /\ s_rel s + sig_size es s <= limit /\ layout_e es (s_rel s + sig_size es s) limit r
  end.

Definition emessage (es : list enum_def) (node_names : list string) (m : message) : Prop :=
  m_attrs m = [] /\ m_cycle m = 0 /\ m_delay m = 0 /\ m_startdelay m = 0 /\
  m_sendtype m = 0 /\ 0 <= m_canid m < 2 ^ 32 /\ 0 <= m_size m <= 8 /\
  Forall (esig_ok es) (m_signals m) /\ layout_e es 0 (m_size m * 8) (m_signals m) /\
  NoDup (map (fun s => clear (s_name s)) (m_signals m)) /\
  In (m_sender m) node_names /\ incl (m_receivers m) node_names /\
  NoDup (map clear (m_receivers m)) /\ (m_signals m = [] -> m_receivers m = []).

Definition ebus (b : bus) : Prop :=
  b_attrs b = [] /\
  Forall (fun n => n_attrs n = []) (b_nodes b) /\
  NoDup (map (fun n => clear (n_name n)) (b_nodes b)) /\
  ~ In dummy_node (map (fun n => clear (n_name n)) (b_nodes b)) /\
  (length (b_nodes b) <= 1024)%nat /\
  Forall (emessage (b_enums b) (map n_name (b_nodes b))) (b_messages b) /\
  NoDup (map m_canid (b_messages b)) /\
  NoDup (map (fun m => (clear (m_sender m), clear (m_name m))) (b_messages b)) /\
  flat_map (fun n => filter (fun m => String.eqb (m_sender m) (n_name n)) (b_messages b)) (b_nodes b) = b_messages b /\
  Forall enum_wf (b_enums b).

Lemma ebus_keyed : forall b, ebus b -> keyed_bus b.
Proof.
  intros b [_ [_ [Hnd [_ [_ [Hms [Hcan [_ [Hg _]]]]]]]]]. repeat split; try assumption;
    rewrite Forall_forall in Hms; destruct (Hms m H) as [_ [_ [_ [_ [_ [Hid [_ [_ [_ [Hnn _]]]]]]]]]]; solve [lia|assumption].
Qed.

Lemma enum_wf_dflt : enum_wf ProofsEnum.dflt_enum.
Proof. unfold enum_wf, ProofsEnum.dflt_enum. cbn. repeat split; try constructor; try lia; intros v []. Qed.
Lemma enum_wf_nth : forall es i, Forall enum_wf es -> enum_wf (nth_enum es i).
Proof.
  intros es i H. unfold nth_enum. destruct (Nat.lt_ge_cases (Z.to_nat i) (length es)) as [Hl|Hl].
  - rewrite Forall_forall in H. apply H. apply nth_In. assumption.
  - rewrite nth_overflow by assumption. apply enum_wf_dflt.
Qed.

Lemma calc_size_bounds : forall v, 1 <= calc_size_from_value v <= 64.
Proof.
  intros v. unfold calc_size_from_value. destruct (v =? 0) eqn:E0; [lia|]. destruct (v <? 0) eqn:E1; [lia|].
  destruct (v <? 2 ^ 63) eqn:E2; [|lia]. assert (Hv : 0 < v < 2 ^ 63) by lia.
  pose proof (Z.log2_nonneg v). assert (Z.log2 v < 63) by (apply Z.log2_lt_pow2; lia). lia.
Qed.
Lemma enum_size_pos : forall e, 1 <= enum_size e.
Proof. intros e. pose proof (ProofsEnum.enum_size_ge e). pose proof (calc_size_bounds (en_maxindex e)). lia. Qed.
Lemma enum_size_u32 : forall e, enum_wf e -> u32 (enum_size e) = enum_size e.
Proof.
  intros e [_ [_ [_ [_ Hm]]]]. apply u32_id. pose proof (enum_size_pos e). pose proof (calc_size_bounds (en_maxindex e)).
  unfold enum_size in *. destruct (en_minsize e >? _); lia.
Qed.

Lemma sig_size_pos : forall es s, esig_ok es s -> 0 < sig_size es s.
Proof.
  intros es s [_ [_ [_ [_ [_ [_ H]]]]]]. unfold sig_size. destruct (s_kind s); [lia| |destruct H].
  pose proof (enum_size_pos (nth_enum es (s_enum s))). lia.
Qed.

(* ---------------- what the exporter writes ---------------- *)
Definition evals (e : enum_def) : list (Z * string) := map (fun p => (u32 (fst p), snd p)) (sorted_enum_values e).

Definition dsig_e (es : list enum_def) (order : byte_order) (recs : list string) (s : signal) : dsignal :=
  match s_kind s with
  | KStandard => dsig_of order recs s
  | _ => mkdsignal (clear (s_name s)) false false 0 (u32 (enum_size (e_of es s))) (dbc_start_bit (s_rel s) order) order false
                   fl_one fl_zero fl_zero (fl_of_Z (en_maxindex (e_of es s))) EmptyString recs
  end.
Definition venc_e (es : list enum_def) (msgid : Z) (s : signal) : list dvalenc :=
  match s_kind s with
  | KEnum => [mkdvalenc true msgid (clear (s_name s)) (evals (e_of es s))]
  | _ => []
  end.
Definition enums_step (L : list Z) (s : signal) : list Z :=
  match s_kind s with
  | KEnum => if mem_z (s_enum s) L then L else L ++ [s_enum s]
  | _ => L
  end.

Definition cacc (cms : list dcomment) (vs : list dvalenc) (msgs : list dmessage) (sigs : list dsignal) (L : list Z) : eacc :=
  mkeacc cms [] [] [] vs [] msgs sigs [] L.

Lemma export_signal_e : forall es sigs order msgid recs many fuel s cms vs msgs sg L,
  esig_ok es s ->
  export_signal es sigs order msgid recs many fuel s (cacc cms vs msgs sg L)
  = cacc (cms ++ sig_cms msgid s) (vs ++ venc_e es msgid s) msgs (sg ++ [dsig_e es order recs s]) (enums_step L s).
Proof.
  intros es sigs order msgid recs many fuel s cms vs msgs sg L [Hp [Hg [Hv [Ht [Ha [_ Hk]]]]]].
  unfold sig_cms, opt_cm, venc_e, dsig_e, enums_step, e_of.
  destruct fuel; cbn [export_signal]; rewrite Ha, Hv, Ht, Hp; cbn;
    rewrite abs_start_top by assumption; destruct (String.eqb (s_desc s) EmptyString);
    destruct (s_kind s); try (destruct Hk; fail); cbn;
    unfold cacc, add_sig, add_comment, add_valenc, dsig_of, evals; cbn; rewrite ?app_nil_r; reflexivity.
Qed.

Lemma export_signals_e : forall es sigs order msgid recs many fuel l cms vs msgs sg L,
  Forall (esig_ok es) l ->
  fold_left (fun a s => export_signal es sigs order msgid recs many fuel s a) l (cacc cms vs msgs sg L)
  = cacc (cms ++ flat_map (sig_cms msgid) l) (vs ++ flat_map (venc_e es msgid) l) msgs
         (sg ++ map (dsig_e es order recs) l) (fold_left enums_step l L).
Proof.
  intros es sigs order msgid recs many fuel l. induction l as [|s r IH]; intros cms vs msgs sg L H; cbn [fold_left map flat_map].
  - rewrite !app_nil_r. reflexivity.
  - inversion H; subst. rewrite export_signal_e by assumption. rewrite IH by assumption.
    rewrite <- !app_assoc. reflexivity.
Qed.

Lemma layout_e_ascending : forall es l from limit, Forall (esig_ok es) l -> layout_e es from limit l -> ascending_by s_rel l.
Proof.
  induction l as [|s r IH]; intros from limit Hp H; [exact I|].
  cbn in H. destruct H as [H1 [H2 H3]]. inversion Hp as [|? ? Hps Hpr]; subst. split; [|eapply IH; eauto].
  destruct r as [|y q]; [exact I|]. cbn in H3. destruct H3 as [H3 _].
  pose proof (sig_size_pos es s Hps). lia.
Qed.

Definition recs_out_e := recs_out.
Definition dmsg_e (es : list enum_def) (m : message) : dmessage :=
  mkdmessage (u32 (m_canid m)) (clear (m_name m)) (u32 (m_size m)) (clear (m_sender m))
             (map (dsig_e es (m_order m) (recs_out m)) (m_signals m)).
Definition msg_vencs (es : list enum_def) (m : message) : list dvalenc :=
  flat_map (venc_e es (u32 (m_canid m))) (m_signals m).

Lemma export_message_e : forall names es m cms vs msgs sigs L,
  emessage es names m ->
  export_message es m (cacc cms vs msgs sigs L)
  = cacc (cms ++ msg_cms m) (vs ++ msg_vencs es m) (msgs ++ [dmsg_e es m]) [] (fold_left enums_step (m_signals m) L).
Proof.
  intros names es m cms vs msgs sigs L [Ha [Hc [Hdl [Hsd [Hst [Hid [Hsz [Hps [Hlay _]]]]]]]]].
  unfold export_message. rewrite Ha, Hc, Hdl, Hsd, Hst. cbn [Z.eqb app sort_attrs sort_by fold_right fold_left].
  assert (Htop : filter (fun s => match s_parent s with None => true | Some _ => false end) (m_signals m) = m_signals m).
  { apply filter_all. intros s Hs. rewrite Forall_forall in Hps. destruct (Hps s Hs) as [Hp _]. rewrite Hp. reflexivity. }
  rewrite Htop. rewrite (sort_by_ascending s_rel) by (eapply layout_e_ascending; eauto).
  assert (Hmany : Nat.ltb 1 (length (filter (fun s => match s_kind s with KMux => true | _ => false end) (m_signals m))) = false).
  { rewrite (Proofs.filter_nil); [reflexivity|]. intros s Hs. rewrite Forall_forall in Hps.
    destruct (Hps s Hs) as [_ [_ [_ [_ [_ [_ Hk]]]]]]. destruct (s_kind s); try reflexivity. destruct Hk. }
  rewrite Hmany.
  assert (Hacc : set_sigs [] (if String.eqb (m_desc m) EmptyString then cacc cms vs msgs sigs L
                    else add_comment (mkdcomment OMessage (m_desc m) EmptyString (u32 (m_canid m)) EmptyString) (cacc cms vs msgs sigs L))
                 = cacc (cms ++ opt_cm (m_desc m) (mkdcomment OMessage (m_desc m) EmptyString (u32 (m_canid m)) EmptyString)) vs msgs [] L).
  { unfold opt_cm. destruct (String.eqb (m_desc m) EmptyString); [rewrite app_nil_r|]; reflexivity. }
  rewrite Hacc. rewrite export_signals_e by assumption.
  unfold msg_cms, msg_vencs, dmsg_e, cacc, add_message. cbn. rewrite <- ?app_assoc. reflexivity.
Qed.

Definition msgs_enums (l : list message) (L : list Z) : list Z :=
  fold_left (fun L m => fold_left enums_step (m_signals m) L) l L.

Lemma export_messages_e : forall names es l cms vs msgs L,
  Forall (emessage es names) l ->
  fold_left (fun a m => export_message es m a) l (cacc cms vs msgs [] L)
  = cacc (cms ++ flat_map msg_cms l) (vs ++ flat_map (msg_vencs es) l) (msgs ++ map (dmsg_e es) l) [] (msgs_enums l L).
Proof.
  intros names es l. induction l as [|m r IH]; intros cms vs msgs L H; cbn [fold_left map flat_map msgs_enums].
  - rewrite !app_nil_r. reflexivity.
  - inversion H; subst. rewrite (export_message_e names) by assumption. rewrite IH by assumption.
    rewrite <- !app_assoc. reflexivity.
Qed.

Definition table_of (es : list enum_def) (i : Z) : dvaltable :=
  mkdvaltable (clear (en_name (nth_enum es i))) (evals (nth_enum es i)).
Definition bus_vencs (b : bus) : list dvalenc := flat_map (msg_vencs (b_enums b)) (b_messages b).
Definition edoc (b : bus) (L : list Z) : doc :=
  mkdoc (b_name b) (map (fun n => clear (n_name n)) (b_nodes b)) (map (table_of (b_enums b)) L)
        (map (dmsg_e (b_enums b)) (b_messages b)) (doc_cms b) [] [] [] (bus_vencs b) [].

Lemma export_e : forall b, ebus b -> exists L, export b = edoc b L.
Proof.
  intros b [Ha [Hn [_ [_ [_ [Hm [_ [_ [Hg _]]]]]]]]].
  unfold export. rewrite Ha. cbn [sort_attrs sort_by fold_right fold_left].
  assert (Hnodes : forall nodes cms0 vs0 msgs0 L0,
    Forall (fun n => n_attrs n = []) nodes ->
    exists L1,
    fold_left (fun a n =>
        let name := clear (n_name n) in
        let a := if String.eqb (n_desc n) EmptyString then a
                 else add_comment (mkdcomment ONode (n_desc n) name 0 EmptyString) a in
        let a := fold_left (fun a x => export_assignment ONode name 0 EmptyString x a) (sort_attrs (n_attrs n)) a in
        fold_left (fun a m => export_message (b_enums b) m a)
                  (filter (fun m => String.eqb (m_sender m) (n_name n)) (b_messages b)) a)
      nodes (cacc cms0 vs0 msgs0 [] L0)
    = cacc (cms0 ++ flat_map (node_cms b) nodes)
           (vs0 ++ flat_map (msg_vencs (b_enums b)) (flat_map (fun n => filter (fun m => String.eqb (m_sender m) (n_name n)) (b_messages b)) nodes))
           (msgs0 ++ map (dmsg_e (b_enums b)) (flat_map (fun n => filter (fun m => String.eqb (m_sender m) (n_name n)) (b_messages b)) nodes)) [] L1).
  { induction nodes as [|n r IH]; intros cms0 vs0 msgs0 L0 Hf; cbn [fold_left flat_map map].
    - exists L0. rewrite !app_nil_r. reflexivity.
    - inversion Hf as [|? ? Hna Hr]; subst. rewrite Hna.
      cbn [sort_attrs sort_by fold_right fold_left].
      assert (Hcm : (if String.eqb (n_desc n) EmptyString then cacc cms0 vs0 msgs0 [] L0
                     else add_comment (mkdcomment ONode (n_desc n) (clear (n_name n)) 0 EmptyString) (cacc cms0 vs0 msgs0 [] L0))
                    = cacc (cms0 ++ opt_cm (n_desc n) (mkdcomment ONode (n_desc n) (clear (n_name n)) 0 EmptyString)) vs0 msgs0 [] L0).
      { unfold opt_cm. destruct (String.eqb (n_desc n) EmptyString); [rewrite app_nil_r; reflexivity|reflexivity]. }
      rewrite Hcm.
      rewrite (export_messages_e (map n_name (b_nodes b))) by (apply Forall_filter; assumption).
      match goal with |- exists L1, fold_left ?f r (cacc ?c ?v ?m [] ?l) = _ => destruct (IH c v m l Hr) as [L1 E] end.
      exists L1. refine (eq_trans E _). unfold node_cms. rewrite flat_map_app, map_app, <- !app_assoc. reflexivity. }
  assert (H0 : (if String.eqb (b_desc b) EmptyString then mkeacc [] [] [] [] [] [] [] [] [] []
                else add_comment (mkdcomment OGeneral (b_desc b) EmptyString 0 EmptyString) (mkeacc [] [] [] [] [] [] [] [] [] []))
               = cacc (opt_cm (b_desc b) (mkdcomment OGeneral (b_desc b) EmptyString 0 EmptyString)) [] [] [] []).
  { unfold opt_cm. destruct (String.eqb (b_desc b) EmptyString); reflexivity. }
  rewrite H0. destruct (Hnodes (b_nodes b) (opt_cm (b_desc b) (mkdcomment OGeneral (b_desc b) EmptyString 0 EmptyString)) [] [] [] Hn) as [L1 E].
  exists L1. cbv zeta. cbv zeta in E. rewrite E, Hg. cbn. reflexivity.
Qed.

(* ---------------- value tables and VAL_ lines: the import succeeds, every entry is fresh ---------------- *)
Definition max_le (e : enum_def) : Prop :=
  0 <= en_maxindex e /\
  forall M, 0 <= M -> (forall v, In v (en_values e) -> fst v <= M) -> en_maxindex e <= M.
Definition fresh (e : enum_def) : Prop := en_minsize e = 1 /\ max_le e.

Lemma mem_z_false : forall z l, mem_z z l = false -> ~ In z l.
Proof.
  intros z l H Hin. unfold mem_z in H. assert (existsb (Z.eqb z) l = true); [|congruence].
  apply existsb_exists. exists z. split; [assumption|apply Z.eqb_refl].
Qed.

Lemma enum_add_values_ok : forall vs e,
  NoDup (map fst (en_values e) ++ map fst vs) -> NoDup (map snd (en_values e) ++ map snd vs) -> max_le e ->
  exists e', enum_add_values e vs = Ok e' /\ en_minsize e' = en_minsize e /\ max_le e'.
Proof.
  induction vs as [|[idx nm] r IH]; intros e H1 H2 Hm; cbn [enum_add_values].
  - exists e. auto.
  - cbn [map fst snd] in H1, H2.
    rewrite not_in_mem_z by (apply NoDup_remove_2 in H1; intros Hin; apply H1; apply in_or_app; left; assumption).
    rewrite not_in_mem_str by (apply NoDup_remove_2 in H2; intros Hin; apply H2; apply in_or_app; left; assumption).
    destruct (IH (mkenum (en_name e) (en_values e ++ [(idx, nm)])
                         (if idx >? en_maxindex e then idx else en_maxindex e) (en_minsize e))) as [e' [E1 [E2 E3]]].
    + cbn [en_values]. rewrite map_app. cbn [map fst]. rewrite <- app_assoc. exact H1.
    + cbn [en_values]. rewrite map_app. cbn [map snd]. rewrite <- app_assoc. exact H2.
    + destruct Hm as [Hm0 Hm]. split; [cbn [en_maxindex]; destruct (idx >? en_maxindex e) eqn:E; lia|].
      intros M HM Hall. cbn [en_values en_maxindex] in *.
      assert (Hidx : idx <= M) by (apply (Hall (idx, nm)); apply in_or_app; right; left; reflexivity).
      assert (Hold : en_maxindex e <= M) by (apply Hm; [assumption|]; intros v Hv; apply Hall; apply in_or_app; left; assumption).
      destruct (idx >? en_maxindex e); lia.
    + exists e'. auto.
Qed.

Definition vals_ok (vs : list (Z * string)) : Prop := NoDup (map fst vs) /\ NoDup (map snd vs).

Lemma new_enum_ok : forall name vs, vals_ok vs -> exists e, new_enum name vs = Ok e /\ fresh e.
Proof.
  intros name vs [H1 H2]. unfold new_enum.
  destruct (enum_add_values_ok vs (mkenum name [] 0 1)) as [e [E1 [E2 E3]]]; try assumption.
  - split; [cbn; lia|]. intros M HM _. cbn. lia.
  - exists e. split; [assumption|]. split; assumption.
Qed.

Lemma vals_ok_sort : forall vs, vals_ok vs -> vals_ok (ProofsEnum.vsort vs).
Proof.
  intros vs [H1 H2]. unfold ProofsEnum.vsort. split.
  - eapply Permutation_NoDup; [|exact H1]. apply Permutation_map. apply sort_by_perm.
  - eapply Permutation_NoDup; [|exact H2]. apply Permutation_map. apply sort_by_perm.
Qed.

Lemma evals_id : forall e, enum_wf e -> evals e = sorted_enum_values e.
Proof.
  intros e [_ [_ [Hv [Hm _]]]]. unfold evals. rewrite <- (map_id (sorted_enum_values e)) at 2.
  apply map_ext_in. intros [i n] Hin. unfold sorted_enum_values in Hin. apply Proofs.In_sort_by in Hin.
  specialize (Hv _ Hin). cbn [fst snd] in *. rewrite u32_id by lia. reflexivity.
Qed.
Lemma evals_ok : forall e, enum_wf e -> vals_ok (evals e).
Proof.
  intros e H. rewrite (evals_id e H). destruct H as [H1 [H2 _]]. apply (vals_ok_sort (en_values e)). split; assumption.
Qed.

Lemma tables_ok : forall es L reg0, Forall enum_wf es ->
  exists reg, fold_left (fun acc vt => do r <- acc; import_value_table r vt) (map (table_of es) L) (Ok reg0) = Ok (reg0 ++ reg)
              /\ Forall fresh reg.
Proof.
  intros es L. induction L as [|i r IH]; intros reg0 Hes; cbn [map fold_left].
  - exists []. rewrite app_nil_r. auto.
  - cbn [bind]. unfold import_value_table at 2. cbn [vt_name vt_values table_of].
    destruct (new_enum_ok (clear (en_name (nth_enum es i))) (evals (nth_enum es i))) as [e [E1 E2]].
    { apply evals_ok. apply enum_wf_nth. assumption. }
    rewrite E1. cbn [bind]. destruct (IH (reg0 ++ [e]) Hes) as [reg [F1 F2]].
    exists (e :: reg). split; [rewrite F1, <- app_assoc; reflexivity|constructor; assumption].
Qed.

Lemma valencs_ok : forall nreg ves es se,
  Forall (fun ve => vals_ok (ve_values ve)) ves ->
  exists new se', fold_left (fun acc ve => do a <- acc; import_value_encoding nreg a ve) ves (Ok (es, se)) = Ok (es ++ new, se')
                  /\ Forall fresh new.
Proof.
  intros nreg ves. induction ves as [|ve r IH]; intros es se H; cbn [fold_left].
  - exists [], se. rewrite app_nil_r. auto.
  - inversion H as [|? ? Hv Hr]; subst. cbn [bind]. unfold import_value_encoding at 2.
    destruct (ve_signal ve); cbn [negb].
    2:{ destruct (IH es se Hr) as [new [se' [F1 F2]]]. exists new, se'. auto. }
    destruct (find_in_registry _ _ 0) as [i|].
    + destruct (IH es (((ve_msg ve, ve_sig ve), i) :: se) Hr) as [new [se' [F1 F2]]]. exists new, se'. auto.
    + destruct (new_enum_ok (String.append (ve_sig ve) "_Enum") (sort_by (fun a b => fst a <? fst b) (ve_values ve))) as [e [E1 E2]].
      { apply (vals_ok_sort _ Hv). }
      rewrite E1. cbn [bind].
      destruct (IH (es ++ [e]) (((ve_msg ve, ve_sig ve), Z.of_nat (length es)) :: se) Hr) as [new [se' [F1 F2]]].
      exists (e :: new), se'. split; [refine (eq_trans F1 _); rewrite <- app_assoc; reflexivity|constructor; assumption].
Qed.

(* ---------------- the state invariant of the signal import ---------------- *)
Definition Inv (st : istate) : Prop :=
  ProofsEnum.refs_valid st /\
  (forall i, 0 <= i < Z.of_nat (length (is_enums st)) -> max_le (nth_enum (is_enums st) i)) /\
  (forall i, 0 <= i < Z.of_nat (length (is_enums st)) -> ~ In i (is_enum_refs st) -> en_minsize (nth_enum (is_enums st) i) = 1).

Lemma calc_size_mono : forall a b, 0 <= a <= b -> calc_size_from_value a <= calc_size_from_value b.
Proof.
  intros a b H. pose proof (calc_size_bounds a). pose proof (calc_size_bounds b). unfold calc_size_from_value in *.
  destruct (a =? 0) eqn:A0; [lia|]. destruct (a <? 0) eqn:A1; [lia|].
  destruct (b =? 0) eqn:B0; [lia|]. destruct (b <? 0) eqn:B1; [lia|].
  destruct (b <? 2 ^ 63) eqn:B2; [|destruct (a <? 2 ^ 63); lia].
  replace (a <? 2 ^ 63) with true by lia. pose proof (Z.log2_le_mono a b). lia.
Qed.

Lemma nth_enum_replace_same : forall es i e, 0 <= i < Z.of_nat (length es) ->
  nth_enum (replace_nth (Z.to_nat i) e es) i = e.
Proof. intros es i e H. unfold nth_enum. apply ProofsEnum.replace_nth_same. lia. Qed.

Lemma enum_size_min1 : forall e, en_minsize e = 1 -> enum_size e = calc_size_from_value (en_maxindex e).
Proof.
  intros e H. unfold enum_size. rewrite H. pose proof (calc_size_bounds (en_maxindex e)).
  destruct (1 >? _) eqn:E; lia.
Qed.

Lemma enum_for_signal_ok : forall es refs ei0 size,
  0 <= ei0 < Z.of_nat (length es) ->
  (~ In ei0 refs -> en_minsize (nth_enum es ei0) = 1) ->
  calc_size_from_value (en_maxindex (nth_enum es ei0)) <= size ->
  exists ei es1, enum_for_signal es refs ei0 size = Ok (ei, es1).
Proof.
  intros es refs ei0 size H0 Hfresh Hcalc. unfold enum_for_signal. cbv zeta.
  set (e0 := nth_enum es ei0) in *.
  destruct (mem_z ei0 refs && negb (enum_size e0 =? size)) eqn:Esh.
  - (* a clone with minimum size 1 *)
    rewrite ProofsEnum.nth_enum_app_new.
    set (c := mkenum (en_name e0) (en_values e0) (en_maxindex e0) 1).
    assert (Hc : enum_size c = calc_size_from_value (en_maxindex e0)) by (exact (enum_size_min1 c eq_refl)).
    destruct (enum_size c <? size) eqn:El.
    + rewrite nth_enum_replace_same by (rewrite app_length; cbn; lia).
      assert (Hs : enum_size (mkenum (en_name c) (en_values c) (en_maxindex c) size) = size).
      { unfold enum_size. cbn [en_minsize en_maxindex c]. destruct (size >? _) eqn:E; lia. }
      rewrite Hs. replace (size >? size) with false by lia. eauto.
    + rewrite ProofsEnum.nth_enum_app_new. replace (enum_size c >? size) with false by lia. eauto.
  - assert (Hle : enum_size e0 <= size).
    { apply andb_false_iff in Esh. destruct Esh as [E|E].
      - apply mem_z_false in E. rewrite (enum_size_min1 e0 (Hfresh E)). assumption.
      - lia. }
    fold e0. destruct (enum_size e0 <? size) eqn:El.
    + rewrite nth_enum_replace_same by assumption.
      assert (Hs : enum_size (mkenum (en_name e0) (en_values e0) (en_maxindex e0) size) = size).
      { unfold enum_size. cbn [en_minsize en_maxindex]. pose proof (ProofsEnum.enum_size_ge e0). destruct (size >? _) eqn:E; lia. }
      rewrite Hs. replace (size >? size) with false by lia. eauto.
    + fold e0. replace (enum_size e0 >? size) with false by lia. eauto.
Qed.

(* ---------------- one signal ---------------- *)
Definition esig_img (id : Z) (s : signal) (ei : Z) : signal :=
  mksignal id (clear (s_name s)) KEnum (s_rel s) None [] 0 false fl_one fl_zero fl_zero fl_zero EmptyString ei 0 0
           (s_desc s) fl_zero 0 [].

Definition Rsig (es : list enum_def) (st : istate) (id : Z) (s s' : signal) : Prop :=
  match s_kind s with
  | KStandard => s' = isig_of id s
  | _ => exists ei, s' = esig_img id s ei /\ In ei (is_enum_refs st) /\
                    sorted_enum_values (nth_enum (is_enums st) ei) = evals (e_of es s) /\
                    enum_size (nth_enum (is_enums st) ei) = enum_size (e_of es s)
  end.

Lemma Rsig_mono : forall es st st' id s s', ProofsEnum.st_le st st' -> Rsig es st id s s' -> Rsig es st' id s s'.
Proof.
  intros es st st' id s s' [_ [_ [L3 L4]]] H. unfold Rsig in *. destruct (s_kind s); [assumption| |];
    destruct H as [ei [H1 [H2 [H3 H4]]]]; exists ei; rewrite (L3 _ H2); auto.
Qed.

Definition env_sig (es : list enum_def) (env : ienv) (st0 : istate) (msgid : Z) (s : signal) : Prop :=
  desc_of key_eqb (msgid, clear (s_name s)) (ie_sig_desc env) = s_desc s /\
  match s_kind s with
  | KEnum => exists ei0, lookup key_eqb (msgid, clear (s_name s)) (ie_sig_enums env) = Some ei0 /\
                0 <= ei0 < Z.of_nat (length (is_enums st0)) /\
                sorted_enum_values (nth_enum (is_enums st0) ei0) = evals (e_of es s)
  | _ => lookup key_eqb (msgid, clear (s_name s)) (ie_sig_enums env) = None
  end.

Lemma max_le_core : forall e e', ProofsEnum.enum_core e = ProofsEnum.enum_core e' -> max_le e -> max_le e'.
Proof.
  intros e e' H [Hm0 Hm]. unfold ProofsEnum.enum_core in H. inversion H as [[H1 H2 H3]].
  split; [rewrite <- H3; assumption|].
  intros M HM Hall. rewrite <- H3. apply Hm; [assumption|]. rewrite H2. assumption.
Qed.

Lemma import_signal_e : forall es env st0 st mpos msgid id o recs s,
  esig_ok es s -> enum_wf (e_of es s) -> env_sig es env st0 msgid s ->
  Inv st -> ProofsEnum.st_le st0 st ->
  exists s' st', import_signal env st mpos msgid id (dsig_e es o recs s) = Ok (place s' 0 None [], st') /\
    Inv st' /\ ProofsEnum.st_le st st' /\ Rsig es st' id s s' /\
    s_name s' = clear (s_name s) /\ s_rel s' = s_rel s /\ s_parent s' = None /\ s_groups s' = [] /\
    sig_size (is_enums st') s' = sig_size es s /\ ProofsLayout.sig_refs_ok st' s' /\
    is_sigmap st' = ((msgid, clear (s_name s)), (mpos, id)) :: is_sigmap st.
Proof.
  intros es env st0 st mpos msgid id o recs s Hok Hwf [Hd Henv] HI Hle.
  pose proof Hok as [Hp [Hg [Hv [Ht [Ha [Hr Hk]]]]]].
  unfold import_signal, dsig_e, Rsig. unfold desc_of in Hd.
  destruct (s_kind s) eqn:Ek; [| |destruct Hk].
  - (* standard *)
    cbn [ds_name dsig_of]. rewrite Henv. unfold import_standard.
    cbn [dsig_of ds_size ds_name ds_signed ds_factor ds_offset ds_min ds_max ds_unit].
    rewrite u32_id by lia. replace (s_size s <=? 0) with false by lia. cbn [bind].
    exists (isig_of id s). eexists. split.
    { destruct (lookup key_eqb (msgid, clear (s_name s)) (ie_sig_desc env)) as [d|];
        (unfold isig_of; rewrite <- Hd; reflexivity). }
    destruct HI as [I1 [I2 I3]].
    split; [exact (conj I1 (conj I2 I3))|].
    split; [apply ProofsEnum.st_le_sigmap|].
    repeat split; try reflexivity.
    + unfold sig_size. cbn [s_kind isig_of s_size]. rewrite Ek. reflexivity.
    + intros Hke. discriminate Hke.
  - (* enum *)
    destruct Henv as [ei0 [Hl [Hr0 Hvals]]].
    cbn [ds_name ds_size]. rewrite Hl.
    rewrite (enum_size_u32 _ Hwf).
    destruct HI as [I1 [I2 I3]]. destruct Hle as [Ll [Lc _]].
    assert (Hin : 0 <= ei0 < Z.of_nat (length (is_enums st))) by lia.
    assert (Hcore : ProofsEnum.enum_core (nth_enum (is_enums st) ei0) = ProofsEnum.enum_core (nth_enum (is_enums st0) ei0))
      by (apply Lc; assumption).
    assert (Hcore' := Hcore). unfold ProofsEnum.enum_core in Hcore'. inversion Hcore' as [[Hc1 Hc2 Hc3]].
    assert (Hmax : en_maxindex (nth_enum (is_enums st) ei0) <= en_maxindex (e_of es s)).
    { pose proof Hwf as [_ [_ [Hvs [Hmx _]]]]. apply (proj2 (I2 ei0 Hin)); [lia|]. intros v Hvin. rewrite Hc2 in Hvin.
      assert (Hin' : In v (sorted_enum_values (nth_enum (is_enums st0) ei0))) by (apply Proofs.In_sort_by; assumption).
      rewrite Hvals in Hin'. rewrite (evals_id _ Hwf) in Hin'.
      apply Proofs.In_sort_by in Hin'. apply Hvs. assumption. }
    destruct (enum_for_signal_ok (is_enums st) (is_enum_refs st) ei0 (enum_size (e_of es s))) as [ei [es1 Eok]]; try assumption.
    { intros Hn. apply I3; assumption. }
    { pose proof (ProofsEnum.enum_size_ge (e_of es s)).
      assert (Hnn : 0 <= en_maxindex (nth_enum (is_enums st) ei0)) by (apply (proj1 (I2 ei0 Hin))).
      pose proof (calc_size_mono _ _ (conj Hnn Hmax)). lia. }
    rewrite Eok. cbn [bind].
    apply ProofsEnum.enum_for_signal_spec in Eok; [|assumption|exact I1].
    destruct Eok as [E1 [E2 [E3 [E4 [E5 [E6 E7]]]]]].
    exists (esig_img id s ei). eexists. split.
    { destruct (lookup key_eqb (msgid, clear (s_name s)) (ie_sig_desc env)) as [d|];
        (unfold esig_img; rewrite <- Hd; reflexivity). }
    cbn [is_enums is_enum_refs set_sigmap add_enum_ref set_enums].
    assert (Hvals1 : sorted_enum_values (nth_enum es1 ei) = evals (e_of es s)).
    { unfold ProofsEnum.enum_core in E5. inversion E5 as [[G1 G2 G3]]. unfold sorted_enum_values. rewrite G2, Hc2. exact Hvals. }
    split; [|split; [|split; [|repeat split]]].
    + (* Inv *)
      split; [|split]; unfold ProofsEnum.refs_valid; cbn [is_enums is_enum_refs set_sigmap add_enum_ref set_enums].
      * intros r0 [Hr1|Hr1]; [subst; lia|]. specialize (I1 r0 Hr1). lia.
      * intros i Hi. destruct (Z.eq_dec i ei) as [->|Hne].
        -- apply (max_le_core (nth_enum (is_enums st) ei0)); [symmetry; assumption|apply I2; assumption].
        -- destruct (E7 i Hi Hne) as [Hi' Hsame]. rewrite Hsame. apply I2. assumption.
      * intros i Hi Hnin. assert (Hne : i <> ei) by (intros ->; apply Hnin; left; reflexivity).
        destruct (E7 i Hi Hne) as [Hi' Hsame]. rewrite Hsame. apply I3; [assumption|]. intros Hr1. apply Hnin. right. assumption.
    + (* st_le *)
      unfold ProofsEnum.st_le. cbn [is_enums is_enum_refs set_sigmap add_enum_ref set_enums].
      split; [exact E1|]. split; [exact E3|]. split; [exact E4|]. intros r0 Hr1. right. assumption.
    + exists ei. split; [reflexivity|]. split; [left; reflexivity|]. split; [exact Hvals1|exact E6].
    + unfold sig_size. cbn [s_kind esig_img s_enum is_enums set_sigmap add_enum_ref set_enums]. rewrite Ek. exact E6.
    + intros _. cbn [s_enum esig_img is_enum_refs set_sigmap add_enum_ref set_enums]. left. reflexivity.
Qed.

(* ---------------- the signals of one message ---------------- *)
Lemma verify_insert_ok_e : forall es limit done size start,
  0 <= start -> 0 < size -> start + size <= limit ->
  (forall d, In d done -> s_rel d + sig_size es d <= start) ->
  verify_insert es limit done size start = Ok tt.
Proof.
  intros es limit done size start H0 Hs Hl Hd. unfold verify_insert.
  replace (start <? 0) with false by lia. replace (size >? limit) with false by lia.
  replace (start + size >? limit) with false by lia.
  replace (existsb _ done) with false; [reflexivity|].
  symmetry. destruct (existsb _ done) eqn:E; [|reflexivity].
  apply existsb_exists in E. destruct E as [d [Hin Ho]]. unfold overlaps in Ho. specialize (Hd d Hin). lia.
Qed.

Lemma msg_insert_ok_e : forall es msize done s start,
  (forall d, In d done -> s_rel d + sig_size es d <= start) -> ~ In (s_name s) (map s_name done) ->
  0 <= start -> 0 < sig_size es s -> start + sig_size es s <= msize * 8 ->
  msg_insert es msize done (s, []) start = Ok (done ++ [place s start None []]).
Proof.
  intros es msize done s start Hd Hfresh H0 Hs Hl. unfold msg_insert.
  rewrite (not_in_mem_str _ _ Hfresh). cbn [existsb map length dedup_str mem_str negb Nat.eqb].
  rewrite verify_insert_ok_e; try assumption; [reflexivity|].
  intros d Hin. apply filter_In in Hin. apply Hd. tauto.
Qed.

Definition done_ok (st : istate) (done : list signal) (from : Z) : Prop :=
  forall d, In d done -> ProofsLayout.sig_refs_ok st d /\ s_rel d + sig_size (is_enums st) d <= from.

Lemma done_ok_mono : forall st st' done from from', ProofsEnum.st_le st st' -> from <= from' ->
  done_ok st done from -> done_ok st' done from'.
Proof.
  intros st st' done from from' Hle Hf H d Hd. destruct (H d Hd) as [H1 H2]. split.
  - eapply ProofsLayout.sig_refs_ok_mono; eauto.
  - rewrite (ProofsLayout.sig_size_frozen st st' d Hle H1). lia.
Qed.

Lemma dsig_e_start : forall es o recs s, 0 <= s_rel s < 2 ^ 31 -> get_start_bit (dsig_e es o recs s) = s_rel s.
Proof.
  intros es o recs s H. rewrite <- (dsig_start o recs s H). unfold dsig_e. destruct (s_kind s); reflexivity.
Qed.

Lemma lookup_key_head : forall {V} (k : key) (v : V) l, lookup key_eqb k ((k, v) :: l) = Some v.
Proof. intros V k v l. cbn [lookup]. rewrite (proj2 (key_eqb_eq k k) eq_refl). reflexivity. Qed.
Lemma lookup_key_skip : forall {V} (k k' : key) (v : V) l, k <> k' -> lookup key_eqb k ((k', v) :: l) = lookup key_eqb k l.
Proof.
  intros V k k' v l H. cbn [lookup]. destruct (key_eqb k k') eqn:E; [|reflexivity].
  apply key_eqb_eq in E. contradiction.
Qed.

Lemma NoDup_app_r : forall {A} (a b : list A), NoDup (a ++ b) -> NoDup b.
Proof. intros A a b. induction a as [|x r IH]; cbn; [auto|]. intros H. inversion H; auto. Qed.

Lemma e_import_fold : forall es env st0 mpos msgid msize o recs l i st done from,
  (forall s, In s l -> env_sig es env st0 msgid s /\ enum_wf (e_of es s)) ->
  Forall (esig_ok es) l -> layout_e es from (msize * 8) l -> 0 <= from -> msize <= 8 ->
  ProofsEnum.refs_valid st0 -> Inv st -> ProofsEnum.st_le st0 st -> done_ok st done from ->
  NoDup (map s_name done ++ map (fun s => clear (s_name s)) l) ->
  exists st' sigs',
  fold_left (fun acc (p : Z * dsignal) => let '(id, ds) := p in
      do (st0, sg) <- acc;
      do (s, st1) <- import_signal env st0 mpos msgid id ds;
      (let '(st2, sg2) := (st1, sg) in
       do sg' <- msg_insert (is_enums st2) msize sg2 (s, []) (get_start_bit ds); Ok (st2, sg')))
    (index_from i (map (dsig_e es o recs) l)) (Ok (st, done))
  = Ok (st', done ++ sigs') /\ Inv st' /\ ProofsEnum.st_le st st' /\
    Forall2 (fun p s' => Rsig es st' (fst p) (snd p) s') (index_from i l) sigs' /\
    (forall j s, In (j, s) (index_from i l) -> lookup key_eqb (msgid, clear (s_name s)) (is_sigmap st') = Some (mpos, j)) /\
    (forall k, (forall s, In s l -> k <> (msgid, clear (s_name s))) -> lookup key_eqb k (is_sigmap st') = lookup key_eqb k (is_sigmap st)).
Proof.
  intros es env st0 mpos msgid msize o recs l. induction l as [|s r IH]; intros i st done from Henv Hp Hl H0 Hm Hrv0 HI Hle Hd Hn.
  - cbn. exists st, []. rewrite app_nil_r. split; [reflexivity|]. split; [assumption|]. split; [apply ProofsEnum.st_le_refl|].
    split; [constructor|]. split; [intros j s []|auto].
  - inversion Hp as [|? ? Hps Hpr]; subst. cbn [layout_e] in Hl. destruct Hl as [L1 [L2 L3]].
    destruct (Henv s (or_introl eq_refl)) as [Hes Hwf].
    pose proof (sig_size_pos es s Hps) as Hpos.
    pose proof Hps as [_ [_ [_ [_ [_ [Hrel _]]]]]].
    cbn [map index_from fold_left bind].
    destruct (import_signal_e es env st0 st mpos msgid i o recs s Hps Hwf Hes HI Hle)
      as [s' [st1 [E1 [HI1 [Hle1 [HR [Hnm [Hrl [Hpa [Hgr [Hsz [Hrf Hsm]]]]]]]]]]]].
    rewrite E1. cbn [bind].
    rewrite dsig_e_start by lia.
    assert (Hd1 : done_ok st1 done from) by (apply (done_ok_mono st st1 done from from Hle1 (Z.le_refl _) Hd)).
    rewrite msg_insert_ok_e.
    2:{ intros d Hin. destruct (Hd1 d Hin) as [_ D2]. lia. }
    2:{ cbn [s_name place]. rewrite Hnm. cbn [map] in Hn. apply NoDup_remove_2 in Hn. intros Hin. apply Hn. apply in_or_app. left. exact Hin. }
    2:{ lia. }
    2:{ replace (sig_size (is_enums st1) (place s' 0 None [])) with (sig_size (is_enums st1) s') by reflexivity. lia. }
    2:{ replace (sig_size (is_enums st1) (place s' 0 None [])) with (sig_size (is_enums st1) s') by reflexivity. lia. }
    cbn [bind].
    assert (Hplace : place (place s' 0 None []) (s_rel s) None [] = s').
    { destruct s'. cbn in *. subst. reflexivity. }
    rewrite Hplace.
    assert (Hfresh : forall x, In x r -> (msgid, clear (s_name s)) <> (msgid, clear (s_name x))).
    { intros x Hx Heq. inversion Heq as [Hq]. cbn [map] in Hn. apply NoDup_app_r in Hn. inversion Hn as [|? ? Hni _]; subst.
      apply Hni. rewrite Hq. apply (in_map (fun s => clear (s_name s))). assumption. }
    destruct (IH (i + 1) st1 (done ++ [s']) (s_rel s + sig_size es s)) as [st' [sigs' [F1 [F2 [F3 [F4 [F5 F6]]]]]]]; try assumption; try lia.
    + intros x Hx. apply Henv. right. assumption.
    + eapply ProofsEnum.st_le_trans; [exact Hrv0|exact Hle|exact Hle1].
    + intros d Hin. apply in_app_or in Hin. destruct Hin as [Hin|[Hin|[]]].
      * destruct (Hd1 d Hin) as [D1 D2]. split; [assumption|lia].
      * subst d. split; [assumption|lia].
    + rewrite map_app. cbn [map]. rewrite Hnm, <- app_assoc. exact Hn.
    + exists st', (s' :: sigs'). split; [rewrite F1, <- app_assoc; reflexivity|].
      split; [assumption|]. split; [eapply ProofsEnum.st_le_trans; [exact (proj1 HI)|exact Hle1|exact F3]|].
      split; [constructor; [|assumption]; cbn [fst snd]; eapply Rsig_mono; eauto|]. split.
      * intros j x [Hjx|Hjx].
        -- inversion Hjx; subst j x. rewrite (F6 _ Hfresh), Hsm. apply lookup_key_head.
        -- apply F5. assumption.
      * intros k Hk. rewrite F6 by (intros x Hx; apply Hk; right; assumption). rewrite Hsm.
        apply lookup_key_skip. apply Hk. left. reflexivity.
Qed.

(* ---------------- messages ---------------- *)
Lemma dsig_e_fields : forall es o recs s,
  ds_order (dsig_e es o recs s) = o /\ ds_receivers (dsig_e es o recs s) = recs /\
  ds_muxor (dsig_e es o recs s) = false /\ ds_muxed (dsig_e es o recs s) = false.
Proof. intros es o recs s. unfold dsig_e. destruct (s_kind s); repeat split; reflexivity. Qed.

Lemma sorted_dsigs_e : forall es o recs l from limit, Forall (esig_ok es) l -> layout_e es from limit l -> 0 <= from -> limit <= 64 ->
  sort_by (fun a b => get_start_bit a <? get_start_bit b) (map (dsig_e es o recs) l) = map (dsig_e es o recs) l.
Proof.
  intros es o recs l from limit Hp Hl H0 Hlim. apply (sort_by_ascending get_start_bit).
  revert from Hl H0. induction l as [|s r IH]; intros from Hl H0; [exact I|].
  inversion Hp as [|? ? Hps Hpr]; subst. cbn [layout_e] in Hl. destruct Hl as [L1 [L2 L3]].
  pose proof (sig_size_pos es s Hps) as Hpos.
  cbn [map ascending_by]. split; [|apply (IH Hpr (s_rel s + sig_size es s)); [assumption|lia]].
  destruct r as [|y q]; [exact I|]. cbn [map].
  inversion Hpr as [|? ? Hpy _]; subst. pose proof (sig_size_pos es y Hpy) as Hposy.
  cbn [layout_e] in L3. destruct L3 as [M1 [M2 _]].
  rewrite !dsig_e_start by lia. lia.
Qed.

Definition Rmsg (es : list enum_def) (st : istate) (m m' : message) : Prop :=
  exists sigs',
    m' = mkmessage (m_canid m) (clear (m_name m)) (m_size m)
                   (match m_signals m with [] => LittleEndian | _ => m_order m end) 0 0 0 0
                   (clear (m_sender m)) (recs_in m) (m_desc m) [] sigs' /\
    Forall2 (fun p s' => Rsig es st (fst p) (snd p) s') (index_from 0 (m_signals m)) sigs'.

Lemma Rmsg_mono : forall es st st' m m', ProofsEnum.st_le st st' -> Rmsg es st m m' -> Rmsg es st' m m'.
Proof.
  intros es st st' m m' Hle [sigs' [H1 H2]]. exists sigs'. split; [assumption|].
  eapply ProofsFaithful.Forall2_impl; [|exact H2]. intros p s' H. eapply Rsig_mono; eauto.
Qed.

Definition env_msg (es : list enum_def) (env : ienv) (st0 : istate) (m : message) : Prop :=
  desc_of Z.eqb (u32 (m_canid m)) (ie_msg_desc env) = m_desc m /\
  forall s, In s (m_signals m) -> env_sig es env st0 (u32 (m_canid m)) s /\ enum_wf (e_of es s).

Lemma in_index_from_map : forall {A B} (f : A -> B) (l : list A) i j y,
  In (j, y) (index_from i (map f l)) -> exists x, In x l /\ y = f x.
Proof.
  intros A B f l i j y H.
  assert (Hin : In y (map f l)).
  { rewrite <- (Proofs.index_from_snd (map f l) i). apply in_map_iff. exists (j, y). auto. }
  apply in_map_iff in Hin. destruct Hin as [x [Hx Hin]]. exists x. auto.
Qed.

Lemma import_message_signals_e : forall es env st0 st mpos m names,
  emessage es names m -> env_msg es env st0 m ->
  ProofsEnum.refs_valid st0 -> Inv st -> ProofsEnum.st_le st0 st ->
  exists st' sigs', import_message_signals env st mpos (dmsg_e es m) = Ok (st', sigs') /\
    Inv st' /\ ProofsEnum.st_le st st' /\
    Forall2 (fun p s' => Rsig es st' (fst p) (snd p) s') (index_from 0 (m_signals m)) sigs' /\
    (forall j s, In (j, s) (index_from 0 (m_signals m)) ->
       lookup key_eqb (u32 (m_canid m), clear (s_name s)) (is_sigmap st') = Some (mpos, j)) /\
    (forall k, (forall s, In s (m_signals m) -> k <> (u32 (m_canid m), clear (s_name s))) ->
       lookup key_eqb k (is_sigmap st') = lookup key_eqb k (is_sigmap st)).
Proof.
  intros es env st0 st mpos m names [Ha [Hc [Hdl [Hsd [Hst [Hid [Hsz [Hps [Hlay [Hnn _]]]]]]]]]] [_ Henv] Hrv0 HI Hle.
  unfold import_message_signals. cbn [dm_signals dm_id dm_size dmsg_e].
  rewrite (sorted_dsigs_e _ _ _ _ 0 (m_size m * 8)) by (try assumption; lia).
  rewrite Proofs.filter_nil.
  2:{ intros [i ds] Hin. cbn [snd]. apply in_index_from_map in Hin. destruct Hin as [s [_ ->]].
      apply (dsig_e_fields es (m_order m) (recs_out m) s). }
  assert (Hnomuxed : existsb (fun p : Z * dsignal => ds_muxed (snd p))
                            (index_from 0 (map (dsig_e es (m_order m) (recs_out m)) (m_signals m))) = false).
  { destruct (existsb _ _) eqn:E; [|reflexivity]. apply existsb_exists in E. destruct E as [[i ds] [Hin Hmd]]. cbn [snd] in Hmd.
    apply in_index_from_map in Hin. destruct Hin as [s [_ ->]].
    destruct (dsig_e_fields es (m_order m) (recs_out m) s) as [_ [_ [_ Hf]]]. congruence. }
  rewrite Hnomuxed.
  rewrite (u32_id (m_size m)) by lia.
  destruct (e_import_fold es env st0 mpos (u32 (m_canid m)) (m_size m) (m_order m) (recs_out m) (m_signals m) 0 st [] 0)
    as [st' [sigs' [F1 F2]]]; try assumption; try lia.
  - intros d [].
  - exists st', sigs'. split; [|assumption]. cbn [app] in F1. exact F1.
Qed.

Lemma import_message_e : forall es env st0 raw_names nodes st done m,
  emessage es raw_names m -> env_msg es env st0 m ->
  ProofsEnum.refs_valid st0 -> Inv st -> ProofsEnum.st_le st0 st ->
  (forall r, In r raw_names -> In (clear r) (map n_name nodes)) ->
  (forall r, In r raw_names -> clear r <> dummy_node) ->
  ~ In (m_canid m) (map m_canid done) ->
  ~ In (clear (m_sender m), clear (m_name m)) (map (fun x => (m_sender x, m_name x)) done) ->
  exists st' m', import_message env (st, done) nodes (dmsg_e es m) = Ok (st', done ++ [m']) /\
    Inv st' /\ ProofsEnum.st_le st st' /\ Rmsg es st' m m' /\
    (forall j s, In (j, s) (index_from 0 (m_signals m)) ->
       lookup key_eqb (u32 (m_canid m), clear (s_name s)) (is_sigmap st') = Some (length done, j)) /\
    (forall k, (forall s, In s (m_signals m) -> k <> (u32 (m_canid m), clear (s_name s))) ->
       lookup key_eqb k (is_sigmap st') = lookup key_eqb k (is_sigmap st)).
Proof.
  intros es env st0 raw_names nodes st done m Hpm Henv Hrv0 HI Hle Hnodes Hnd Hcan Hpair.
  pose proof Hpm as [Ha [Hc [Hdl [Hsd [Hst [Hid [Hsz [Hps [Hlay [Hnn [Hsn [Hrc [Hrn Hre]]]]]]]]]]]]].
  destruct (import_message_signals_e es env st0 st (length done) m raw_names Hpm Henv Hrv0 HI Hle) as [st' [sigs' [Hsig [HI' [Hle' [HR [HL1 HL2]]]]]]].
  destruct Henv as [Hmd _].
  exists st'. eexists. split; [|split; [exact HI'|split; [exact Hle'|split; [exists sigs'; split; [reflexivity|exact HR]|split; [exact HL1|exact HL2]]]]].
  unfold import_message. cbv zeta.
  cbn [dm_signals dm_id dm_size dm_tx dm_name dmsg_e].
  unfold desc_of in Hmd. rewrite Hmd.
  rewrite (sorted_dsigs_e _ _ _ _ 0 (m_size m * 8)) by (try assumption; lia).
  (* byte order *)
  assert (Hord : match map (dsig_e es (m_order m) (recs_out m)) (m_signals m) with
                 | [] => LittleEndian | s :: _ => ds_order s end
                 = match m_signals m with [] => LittleEndian | _ => m_order m end).
  { destruct (m_signals m) as [|s0 r0]; [reflexivity|]. cbn [map]. apply (dsig_e_fields es (m_order m) (recs_out m) s0). }
  rewrite Hord.
  assert (Hfo : forallb (fun s => bo_eqb (ds_order s) (match m_signals m with [] => LittleEndian | _ => m_order m end))
                        (map (dsig_e es (m_order m) (recs_out m)) (m_signals m)) = true).
  { apply forallb_forall. intros ds Hin. apply in_map_iff in Hin. destruct Hin as [s [Hs Hin]]. subst ds.
    rewrite (proj1 (dsig_e_fields es (m_order m) (recs_out m) s)).
    destruct (m_signals m); [destruct Hin|]. destruct (m_order m); reflexivity. }
  rewrite Hfo. cbn [negb].
  (* receivers *)
  assert (Hrecs : filter (fun r => negb (String.eqb r dummy_node))
                         (dedup_str [] (flat_map ds_receivers (map (dsig_e es (m_order m) (recs_out m)) (m_signals m))))
                  = recs_in m).
  { unfold recs_in. destruct (m_signals m) as [|s0 sr] eqn:Es; [reflexivity|].
    cbn [map]. rewrite (dedup_copies (recs_out m)).
    - unfold recs_out. destruct (m_receivers m) as [|r0 rr] eqn:Er; [reflexivity|].
      apply filter_all. intros x Hx. apply in_map_iff in Hx. destruct Hx as [y [Hy Hin]]. subst x.
      rewrite In_sort_str in Hin.
      destruct (String.eqb (clear y) dummy_node) eqn:E; [|reflexivity].
      apply String.eqb_eq in E. exfalso. apply (Hnd y); [apply Hrc; assumption|assumption].
    - unfold recs_out. destruct (m_receivers m) as [|r0 rr] eqn:Er; [constructor; [intros []|constructor]|].
      eapply Permutation_NoDup; [|exact Hrn]. apply Permutation_map. apply sort_by_perm.
    - intros x Hx. destruct Hx as [Hx|Hx]; [subst; apply (dsig_e_fields es (m_order m) (recs_out m) s0)|].
      apply in_map_iff in Hx. destruct Hx as [y [Hy _]]. subst. apply (dsig_e_fields es (m_order m) (recs_out m) y). }
  rewrite Hrecs.
  assert (Hrin : forallb (fun r => mem_str r (map n_name nodes)) (recs_in m) = true).
  { apply forallb_forall. intros x Hx. unfold recs_in in Hx. destruct (m_signals m); [destruct Hx|].
    apply in_map_iff in Hx. destruct Hx as [y [Hy Hin]]. subst x. rewrite In_sort_str in Hin.
    unfold mem_str. apply existsb_exists. exists (clear y). split; [apply Hnodes, Hrc; assumption|apply String.eqb_refl]. }
  rewrite Hrin. cbn [negb].
  assert (Htx : mem_str (clear (m_sender m)) (map n_name nodes) = true).
  { unfold mem_str. apply existsb_exists. exists (clear (m_sender m)). split; [apply Hnodes; assumption|apply String.eqb_refl]. }
  rewrite Htx. cbn [negb].
  assert (Hname : mem_str (clear (m_name m))
                    (map m_name (filter (fun x => String.eqb (m_sender x) (clear (m_sender m))) done)) = false).
  { apply not_in_mem_str. intros Hin. apply in_map_iff in Hin. destruct Hin as [x [Hx Hin]].
    apply filter_In in Hin. destruct Hin as [Hin Hs]. apply String.eqb_eq in Hs.
    apply Hpair. apply in_map_iff. exists x. split; [rewrite Hs, Hx; reflexivity|assumption]. }
  rewrite Hname.
  rewrite (u32_id (m_size m)) by lia. replace (m_size m >? 8) with false by lia.
  rewrite (u32_id (m_canid m)) by lia. rewrite (not_in_mem_z _ _ Hcan).
  rewrite Hsig. cbn [bind]. reflexivity.
Qed.

Lemma import_messages_e : forall es env st0 raw_names nodes l st done,
  Forall (emessage es raw_names) l -> (forall m, In m l -> env_msg es env st0 m) ->
  ProofsEnum.refs_valid st0 -> Inv st -> ProofsEnum.st_le st0 st ->
  (forall r, In r raw_names -> In (clear r) (map n_name nodes)) ->
  (forall r, In r raw_names -> clear r <> dummy_node) ->
  NoDup (map m_canid done ++ map m_canid l) ->
  NoDup (map (fun x => (m_sender x, m_name x)) done ++ map (fun m => (clear (m_sender m), clear (m_name m))) l) ->
  exists st' msgs',
    fold_left (fun acc dm => do a <- acc; import_message env a nodes dm) (map (dmsg_e es) l) (Ok (st, done))
    = Ok (st', done ++ msgs') /\ Inv st' /\ ProofsEnum.st_le st st' /\ Forall2 (Rmsg es st') l msgs' /\
    (forall q m, nth_error l q = Some m -> forall j s, In (j, s) (index_from 0 (m_signals m)) ->
       lookup key_eqb (u32 (m_canid m), clear (s_name s)) (is_sigmap st') = Some ((length done + q)%nat, j)) /\
    (forall k, (forall m s, In m l -> In s (m_signals m) -> k <> (u32 (m_canid m), clear (s_name s))) ->
       lookup key_eqb k (is_sigmap st') = lookup key_eqb k (is_sigmap st)).
Proof.
  intros es env st0 raw_names nodes l. induction l as [|m r IH]; intros st done Hp Henv Hrv0 HI Hle Hn Hd Hc Hq.
  - cbn. exists st, []. rewrite app_nil_r. split; [reflexivity|]. split; [assumption|]. split; [apply ProofsEnum.st_le_refl|].
    split; [constructor|]. split; [intros q m H; destruct q; discriminate H|auto].
  - inversion Hp as [|? ? Hpm Hpr]; subst. cbn [map fold_left bind].
    destruct (import_message_e es env st0 raw_names nodes st done m Hpm (Henv m (or_introl eq_refl)) Hrv0 HI Hle Hn Hd)
      as [st1 [m' [E1 [HI1 [Hle1 [HR [HL1 HL2]]]]]]].
    + cbn [map] in Hc. apply NoDup_remove_2 in Hc. intros Hin. apply Hc. apply in_or_app. left. assumption.
    + cbn [map] in Hq. apply NoDup_remove_2 in Hq. intros Hin. apply Hq. apply in_or_app. left. assumption.
    + rewrite E1. pose proof HR as [sg [Hm' _]].
      assert (Hkeys : forall x s s', In x r -> (u32 (m_canid m), clear (s_name s)) <> (u32 (m_canid x), clear (s_name s'))).
      { intros x s s' Hx Heq. inversion Heq as [[Hq1 Hq2]].
        rewrite Forall_forall in Hpr. destruct Hpm as [_ [_ [_ [_ [_ [Hid _]]]]]]. destruct (Hpr x Hx) as [_ [_ [_ [_ [_ [Hidx _]]]]]].
        rewrite !u32_id in Hq1 by assumption.
        cbn [map] in Hc. apply NoDup_app_r in Hc. inversion Hc as [|? ? Hni _]; subst. apply Hni. rewrite Hq1. apply in_map. assumption. }
      destruct (IH st1 (done ++ [m'])) as [st' [msgs' [F1 [F2 [F3 [F4 [F5 F6]]]]]]]; try assumption.
      * intros x Hx. apply Henv. right. assumption.
      * eapply ProofsEnum.st_le_trans; [exact Hrv0|exact Hle|exact Hle1].
      * rewrite map_app. cbn [map]. rewrite Hm'. cbn [m_canid]. rewrite <- app_assoc. exact Hc.
      * rewrite map_app. cbn [map]. rewrite Hm'. cbn [m_sender m_name]. rewrite <- app_assoc. exact Hq.
      * exists st', (m' :: msgs'). split; [rewrite F1, <- app_assoc; reflexivity|]. split; [assumption|].
        split; [eapply ProofsEnum.st_le_trans; [exact (proj1 HI)|exact Hle1|exact F3]|].
        split; [constructor; [eapply Rmsg_mono; eauto|assumption]|]. split.
        -- intros q x Hnth j s Hjs. destruct q as [|q]; cbn [nth_error] in Hnth.
           ++ inversion Hnth; subst x. rewrite F6 by (intros y t Hy _; apply Hkeys; assumption).
              rewrite (HL1 j s Hjs). rewrite Nat.add_0_r. reflexivity.
           ++ rewrite (F5 q x Hnth j s Hjs). rewrite app_length. cbn [length]. f_equal. f_equal. lia.
        -- intros k Hk. rewrite F6 by (intros y t Hy Ht; apply Hk; [right; assumption|assumption]).
           apply HL2. intros t Ht. apply Hk; [left; reflexivity|assumption].
Qed.

(* ---------------- the VAL_ lines of the exported document resolve to the signals' values ---------------- *)
Lemma in_bus_vencs : forall b ve, In ve (bus_vencs b) <->
  exists m s, In m (b_messages b) /\ In s (m_signals m) /\ s_kind s = KEnum /\
              ve = mkdvalenc true (u32 (m_canid m)) (clear (s_name s)) (evals (e_of (b_enums b) s)).
Proof.
  intros b ve. unfold bus_vencs, msg_vencs. rewrite in_flat_map. split.
  - intros [m [Hm H]]. apply in_flat_map in H. destruct H as [s [Hs H]]. unfold venc_e in H.
    destruct (s_kind s) eqn:Ek; try (destruct H; fail). destruct H as [H|[]]. exists m, s. auto.
  - intros [m [s [Hm [Hs [Hk H]]]]]. exists m. split; [assumption|]. apply in_flat_map. exists s. split; [assumption|].
    unfold venc_e. rewrite Hk. left. auto.
Qed.

Lemma key_inj : forall b, keyed_bus b -> forall m m' s s',
  In m (b_messages b) -> In m' (b_messages b) -> In s (m_signals m) -> In s' (m_signals m') ->
  u32 (m_canid m) = u32 (m_canid m') -> clear (s_name s) = clear (s_name s') -> m = m' /\ s = s'.
Proof.
  intros b Hkb m m' s s' Hm Hm' Hs Hs' E1 E2. pose proof Hkb as [_ [_ [Hcan Hms]]].
  assert (m = m').
  { apply (NoDup_map_inj m_canid (b_messages b)); auto.
    rewrite <- (canid_u32 b Hkb m), <- (canid_u32 b Hkb m') by assumption. assumption. }
  subst m'. split; [reflexivity|]. destruct (Hms m Hm) as [_ Hnn].
  apply (NoDup_map_inj (fun s => clear (s_name s)) (m_signals m)); auto.
Qed.

Lemma last_valenc_in : forall ves k v, ProofsEnum.last_valenc ves k = Some v ->
  exists ve, In ve ves /\ ve_signal ve = true /\ (ve_msg ve, ve_sig ve) = k /\ v = ProofsEnum.vsort (ve_values ve).
Proof.
  induction ves as [|ve r IH]; intros k v H; cbn [ProofsEnum.last_valenc] in H; [discriminate|].
  destruct (ProofsEnum.last_valenc r k) as [v'|] eqn:E.
  - inversion H; subst. destruct (IH k v E) as [x [H1 H2]]. exists x. split; [right; assumption|assumption].
  - destruct (ve_signal ve && key_eqb k (ve_msg ve, ve_sig ve)) eqn:Ec; [|discriminate].
    apply andb_true_iff in Ec. destruct Ec as [E1 E2]. apply key_eqb_eq in E2. inversion H; subst.
    exists ve. split; [left; reflexivity|auto].
Qed.

Lemma vsort_evals : forall e, enum_wf e -> ProofsEnum.vsort (evals e) = evals e.
Proof.
  intros e H. rewrite (evals_id e H). unfold sorted_enum_values. apply ProofsEnum.vsort_idem.
Qed.

Lemma env_sig_of_doc : forall b nreg es0 es' se' md nd,
  ebus b ->
  fold_left (fun acc ve => do a <- acc; import_value_encoding nreg a ve) (bus_vencs b) (Ok (es0, [])) = Ok (es', se') ->
  forall m s, In m (b_messages b) -> In s (m_signals m) ->
  env_sig (b_enums b) (mkienv nd md (rev (spairs (doc_cms b))) se' []) (mkistate es' [] []) (u32 (m_canid m)) s.
Proof.
  intros b nreg es0 es' se' md nd Hb Hfold m s Hm Hs.
  pose proof (ebus_keyed b Hb) as Hkb.
  assert (Hwf : forall x, enum_wf (e_of (b_enums b) x)).
  { intros x. apply enum_wf_nth. destruct Hb as [_ [_ [_ [_ [_ [_ [_ [_ [_ H]]]]]]]]]. exact H. }
  split; [cbn [ie_sig_desc]; apply (sig_desc_ok b Hkb); assumption|].
  cbn [ie_sig_enums is_enums].
  pose proof (Proofs.valenc_fold_keys _ _ _ _ _ _ Hfold) as Hkeys.
  destruct (ProofsEnum.valenc_fold_resolved _ _ _ _ _ _ Hfold) as [_ Hres].
  assert (Hkind : forall ve, In ve (bus_vencs b) -> ve_signal ve = true ->
            (ve_msg ve, ve_sig ve) = (u32 (m_canid m), clear (s_name s)) ->
            s_kind s = KEnum /\ ve_values ve = evals (e_of (b_enums b) s)).
  { intros ve Hin _ Hk. apply in_bus_vencs in Hin. destruct Hin as [m' [s' [Hm' [Hs' [Hk' ->]]]]].
    cbn [ve_msg ve_sig ve_values] in *. inversion Hk as [[K1 K2]].
    destruct (key_inj b Hkb m' m s' s Hm' Hm Hs' Hs K1 K2) as [-> ->]. auto. }
  destruct (s_kind s) eqn:Ek.
  - (* standard: no VAL_ line carries its key *)
    destruct (lookup key_eqb (u32 (m_canid m), clear (s_name s)) se') as [ei|] eqn:El; [|reflexivity].
    exfalso. assert (Hin : In (u32 (m_canid m), clear (s_name s)) (map fst se')) by (apply Proofs.lookup_some_in; eauto).
    apply Hkeys in Hin. destruct Hin as [[]|[ve [H1 [H2 H3]]]]. destruct (Hkind ve H1 H2 H3) as [Hc _]. congruence.
  - (* enum *)
    assert (Hin : In (u32 (m_canid m), clear (s_name s)) (map fst se')).
    { apply Hkeys. right. exists (mkdvalenc true (u32 (m_canid m)) (clear (s_name s)) (evals (e_of (b_enums b) s))).
      split; [apply in_bus_vencs; exists m, s; auto|auto]. }
    apply Proofs.lookup_some_in in Hin. destruct Hin as [ei0 El]. exists ei0. split; [assumption|].
    specialize (Hres _ _ El).
    destruct (ProofsEnum.last_valenc (bus_vencs b) (u32 (m_canid m), clear (s_name s))) as [v|] eqn:Elv; [|discriminate].
    destruct Hres as [Hr Hv]. split; [assumption|]. rewrite Hv.
    apply last_valenc_in in Elv. destruct Elv as [ve [H1 [H2 [H3 ->]]]].
    destruct (Hkind ve H1 H2 H3) as [_ ->]. apply vsort_evals. apply Hwf.
  - (* multiplexers are not in the fragment *)
    exfalso. destruct Hb as [_ [_ [_ [_ [_ [Hms _]]]]]]. rewrite Forall_forall in Hms.
    destruct (Hms m Hm) as [_ [_ [_ [_ [_ [_ [_ [Hps _]]]]]]]]. rewrite Forall_forall in Hps.
    destruct (Hps s Hs) as [_ [_ [_ [_ [_ [_ Hk]]]]]]. rewrite Ek in Hk. exact Hk.
Qed.

(* ---------------- projections ---------------- *)
Lemma proj_signal_e : forall es st sigs sigs' id s s',
  esig_ok es s -> enum_wf (e_of es s) -> Rsig es st id s s' ->
  proj_signal (is_enums st) sigs' s' = proj_signal es sigs s.
Proof.
  intros es st sigs sigs' id s s' [Hp [Hg [Hv [Ht [Ha [_ Hk]]]]]] Hwf HR. unfold Rsig in HR.
  destruct (s_kind s) eqn:Ek; [| |destruct Hk].
  - subst s'. unfold proj_signal, membership, sig_size.
    rewrite !abs_start_top by (try assumption; reflexivity).
    cbn [s_kind s_name s_rel s_parent s_groups s_size s_signed s_scale s_offset s_min s_max s_unit s_desc
         s_startval s_sendtype s_attrs isig_of].
    rewrite Ek, Hp, Hv, Ht, Ha, clear_spaces_idem. reflexivity.
  - destruct HR as [ei [-> [_ [Hvals Hsize]]]]. unfold proj_signal, membership, sig_size.
    rewrite !abs_start_top by (try assumption; reflexivity).
    cbn [s_kind s_name s_rel s_parent s_groups s_size s_signed s_scale s_offset s_min s_max s_unit s_desc
         s_startval s_sendtype s_attrs s_enum esig_img].
    rewrite Ek, Hp, Hv, Ht, Ha, clear_spaces_idem, Hvals, Hsize, (evals_id _ Hwf). reflexivity.
Qed.

Lemma Forall2_index_map : forall {A B C} (R : Z -> A -> B -> Prop) (f' : B -> C) (f : A -> C) l i l',
  Forall2 (fun p s' => R (fst p) (snd p) s') (index_from i l) l' ->
  (forall id s s', In s l -> R id s s' -> f' s' = f s) -> map f' l' = map f l.
Proof.
  intros A B C R f' f l. induction l as [|x r IH]; intros i l' H Hf; cbn [index_from] in H; inversion H; subst; [reflexivity|].
  cbn [map fst snd] in *. f_equal.
  - eapply Hf; [left; reflexivity|eassumption].
  - eapply IH; [eassumption|]. intros id s s' Hs. apply Hf. right. assumption.
Qed.

Lemma proj_message_e : forall names es st m m',
  emessage es names m -> (forall s, In s (m_signals m) -> enum_wf (e_of es s)) -> Rmsg es st m m' ->
  proj_message (is_enums st) m' = proj_message es m.
Proof.
  intros names es st m m' [Ha [Hc [Hdl [Hsd [Hst [Hid [Hsz [Hps [Hlay [Hnn [Hsn [Hrc [Hrn Hre]]]]]]]]]]]]] Hwf [sigs' [-> HR]].
  unfold proj_message.
  cbn [m_canid m_name m_size m_order m_cycle m_delay m_startdelay m_sendtype m_sender m_receivers m_desc m_attrs m_signals].
  rewrite Ha, Hc, Hdl, Hsd, Hst, !clear_spaces_idem.
  assert (Hlen : sigs' = [] <-> m_signals m = []).
  { destruct (m_signals m); cbn [index_from] in HR; inversion HR; subst; split; intros; try reflexivity; discriminate. }
  assert (Hord : match sigs' with
                 | [] => LittleEndian
                 | _ :: _ => match m_signals m with [] => LittleEndian | _ :: _ => m_order m end
                 end = match m_signals m with [] => LittleEndian | _ :: _ => m_order m end).
  { destruct sigs'; [|reflexivity]. rewrite (proj1 Hlen eq_refl). reflexivity. }
  rewrite Hord.
  assert (Hrecs : sort_by str_ltb (map clear (recs_in m)) = sort_by str_ltb (map clear (m_receivers m))).
  { unfold recs_in. destruct (m_signals m) eqn:Es.
    - rewrite (Hre eq_refl). reflexivity.
    - rewrite map_map. rewrite (map_ext (fun x => clear (clear x)) clear) by (intros; apply clear_spaces_idem).
      apply sort_str_perm_eq. apply Permutation_map. apply Permutation_sym. apply sort_by_perm. }
  rewrite Hrecs.
  assert (Hsigs : map (proj_signal (is_enums st) sigs') sigs' = map (proj_signal es (m_signals m)) (m_signals m)).
  { eapply (Forall2_index_map (fun id s s' => Rsig es st id s s')); [exact HR|].
    intros id s s' Hs HRs. eapply proj_signal_e; eauto. rewrite Forall_forall in Hps. apply Hps. assumption. }
  rewrite Hsigs. reflexivity.
Qed.

Lemma Forall2_map_eq : forall {A B C} (R : A -> B -> Prop) (f : A -> C) (g : B -> C) l l',
  Forall2 R l l' -> (forall a b, In a l -> R a b -> g b = f a) -> map g l' = map f l.
Proof.
  intros A B C R f g l l' H. induction H; intros Hf; [reflexivity|]. cbn [map]. f_equal.
  - apply Hf; [left; reflexivity|assumption].
  - apply IHForall2. intros a b Ha. apply Hf. right. assumption.
Qed.

Lemma Forall2_in_r : forall {A B} (R : A -> B -> Prop) l l' y, Forall2 R l l' -> In y l' -> exists x, In x l /\ R x y.
Proof.
  intros A B R l l' y H. induction H; intros Hin; [destruct Hin|].
  destruct Hin as [->|Hin]; [exists x; split; [left; reflexivity|assumption]|].
  destruct (IHForall2 Hin) as [x0 [H1 H2]]. exists x0. split; [right; assumption|assumption].
Qed.

(* ---------------- the theorem ---------------- *)
Theorem export_import_enum_thm : forall b, ebus b ->
  exists b', export_import b = Ok b' /\ proj_bus b' = proj_bus b.
Proof.
  intros b Hb. pose proof Hb as [Ha [Hn [Hnn [Hdm [Hlen [Hm [Hcan [Hpair [Hg Hes]]]]]]]]].
  pose proof (ebus_keyed b Hb) as Hkb.
  destruct (export_e b Hb) as [L HE]. unfold export_import. rewrite HE.
  unfold text_roundtrip, edoc. cbn [d_filename d_nodes d_valtables d_messages d_comments d_attrs d_attrdefs d_attrvals d_valencs d_extmuxes map].
  unfold import. cbn [d_filename d_nodes d_valtables d_messages d_comments d_attrs d_attrdefs d_attrvals d_valencs d_extmuxes].
  rewrite import_comments_spec, (gdesc_doc b Hkb).
  destruct (tables_ok (b_enums b) L [] Hes) as [reg [T1 T2]]. cbn [app] in T1. rewrite T1. cbn [bind].
  destruct (valencs_ok (length reg) (bus_vencs b) reg []) as [new [se' [V1 V2]]].
  { apply Forall_forall. intros ve Hin. apply in_bus_vencs in Hin. destruct Hin as [m [s [_ [_ [_ ->]]]]].
    cbn [ve_values]. apply evals_ok. apply enum_wf_nth. assumption. }
  rewrite V1. cbn [bind fst snd import_ext_muxes fold_left].
  rewrite import_nodes_ok; [|assumption|assumption|assumption|intros n Hin; apply (node_desc_ok b Hkb); assumption].
  cbn [bind].
  set (nd := rev (npairs (doc_cms b))). set (md := rev (mpairs (doc_cms b))). set (sd := rev (spairs (doc_cms b))).
  set (env := mkienv nd md sd se' []).
  set (st0 := mkistate (reg ++ new) [] []).
  set (nodes' := mk_nodes 0 (b_nodes b) ++ [mknode dummy_node 1024 EmptyString []]).
  assert (Hnames' : map n_name nodes' = map (fun n => clear (n_name n)) (b_nodes b) ++ [dummy_node]).
  { unfold nodes'. rewrite map_app, mk_nodes_names. reflexivity. }
  assert (HI0 : Inv st0).
  { assert (Hall : forall i, 0 <= i < Z.of_nat (length (reg ++ new)) -> fresh (nth_enum (reg ++ new) i)).
    { intros i Hi. assert (HF : Forall fresh (reg ++ new)) by (apply Forall_app; split; assumption).
      rewrite Forall_forall in HF. apply HF. unfold nth_enum. apply nth_In. lia. }
    split; [intros r []|]. split; intros i Hi; cbn [is_enums st0] in *; [apply (Hall i Hi)|intros _; apply (Hall i Hi)]. }
  assert (Hwf : forall x, enum_wf (e_of (b_enums b) x)) by (intros x; apply enum_wf_nth; assumption).
  destruct (import_messages_e (b_enums b) env st0 (map n_name (b_nodes b)) nodes' (b_messages b) st0 [])
    as [st' [msgs' [F1 [F2 [F3 [F4 _]]]]]]; try assumption.
  - intros m Hin. split.
    + cbn [ie_msg_desc env]. apply (msg_desc_ok b Hkb). assumption.
    + intros s Hs. split; [|apply Hwf]. apply (env_sig_of_doc b (length reg) reg (reg ++ new) se' md nd Hb V1 m s Hin Hs).
  - intros r [].
  - apply ProofsEnum.st_le_refl.
  - intros r Hr. rewrite Hnames'. apply in_or_app. left. apply in_map_iff in Hr. destruct Hr as [n [Hr Hin]]. subst r.
    apply in_map_iff. exists n. auto.
  - intros r Hr Heq. apply Hdm. apply in_map_iff in Hr. destruct Hr as [n [Hr Hin]]. subst r.
    rewrite <- Heq. apply in_map_iff. exists n. auto.
  - cbn [app] in F1. subst env.
    assert (Hnos : existsb (fun m => String.eqb (m_sender m) dummy_node) msgs' = false).
    { destruct (existsb _ _) eqn:E; [|reflexivity]. apply existsb_exists in E. destruct E as [x [Hx He]].
      destruct (Forall2_in_r _ _ _ _ F4 Hx) as [m [Hin [sg [Hx' _]]]]. subst x. cbn [m_sender] in He.
      apply String.eqb_eq in He. exfalso. apply Hdm.
      rewrite Forall_forall in Hm. destruct (Hm m Hin) as [_ [_ [_ [_ [_ [_ [_ [_ [_ [_ [Hs _]]]]]]]]]]].
      apply in_map_iff in Hs. destruct Hs as [n [Hs Hn']]. rewrite <- He, <- Hs. apply in_map_iff. exists n. auto. }
    exists (mkbus (b_name b) (b_desc b) [] (mk_nodes 0 (b_nodes b)) (is_enums st') msgs'). split.
    { match goal with |- bind ?x ?k = _ => replace x with (@Ok (istate * list message) (st', msgs')) by (symmetry; exact F1) end.
      cbn [bind app].
      unfold import_attributes. cbn [d_attrdefs d_attrs d_attrvals fold_left bind].
      cbn [b_messages b_nodes set_b_nodes]. rewrite Hnos.
      unfold nodes'. rewrite filter_app, mk_nodes_not_dummy by assumption. cbn [filter String.eqb negb app]. rewrite app_nil_r.
      reflexivity. }
    unfold proj_bus, set_b_nodes. cbn [b_desc b_attrs b_nodes b_enums b_messages]. rewrite Ha.
    f_equal.
    + clear - Hn. revert Hn. generalize 0. generalize (b_nodes b). induction l as [|n r IH]; intros i Hf; cbn [map mk_nodes]; [reflexivity|].
      inversion Hf as [|? ? Hna Hr]; subst. rewrite IH by assumption. f_equal.
      unfold proj_node. cbn [n_name n_desc n_attrs]. rewrite Hna, clear_spaces_idem. reflexivity.
    + f_equal. eapply (Forall2_map_eq (Rmsg (b_enums b) st')); [exact F4|].
      intros m m' Hin HR. rewrite Forall_forall in Hm. eapply proj_message_e; [apply Hm; assumption|intros; apply Hwf|exact HR].
Qed.

(* ---------------- the structural part of the import, for any document that carries the exported
   structure of an ebus (used by RoundTripAttr with non-empty attribute sections) ---------------- *)
Definition finish (b1 : bus) : result bus :=
  if existsb (fun m => String.eqb (m_sender m) dummy_node) (b_messages b1) then Ok b1
  else Ok (set_b_nodes b1 (filter (fun n => negb (String.eqb (n_name n) dummy_node)) (b_nodes b1))).

Lemma import_struct : forall b L d, ebus b ->
  d_filename d = b_name b -> d_nodes d = map (fun n => clear (n_name n)) (b_nodes b) ->
  d_valtables d = map (table_of (b_enums b)) L -> d_messages d = map (dmsg_e (b_enums b)) (b_messages b) ->
  d_comments d = doc_cms b -> d_valencs d = bus_vencs b -> d_extmuxes d = [] ->
  exists st' msgs',
    import d = (do b1 <- import_attributes (is_sigmap st') d
                           (mkbus (b_name b) (b_desc b) []
                                  (mk_nodes 0 (b_nodes b) ++ [mknode dummy_node 1024 EmptyString []]) (is_enums st') msgs');
                finish b1) /\
    Forall2 (Rmsg (b_enums b) st') (b_messages b) msgs' /\
    (forall q m, nth_error (b_messages b) q = Some m -> forall j s, In (j, s) (index_from 0 (m_signals m)) ->
       lookup key_eqb (u32 (m_canid m), clear (s_name s)) (is_sigmap st') = Some (q, j)).
Proof.
  intros b L d Hb D1 D2 D3 D4 D5 D6 D7. pose proof Hb as [Ha [Hn [Hnn [Hdm [Hlen [Hm [Hcan [Hpair [Hg Hes]]]]]]]]].
  pose proof (ebus_keyed b Hb) as Hkb.
  unfold import. rewrite D1, D2, D3, D4, D5, D6, D7.
  rewrite import_comments_spec, (gdesc_doc b Hkb).
  destruct (tables_ok (b_enums b) L [] Hes) as [reg [T1 T2]]. cbn [app] in T1. rewrite T1. cbn [bind].
  destruct (valencs_ok (length reg) (bus_vencs b) reg []) as [new [se' [V1 V2]]].
  { apply Forall_forall. intros ve Hin. apply in_bus_vencs in Hin. destruct Hin as [m [s [_ [_ [_ ->]]]]].
    cbn [ve_values]. apply evals_ok. apply enum_wf_nth. assumption. }
  rewrite V1. cbn [bind fst snd import_ext_muxes fold_left].
  rewrite import_nodes_ok; [|assumption|assumption|assumption|intros n Hin; apply (node_desc_ok b Hkb); assumption].
  cbn [bind].
  set (nd := rev (npairs (doc_cms b))). set (md := rev (mpairs (doc_cms b))). set (sd := rev (spairs (doc_cms b))).
  set (st0 := mkistate (reg ++ new) [] []).
  set (nodes' := mk_nodes 0 (b_nodes b) ++ [mknode dummy_node 1024 EmptyString []]).
  assert (Hnames' : map n_name nodes' = map (fun n => clear (n_name n)) (b_nodes b) ++ [dummy_node]).
  { unfold nodes'. rewrite map_app, mk_nodes_names. reflexivity. }
  assert (HI0 : Inv st0).
  { assert (Hall : forall i, 0 <= i < Z.of_nat (length (reg ++ new)) -> fresh (nth_enum (reg ++ new) i)).
    { intros i Hi. assert (HF : Forall fresh (reg ++ new)) by (apply Forall_app; split; assumption).
      rewrite Forall_forall in HF. apply HF. unfold nth_enum. apply nth_In. lia. }
    split; [intros r []|]. split; intros i Hi; cbn [is_enums st0] in *; [apply (Hall i Hi)|intros _; apply (Hall i Hi)]. }
  assert (Hwf : forall x, enum_wf (e_of (b_enums b) x)) by (intros x; apply enum_wf_nth; assumption).
  destruct (import_messages_e (b_enums b) (mkienv nd md sd se' []) st0 (map n_name (b_nodes b)) nodes' (b_messages b) st0 [])
    as [st' [msgs' [F1 [F2 [F3 [F4 [F5 F6]]]]]]]; try assumption.
  - intros m Hin. split.
    + cbn [ie_msg_desc]. apply (msg_desc_ok b Hkb). assumption.
    + intros s Hs. split; [|apply Hwf]. apply (env_sig_of_doc b (length reg) reg (reg ++ new) se' md nd Hb V1 m s Hin Hs).
  - intros r [].
  - apply ProofsEnum.st_le_refl.
  - intros r Hr. rewrite Hnames'. apply in_or_app. left. apply in_map_iff in Hr. destruct Hr as [n [Hr Hin]]. subst r.
    apply in_map_iff. exists n. auto.
  - intros r Hr Heq. apply Hdm. apply in_map_iff in Hr. destruct Hr as [n [Hr Hin]]. subst r.
    rewrite <- Heq. apply in_map_iff. exists n. auto.
  - cbn [app] in F1. exists st', msgs'. split; [|split; [exact F4|]].
    + match goal with |- bind ?x ?k = _ => replace x with (@Ok (istate * list message) (st', msgs')) by (symmetry; exact F1) end.
      cbn [bind]. reflexivity.
    + intros q m Hq j s Hjs. rewrite (F5 q m Hq j s Hjs). reflexivity.
Qed.

(* ------------------------------------------------------------------------------------------
   the hypothesis is satisfiable: two enums with the SAME values and different minimum sizes (they are
   matched to one value table on import and cloned per size: table 0 for `a` and `c`, clones 5 and 6 for
   `b wide` and `w`), the first used twice, an enum without values (a fresh `<sig>_Enum`, entry 4), a standard signal in between, both byte orders, descriptions
   ------------------------------------------------------------------------------------------ *)
Local Open Scope string_scope.
Definition example_enum_bus : bus :=
  mkbus "bus" "enums" []
    [mknode "ECU 1" 3 "" []; mknode "GW" 7 "the gateway" []]
    [ mkenum "on off" [(1, "on"); (0, "off")] 1 0;
      mkenum "on off wide" [(0, "off"); (1, "on")] 1 4;
      mkenum "gear" [(5, "D"); (2, "R")] 5 0;
      mkenum "none" [] 0 2 ]
    [ mkmessage 256 "status" 3 BigEndian 0 0 0 0 "ECU 1" ["GW"] "" []
        [ mksignal 0 "a" KEnum 0 None [] 0 false fl_one fl_zero fl_zero fl_zero "" 0 0 0 "first" fl_zero 0 [];
          mksignal 1 "b wide" KEnum 1 None [] 0 false fl_one fl_zero fl_zero fl_zero "" 1 0 0 "" fl_zero 0 [];
          mksignal 2 "speed" KStandard 5 None [] 10 true (mkfl 1 (-1)) fl_zero fl_zero (mkfl 1023 (-1)) "km/h" 0 0 0 "" fl_zero 0 [];
          mksignal 3 "c" KEnum 15 None [] 0 false fl_one fl_zero fl_zero fl_zero "" 0 0 0 "" fl_zero 0 [];
          mksignal 4 "g" KEnum 16 None [] 0 false fl_one fl_zero fl_zero fl_zero "" 2 0 0 "" fl_zero 0 [] ];
      mkmessage 512 "other" 1 LittleEndian 0 0 0 0 "GW" ["ECU 1"] "second" []
        [ mksignal 0 "n" KEnum 0 None [] 0 false fl_one fl_zero fl_zero fl_zero "" 3 0 0 "" fl_zero 0 [];
          mksignal 1 "w" KEnum 2 None [] 0 false fl_one fl_zero fl_zero fl_zero "" 1 0 0 "" fl_zero 0 [] ] ].

Ltac e_nodup := vm_compute; repeat constructor; cbn; intuition discriminate.
Ltac esig_tac := unfold esig_ok; cbn; repeat split; try reflexivity; try lia.
Ltac e_fin :=
  match goal with
  | |- _ <= _ => vm_compute; intuition discriminate
  | |- _ < _ => vm_compute; reflexivity
  | |- Forall (esig_ok _) _ => repeat (constructor; [esig_tac|]); constructor
  | |- NoDup _ => e_nodup
  | |- In _ _ => cbn; auto
  | |- incl _ _ => let x := fresh in let Hx := fresh in intros x Hx; cbn in Hx; cbn; intuition
  | |- True => exact I
  | |- _ = [] -> _ => let Hx := fresh in intros Hx; first [discriminate | reflexivity]
  | |- _ => cbn; lia
  end.

Example example_enum_bus_ok : ebus example_enum_bus.
Proof.
  unfold ebus, example_enum_bus. cbn [b_desc b_attrs b_nodes b_messages b_enums map n_name n_desc n_attrs length].
  split; [reflexivity|]. split; [repeat constructor|]. split; [e_nodup|]. split; [vm_compute; intuition discriminate|].
  split; [lia|]. split.
  { constructor; [|constructor; [|constructor]];
      unfold emessage;
      cbn [m_desc m_attrs m_cycle m_delay m_startdelay m_sendtype m_canid m_size m_signals m_sender m_receivers];
      repeat split; try reflexivity; e_fin. }
  split; [e_nodup|]. split; [e_nodup|]. split; [reflexivity|].
  repeat (apply Forall_cons;
    [unfold enum_wf; cbn [en_values en_maxindex en_minsize];
     split; [e_nodup|]; split; [e_nodup|];
     split; [intros v Hv; cbn in Hv; intuition (subst; cbn; lia)|]; split; cbn; lia|]).
  apply Forall_nil.
Qed.

Example example_enum_bus_roundtrip :
  exists b', export_import example_enum_bus = Ok b' /\ proj_bus b' = proj_bus example_enum_bus /\
             map (fun m => map (fun s => (s_name s, s_rel s, s_enum s)) (m_signals m)) (b_messages b')
             = [[("a", 0, 0); ("b_wide", 1, 5); ("speed", 5, 0); ("c", 15, 0); ("g", 16, 2)]; [("n", 0, 4); ("w", 2, 6)]].
Proof. eexists. split; [vm_compute; reflexivity|]. split; vm_compute; reflexivity. Qed.
